//! Invariant monitors over full dumps. Each is a pure function of (schema snapshot, dump[, extra])
//! returning findings as (signature, explanation). They never look at kanidm-internal state.

use kanidmd_lib::prelude::*;
use kanidmd_lib::schema::SchemaTransaction;
use kvcore::srv::{self, Dump};
use serde_json::Value as Json;
use std::collections::{BTreeMap, BTreeSet};

pub type Finding = (String, String);

#[derive(Clone, Debug, Default)]
pub struct AttrDef {
    pub multivalue: bool,
    pub unique: bool,
    pub syntax: String,
}

#[derive(Clone, Debug, Default)]
pub struct ClassDef {
    pub must: BTreeSet<String>,
    pub may: BTreeSet<String>,
    pub supplements: BTreeSet<String>,
    pub excludes: BTreeSet<String>,
}

/// The definitions in force on a replica, read from its live schema.
#[derive(Clone, Debug, Default)]
pub struct SchemaSnap {
    pub attrs: BTreeMap<String, AttrDef>,
    pub classes: BTreeMap<String, ClassDef>,
    pub domain_name: String,
}

pub async fn schema_snap(qs: &QueryServer) -> SchemaSnap {
    let r = qs.read().await.expect("read");
    let s = r.get_schema();
    let mut snap = SchemaSnap {
        domain_name: r.get_domain_name().to_string(),
        ..Default::default()
    };
    for (k, a) in s.get_attributes().iter() {
        snap.attrs.insert(
            k.as_str().to_string(),
            AttrDef {
                multivalue: a.multivalue,
                unique: a.unique,
                syntax: a.syntax.to_string(),
            },
        );
    }
    for (k, c) in s.get_classes().iter() {
        let conv = |v: &Vec<Attribute>| v.iter().map(|a| a.as_str().to_string()).collect::<Vec<_>>();
        let mut cd = ClassDef::default();
        cd.must.extend(conv(&c.systemmust));
        cd.must.extend(conv(&c.must));
        cd.may.extend(conv(&c.systemmay));
        cd.may.extend(conv(&c.may));
        cd.supplements.extend(c.systemsupplements.iter().map(|s| s.to_string()));
        cd.supplements.extend(c.supplements.iter().map(|s| s.to_string()));
        cd.excludes.extend(c.systemexcludes.iter().map(|s| s.to_string()));
        cd.excludes.extend(c.excludes.iter().map(|s| s.to_string()));
        snap.classes.insert(k.to_string(), cd);
    }
    snap
}

/// storage tag of a dumped value set and its item count
fn tag_and_len(vs: &Json) -> (String, usize) {
    if let Some(m) = vs.as_object() {
        if let Some((k, v)) = m.iter().next() {
            let n = match v {
                Json::Array(a) => {
                    // EM / PN are (primary, [values])
                    if (k == "EM" || k == "PN") && a.len() == 2 && a[1].is_array() {
                        a[1].as_array().map(|x| x.len()).unwrap_or(0)
                    } else {
                        a.len()
                    }
                }
                _ => 1,
            };
            return (k.clone(), n);
        }
    }
    ("?".into(), 0)
}

/// which storage tags are a valid encoding of which declared syntax
fn tag_matches_syntax(tag: &str, syntax: &str) -> bool {
    let want: &[&str] = match syntax {
        "UTF8STRING" => &["U8"],
        "UTF8STRING_INSENSITIVE" => &["I8"],
        "UTF8STRING_INAME" => &["N8"],
        "UUID" => &["UU"],
        "BOOLEAN" => &["BO"],
        "SYNTAX_ID" => &["SY"],
        "INDEX_ID" => &["IN"],
        "REFERENCE_UUID" => &["RF"],
        "JSON_FILTER" => &["JF"],
        "CREDENTIAL" => &["CR"],
        "SECRET_UTF8STRING" => &["RU"],
        "SSHKEY" => &["SK"],
        "SECURITY_PRINCIPAL_NAME" => &["SP"],
        "UINT32" => &["UI"],
        "INT64" => &["I64"],
        "UINT64" => &["U64"],
        "CID" => &["CI"],
        "NSUNIQUEID" => &["NU"],
        "DATETIME" => &["DT"],
        "EMAIL_ADDRESS" => &["EM"],
        "URL" => &["UR"],
        "OAUTH_SCOPE" => &["OS"],
        "OAUTH_SCOPE_MAP" => &["OM"],
        "OAUTH_CLAIM_MAP" => &["OC"],
        "PRIVATE_BINARY" => &["E2"],
        "INTENT_TOKEN" => &["IT"],
        "PASSKEY" => &["PK"],
        "ATTESTED_PASSKEY" => &["DK"],
        "SESSION" => &["AS"],
        "JWS_KEY_ES256" => &["JE"],
        "JWS_KEY_RS256" => &["JR"],
        "OAUTH2SESSION" => &["OZ"],
        "UIHINT" => &["UH"],
        "TOTPSECRET" => &["TO"],
        "APITOKEN" => &["AT"],
        "AUDIT_LOG_STRING" => &["SA"],
        "EC_KEY_PRIVATE" => &["EK"],
        "IMAGE" => &["IM"],
        "CREDENTIAL_TYPE" => &["CT"],
        "WEBAUTHN_ATTESTATION_CA_LIST" => &["WC"],
        "KEY_INTERNAL" => &["KI"],
        "HEX_STRING" => &["HS"],
        "CERTIFICATE" => &["X509"],
        "APPLICATION_PASSWORD" => &["AP"],
        "JSON" => &["JO"],
        "MESSAGE" => &["MS"],
        "SHA256" => &["S256"],
        _ => return true, // unknown syntax name: do not judge
    };
    want.contains(&tag)
}

fn strs(e: &Json, attr: &str) -> BTreeSet<String> {
    srv::dump_strs(e, attr).into_iter().collect()
}

pub fn uuids_of(e: &Json, attr: &str) -> BTreeSet<Uuid> {
    srv::dump_strs(e, attr)
        .into_iter()
        .filter_map(|s| Uuid::parse_str(&s).ok())
        .collect()
}

fn label(u: &Uuid, e: &Json) -> String {
    let n = srv::dump_strs(e, "name");
    format!("{}({})", u, n.first().cloned().unwrap_or_default())
}

// ---------------------------------------------------------------- C15 schema conformance

pub fn check_schema(snap: &SchemaSnap, d: &Dump) -> Vec<Finding> {
    let mut out = Vec::new();
    for (u, e) in &d.entries {
        if !srv::is_live(e) {
            continue; // property speaks of live entries; recycled entries are deliberately softened
        }
        let Some(attrs) = srv::dump_attrs(e) else {
            out.push(("c15/entry-without-attrs".into(), format!("{u}")));
            continue;
        };
        let classes = strs(e, "class");
        if classes.is_empty() {
            out.push(("c15/no-class".into(), label(u, e)));
            continue;
        }
        let extensible = classes.contains("extensibleobject");
        let mut must = BTreeSet::new();
        let mut may = BTreeSet::new();
        let mut supp = BTreeSet::new();
        let mut excl = BTreeSet::new();
        let mut unknown = false;
        for c in &classes {
            match snap.classes.get(c) {
                Some(cd) => {
                    must.extend(cd.must.iter().cloned());
                    may.extend(cd.may.iter().cloned());
                    supp.extend(cd.supplements.iter().cloned());
                    excl.extend(cd.excludes.iter().cloned());
                }
                None => {
                    unknown = true;
                    out.push(("c15/unknown-class".into(), format!("{} class {c}", label(u, e))));
                }
            }
        }
        if unknown {
            continue;
        }
        if !supp.is_empty() && !supp.iter().any(|s| classes.contains(s)) {
            out.push(("c15/supplements-not-satisfied".into(), format!("{} needs one of {supp:?}", label(u, e))));
        }
        for x in &excl {
            if classes.contains(x) {
                out.push(("c15/excluded-class-present".into(), format!("{} has excluded {x}", label(u, e))));
            }
        }
        for m in &must {
            if !attrs.contains_key(m) {
                out.push(("c15/missing-required-attribute".into(), format!("{} lacks {m}", label(u, e))));
            }
        }
        for (a, vs) in attrs {
            let (tag, n) = tag_and_len(vs);
            match snap.attrs.get(a) {
                None => out.push(("c15/attribute-unknown-to-schema".into(), format!("{} has {a}", label(u, e)))),
                Some(def) => {
                    if !extensible && !must.contains(a) && !may.contains(a) {
                        out.push(("c15/attribute-not-allowed-by-classes".into(), format!("{} has {a} classes {classes:?}", label(u, e))));
                    }
                    if !def.multivalue && n > 1 {
                        out.push(("c15/single-valued-attribute-has-many".into(), format!("{} {a} has {n} values", label(u, e))));
                    }
                    if !tag_matches_syntax(&tag, &def.syntax) {
                        out.push(("c15/value-of-wrong-syntax".into(), format!("{} {a} stored as {tag} but declared {}", label(u, e), def.syntax)));
                    }
                }
            }
        }
    }
    out
}

// ---------------------------------------------------------------- C16 references

/// reference targets of one stored value set, by storage tag
fn ref_targets(vs: &Json) -> Vec<Uuid> {
    let mut out = Vec::new();
    let Some(m) = vs.as_object() else { return out };
    let Some((k, v)) = m.iter().next() else { return out };
    match k.as_str() {
        "RF" => {
            for x in v.as_array().into_iter().flatten() {
                if let Some(u) = x.as_str().and_then(|s| Uuid::parse_str(s).ok()) {
                    out.push(u);
                }
            }
        }
        "OM" => {
            for x in v.as_array().into_iter().flatten() {
                if let Some(u) = x.get("u").and_then(|s| s.as_str()).and_then(|s| Uuid::parse_str(s).ok()) {
                    out.push(u);
                }
            }
        }
        "OC" => {
            for x in v.as_array().into_iter().flatten() {
                if let Some(d) = x.get("V1").and_then(|v1| v1.get("d")).and_then(|d| d.as_object()) {
                    for key in d.keys() {
                        if let Ok(u) = Uuid::parse_str(key) {
                            out.push(u);
                        }
                    }
                }
            }
        }
        _ => {}
    }
    out
}

pub fn check_refint(d: &Dump) -> Vec<Finding> {
    let live: BTreeSet<Uuid> = d.entries.iter().filter(|(_, e)| srv::is_live(e)).map(|(u, _)| *u).collect();
    let mut out = Vec::new();
    for (u, e) in &d.entries {
        if !srv::is_live(e) {
            continue;
        }
        let Some(attrs) = srv::dump_attrs(e) else { continue };
        for (a, vs) in attrs {
            for t in ref_targets(vs) {
                if !live.contains(&t) {
                    let state = match d.entries.get(&t) {
                        None => "absent",
                        Some(x) if srv::is_tombstone(x) => "tombstone",
                        Some(x) if srv::is_conflict(x) => "conflict",
                        Some(_) => "recycled",
                    };
                    out.push((format!("c16/dangling-reference/{a}/target-{state}"), format!("{} {a} -> {t} ({state})", label(u, e))));
                }
            }
        }
    }
    out
}

// ---------------------------------------------------------------- C17 memberof closure

pub fn check_memberof(d: &Dump) -> Vec<Finding> {
    let mut out = Vec::new();
    // live groups and their outgoing member edges (member ∪ dynmember)
    let mut members: BTreeMap<Uuid, BTreeSet<Uuid>> = BTreeMap::new();
    let mut live = BTreeSet::new();
    for (u, e) in &d.entries {
        if !srv::is_live(e) {
            continue;
        }
        live.insert(*u);
        if srv::dump_classes(e).iter().any(|c| c == "group") {
            let mut m = uuids_of(e, "member");
            m.extend(uuids_of(e, "dynmember"));
            members.insert(*u, m);
        }
    }
    // direct: entry -> groups listing it
    let mut direct: BTreeMap<Uuid, BTreeSet<Uuid>> = BTreeMap::new();
    for (g, ms) in &members {
        for m in ms {
            direct.entry(*m).or_default().insert(*g);
        }
    }
    for u in &live {
        let e = &d.entries[u];
        // closure upward: groups reachable by following "is listed by" one or more times
        let mut seen: BTreeSet<Uuid> = BTreeSet::new();
        let mut stack: Vec<Uuid> = direct.get(u).map(|s| s.iter().cloned().collect()).unwrap_or_default();
        while let Some(g) = stack.pop() {
            if seen.insert(g) {
                if let Some(p) = direct.get(&g) {
                    stack.extend(p.iter().cloned());
                }
            }
        }
        let want_direct = direct.get(u).cloned().unwrap_or_default();
        let got_mo = uuids_of(e, "memberof");
        let got_dmo = uuids_of(e, "directmemberof");
        if got_mo != seen {
            let extra: Vec<_> = got_mo.difference(&seen).collect();
            let missing: Vec<_> = seen.difference(&got_mo).collect();
            let sig = match (extra.is_empty(), missing.is_empty()) {
                (false, true) => "c17/memberof-has-extra-group",
                (true, false) => "c17/memberof-misses-group",
                _ => "c17/memberof-extra-and-missing",
            };
            out.push((sig.into(), format!("{} memberof extra={extra:?} missing={missing:?}", label(u, e))));
        }
        if got_dmo != want_direct {
            let extra: Vec<_> = got_dmo.difference(&want_direct).collect();
            let missing: Vec<_> = want_direct.difference(&got_dmo).collect();
            let sig = match (extra.is_empty(), missing.is_empty()) {
                (false, true) => "c17/directmemberof-has-extra-group",
                (true, false) => "c17/directmemberof-misses-group",
                _ => "c17/directmemberof-extra-and-missing",
            };
            out.push((sig.into(), format!("{} directmemberof extra={extra:?} missing={missing:?}", label(u, e))));
        }
    }
    out
}

/// live groups that lie on a membership cycle (self-loop included) in this dump
pub fn groups_on_cycles(d: &Dump) -> BTreeSet<Uuid> {
    let mut members: BTreeMap<Uuid, BTreeSet<Uuid>> = BTreeMap::new();
    for (u, e) in &d.entries {
        if srv::is_live(e) && srv::dump_classes(e).iter().any(|c| c == "group") {
            let mut m = uuids_of(e, "member");
            m.extend(uuids_of(e, "dynmember"));
            members.insert(*u, m);
        }
    }
    let mut out = BTreeSet::new();
    for g in members.keys() {
        // does g reach itself
        let mut seen = BTreeSet::new();
        let mut stack: Vec<Uuid> = members[g].iter().cloned().collect();
        while let Some(x) = stack.pop() {
            if x == *g {
                out.insert(*g);
                break;
            }
            if seen.insert(x) {
                if let Some(m) = members.get(&x) {
                    stack.extend(m.iter().cloned());
                }
            }
        }
    }
    out
}

// ---------------------------------------------------------------- C19 uniqueness

pub fn check_unique(snap: &SchemaSnap, d: &Dump) -> Vec<Finding> {
    let mut out = Vec::new();
    let uniq: Vec<&String> = snap.attrs.iter().filter(|(_, a)| a.unique).map(|(k, _)| k).collect();
    for a in uniq {
        let mut seen: BTreeMap<String, Uuid> = BTreeMap::new();
        for (u, e) in &d.entries {
            if !srv::is_live(e) {
                continue;
            }
            let Some(vs) = srv::dump_attrs(e).and_then(|m| m.get(a)) else { continue };
            // each stored value as canonical JSON text
            let (_, items) = match vs.as_object().and_then(|m| m.iter().next()) {
                Some((k, Json::Array(items))) => (k.clone(), items.clone()),
                Some((k, other)) => (k.clone(), vec![other.clone()]),
                None => continue,
            };
            for it in items {
                let key = it.to_string();
                if let Some(prev) = seen.insert(key.clone(), *u) {
                    if prev != *u {
                        out.push((format!("c19/duplicate-unique-value/{a}"), format!("{a}={key} on {prev} and {u}")));
                    }
                }
            }
        }
    }
    out
}

// ---------------------------------------------------------------- C22 spn

pub fn domain_name_of(d: &Dump) -> Option<String> {
    let e = d.entries.get(&UUID_DOMAIN_INFO)?;
    srv::dump_strs(e, "domain_name").into_iter().next()
}

pub fn check_spn(d: &Dump) -> Vec<Finding> {
    let mut out = Vec::new();
    let Some(domain) = domain_name_of(d) else {
        return vec![("c22/no-domain-entry".into(), "domain info entry missing".into())];
    };
    for (u, e) in &d.entries {
        if !srv::is_live(e) {
            continue;
        }
        let classes = srv::dump_classes(e);
        if !classes.iter().any(|c| c == "account" || c == "group") {
            continue;
        }
        let names = srv::dump_strs(e, "name");
        // spn is stored as [[local, domain]]
        let spns: Vec<(String, String)> = srv::dump_attrs(e)
            .and_then(|m| m.get("spn"))
            .and_then(|v| v.get("SP"))
            .and_then(|v| v.as_array())
            .map(|a| {
                a.iter()
                    .filter_map(|p| {
                        let p = p.as_array()?;
                        Some((p.first()?.as_str()?.to_string(), p.get(1)?.as_str()?.to_string()))
                    })
                    .collect()
            })
            .unwrap_or_default();
        if spns.len() != 1 {
            out.push((format!("c22/spn-count-{}", spns.len()), format!("{} has {} spn values", label(u, e), spns.len())));
            continue;
        }
        let (local, dom) = &spns[0];
        if dom != &domain {
            out.push(("c22/spn-domain-part-stale".into(), format!("{} spn {local}@{dom} but domain is {domain}", label(u, e))));
        }
        match names.first() {
            Some(n) => {
                if n != local {
                    out.push(("c22/spn-local-part-differs-from-name".into(), format!("{} spn {local}@{dom} name {n}", label(u, e))));
                }
            }
            None => { /* nameless accounts keep their spn local part; not judged here */ }
        }
    }
    out
}

// ---------------------------------------------------------------- C18 dyngroups (needs the server for the filter)

pub async fn check_dyngroups(qs: &QueryServer, d: &Dump) -> Vec<Finding> {
    let mut out = Vec::new();
    let mut r = qs.read().await.expect("read");
    for (u, e) in &d.entries {
        if !srv::is_live(e) || !srv::dump_classes(e).iter().any(|c| c == "dyngroup") {
            continue;
        }
        let got = uuids_of(e, "dynmember");
        // the stored filter, evaluated by a plain search over live entries
        let ent = match r.internal_search_uuid(*u) {
            Ok(x) => x,
            Err(_) => continue,
        };
        let Some(pf) = ent.get_ava_single_protofilter(Attribute::DynGroupFilter).cloned() else {
            if !got.is_empty() {
                out.push(("c18/dynmember-without-filter".into(), format!("{} has members but no filter", label(u, e))));
            }
            continue;
        };
        let ident = Identity::from_impersonate_entry_readwrite(ent.clone());
        let f = match Filter::from_ro(&ident, &pf, &mut r) {
            Ok(f) => f,
            Err(_) => continue,
        };
        // executed the way any ordinary search is: hidden (recycled / tombstone) entries excluded
        let fv = match f.validate(r.get_schema()) {
            Ok(f) => f.into_ignore_hidden(),
            Err(_) => continue,
        };
        let se = SearchEvent::new_internal(fv);
        // candidates are ordinary entries: dynamic groups as members of dynamic groups (itself
        // included) are not judged, the statement speaks of candidate entries and their attributes
        let is_dyn = |x: &Uuid| d.entries.get(x).map(|e| srv::dump_classes(e).iter().any(|c| c == "dyngroup")).unwrap_or(false);
        let want: BTreeSet<Uuid> = match r.search(&se) {
            Ok(es) => es.iter().map(|x| x.get_uuid()).filter(|x| !is_dyn(x)).collect(),
            Err(_) => continue,
        };
        let got_wo_self: BTreeSet<Uuid> = got.iter().cloned().filter(|x| !is_dyn(x)).collect();
        if want != got_wo_self {
            let extra: Vec<_> = got_wo_self.difference(&want).collect();
            let missing: Vec<_> = want.difference(&got_wo_self).collect();
            let sig = match (extra.is_empty(), missing.is_empty()) {
                (false, true) => "c18/dynmember-has-non-matching-entry",
                (true, false) => "c18/dynmember-misses-matching-entry",
                _ => "c18/dynmember-extra-and-missing",
            };
            out.push((sig.into(), format!("{} filter {pf:?} extra={extra:?} missing={missing:?}", label(u, e))));
        }
    }
    out
}
