//! Property modules that are pure "invariant after every commit" monitors over the shared runner:
//! C15 schema, C16 references, C17 memberof closure, C18 dyngroups, C19 uniqueness, C22 spn.

use crate::mon::{self, Finding, SchemaSnap};
use crate::sim::*;
use crate::world::*;
use kvcore::srv;
use kvcore::{Acc, Args, Run};
use serde_json::json;

fn base_pop() -> Pop {
    Pop { persons: 4, services: 2, groups: 5, dyngroups: 0, oauths: 1, certs: 0, names: 5 }
}

fn no_findings(_w: &World, _q: bool, _s: &[SchemaSnap], _a: &mut Acc) -> Vec<Finding> {
    Vec::new()
}

fn require_ops(run: &mut Run, kinds: &[&str]) {
    for k in kinds {
        let ok = run.acc.get(&format!("op.{k}.ok")) > 0;
        run.require(ok, &format!("operation kind {k} was never accepted"));
    }
}
fn require_rejects(run: &mut Run, kinds: &[&str]) {
    for k in kinds {
        let ok = run.acc.get(&format!("op.{k}.err")) > 0;
        run.require(ok, &format!("operation kind {k} was never rejected (no negative case observed)"));
    }
}

// ------------------------------------------------------------------------------------------- C16
pub fn c16(args: Args) {
    let mut run = Run::new(args.clone(), "exploration",
        "random histories (users, groups, service accounts, OAuth2 client with scope maps, entry managers; reference edits to live/recycled/tombstoned/never-existing uuids; delete, revive, purge; 1-2 replicas with conflicts); after every commit every reference-valued attribute (storage tags RF/OM/OC) of every live entry must point at a live entry; non-trivial = history with an accepted delete of a referenced entry or a rejected dangling reference; distinct by full op list");
    run.assume("reference-valued attributes are recognised by storage encoding (Reference, OauthScopeMap, OauthClaimMap); session/oauth2-session records are not references (DESIGN C16)");
    let prof = Profile {
        replicas_min: 1, replicas_max: 2, file_backed: false, ops_min: 25, ops_max: 70, prefill: 0, long_gaps_when_replicated: false, level: kanidmd_lib::constants::DOMAIN_TGT_LEVEL, unique_names: true, home_creates: true, skewed_quarters: 0, late_joiner: false, revive_pairs: false,
        pop: Pop { persons: 4, services: 2, groups: 4, dyngroups: 0, oauths: 1, certs: 2, names: 6 },
        w: Weights { create: 30, rename: 3, set_desc: 3, add_member: 22, rem_member: 6, set_manager: 12, scope_map: 10, claim_map: 12,
            delete: 14, revive: 8, purge_recycled: 3, purge_tombstones: 2, advance_small: 4, advance_big: 4, repl: 8, abort: 2, ..Default::default() },
    };
    let after = |w: &World, rec: &LogRec, _s: &SchemaSnap, acc: &mut Acc| -> Vec<Finding> {
        let r = rec.op.target();
        // a write asking for a reference to a non-live entry must be refused
        if rec.ok && rec.changed {
            let tgt = match &rec.op {
                Op::AddMember { member, .. } => Some(*member),
                Op::SetManager { target: Some(t), .. } => Some(*t),
                Op::ScopeMap { grp, remove: false, .. } => Some(*grp),
                Op::ClaimMap { grp, remove: false, .. } => Some(*grp),
                _ => None,
            };
            if let Some(t) = tgt {
                let live_before = w.prev[r].entries.get(&t).map(srv::is_live).unwrap_or(false);
                if !live_before {
                    acc.count("accepted_reference_to_non_live_target");
                }
            }
        } else if matches!(rec.op, Op::AddMember { .. } | Op::SetManager { .. } | Op::ScopeMap { .. } | Op::ClaimMap { .. }) {
            acc.count("rejected_reference_edit");
        }
        mon::check_refint(&w.dumps[r])
    };
    let end = |w: &World, _q: bool, _s: &[SchemaSnap], _a: &mut Acc| -> Vec<Finding> {
        (0..w.n()).flat_map(|i| mon::check_refint(&w.dumps[i])).collect()
    };
    let nt = |w: &World| count_ops(w, "delete") > 0 && (count_ops(w, "add_member") + count_ops(w, "set_manager") + count_ops(w, "scope_map")) > 0;
    let hooks = Hooks { after_op: &after, at_end: &end, nontrivial: &nt, dyn_check: false, quiesce: true, verify_sig: Some("c16/server-verify") };
    let n = args.tier.pick(160, 1300);
    run_histories(&mut run, &args, 16, n, &prof, &hooks);
    require_ops(&mut run, &["create", "add_member", "set_manager", "scope_map", "claim_map", "delete", "revive", "repl"]);
    require_rejects(&mut run, &["add_member"]);
    run.finish();
}

// ------------------------------------------------------------------------------------------- C17
pub fn c17(args: Args) {
    let mut run = Run::new(args.clone(), "exploration",
        "random group graphs (up to 10 harness groups + builtin groups, cycles and self-membership allowed) edited by member add/remove, group delete/revive, dyngroup contributions, 1-2 replicas; after every commit memberof == reachable-by->=1-link set over live groups and directmemberof == direct listing groups, for every live entry; non-trivial = history with >= 3 accepted member edits and a delete or revive; distinct by full op list");
    let prof = Profile {
        replicas_min: 1, replicas_max: 2, file_backed: false, ops_min: 30, ops_max: 80, prefill: 0, long_gaps_when_replicated: false, level: kanidmd_lib::constants::DOMAIN_TGT_LEVEL, unique_names: true, home_creates: true, skewed_quarters: 0, late_joiner: false, revive_pairs: false,
        pop: Pop { persons: 4, services: 1, groups: 8, dyngroups: 2, oauths: 0, certs: 0, names: 6 },
        w: Weights { create: 35, set_desc: 5, add_member: 40, rem_member: 14, delete: 10, revive: 7, dyn_filter: 4, purge_recycled: 2, advance_small: 3, advance_big: 2, repl: 8, abort: 2, rename: 2, ..Default::default() },
    };
    // cause classes of the defects known on this tree (see known_findings.json); anything that does
    // not fit one of them keeps its generic signature
    let classify = |w: &World, r: usize, op: Option<&Op>, f: Vec<Finding>| -> Vec<Finding> {
        if f.is_empty() {
            return f;
        }
        let cyc_prev = mon::groups_on_cycles(&w.prev[r]);
        let cyc_now = mon::groups_on_cycles(&w.dumps[r]);
        f.into_iter()
            .map(|(sig, why)| {
                let cyclic = !cyc_prev.is_empty() || !cyc_now.is_empty();
                let s2 = if sig.contains("has-extra-group") && matches!(op, Some(Op::DynFilter { .. })) {
                    "c17/memberof-keeps-dyngroup-after-filter-change".to_string()
                } else if sig.starts_with("c17/memberof-has-extra-group") && cyclic {
                    "c17/stale-memberof-after-removal-in-cyclic-graph".to_string()
                } else if sig.contains("misses-group") && matches!(op, Some(Op::Revive { .. })) {
                    "c17/memberof-not-restored-for-members-of-revived-group".to_string()
                } else {
                    sig
                };
                (s2, why)
            })
            .collect()
    };
    let after = |w: &World, rec: &LogRec, _s: &SchemaSnap, _acc: &mut Acc| {
        let r = rec.op.target();
        classify(w, r, Some(&rec.op), mon::check_memberof(&w.dumps[r]))
    };
    let end = |w: &World, _q: bool, _s: &[SchemaSnap], _a: &mut Acc| -> Vec<Finding> {
        (0..w.n()).flat_map(|i| classify(w, i, None, mon::check_memberof(&w.dumps[i]))).collect()
    };
    let nt = |w: &World| count_ops(w, "add_member") + count_ops(w, "rem_member") >= 3 && count_ops(w, "delete") + count_ops(w, "revive") > 0;
    let hooks = Hooks { after_op: &after, at_end: &end, nontrivial: &nt, dyn_check: false, quiesce: true, verify_sig: Some("c17/server-verify") };
    let n = args.tier.pick(160, 1300);
    run_histories(&mut run, &args, 17, n, &prof, &hooks);
    // dense: few leaves and few groups, mostly membership edits on one replica, so that direct links
    // are added and removed while another path to the same group exists (memberof unchanged,
    // directmemberof must change) and links are removed one path at a time
    let prof_dense = Profile {
        pop: Pop { persons: 3, services: 0, groups: 4, dyngroups: 0, oauths: 0, certs: 0, names: 8 },
        w: Weights { create: 25, add_member: 45, rem_member: 28, delete: 3, revive: 2, set_desc: 2, abort: 1, ..Default::default() },
        replicas_min: 1, replicas_max: 1, ops_min: 25, ops_max: 60, ..prof
    };
    run_histories(&mut run, &args, 1017, args.tier.pick(120, 1000), &prof_dense, &hooks);
    require_ops(&mut run, &["create", "add_member", "rem_member", "delete", "revive", "repl"]);
    run.finish();
}

// ------------------------------------------------------------------------------------------- C18
pub fn c18(args: Args) {
    let mut run = Run::new(args.clone(), "exploration",
        "random histories creating/editing/deleting candidate entries (class, name, description) and dynamic groups with random filters (8 filter shapes incl. and/or/andnot/pres), filter edits, dyngroup delete/revive; after every commit each live dyngroup's dynmember == entries found by a plain search with its stored filter (self excluded); non-trivial = history where some dyngroup had a non-empty member set and a filter or candidate edit was accepted; distinct by full op list");
    run.assume("membership of the dyngroup in itself is not judged (the statement does not say)");
    let prof = Profile {
        replicas_min: 1, replicas_max: 1, file_backed: false, ops_min: 25, ops_max: 60, prefill: 0, long_gaps_when_replicated: false, level: kanidmd_lib::constants::DOMAIN_TGT_LEVEL, unique_names: false, home_creates: false, skewed_quarters: 0, late_joiner: false, revive_pairs: false,
        pop: Pop { persons: 4, services: 2, groups: 2, dyngroups: 3, oauths: 0, certs: 0, names: 4 },
        w: Weights { create: 35, rename: 10, set_desc: 25, dyn_filter: 14, delete: 10, revive: 6, add_member: 4, purge_recycled: 1, advance_small: 2, advance_big: 1, abort: 2, ..Default::default() },
    };
    let after = |_w: &World, _rec: &LogRec, _s: &SchemaSnap, _acc: &mut Acc| Vec::new();
    let nt = |w: &World| count_ops(w, "dyn_filter") + count_ops(w, "set_desc") > 0 && w.dumps[0].entries.values().any(|e| srv::is_live(e) && srv::dump_classes(e).iter().any(|c| c == "dyngroup") && !mon::uuids_of(e, "dynmember").is_empty() && World::live_uuids(&w.dumps[0]).len() > 0 && srv::dump_strs(e, "name").iter().any(|n| n.starts_with('n')));
    let hooks = Hooks { after_op: &after, at_end: &no_findings, nontrivial: &nt, dyn_check: true, quiesce: false, verify_sig: Some("c18/server-verify") };
    let n = args.tier.pick(130, 1100);
    run_histories(&mut run, &args, 18, n, &prof, &hooks);
    require_ops(&mut run, &["create", "set_desc", "dyn_filter", "delete", "revive", "rename"]);
    run.finish();
}

// ------------------------------------------------------------------------------------------- C19
pub fn c19(args: Args) {
    let mut run = Run::new(args.clone(), "exploration",
        "random creates and renames from a 4-name pool (single requests, two-entry requests, separate transactions, concurrently on 1-3 replicas with random replication schedules); after every commit no two live entries share a uuid or a value of any schema-unique attribute; at quiescence every replica holds identical conflict entries; non-trivial = history where a name clash was attempted (rejected locally or resolved by conflict); distinct by full op list");
    let prof = Profile {
        replicas_min: 1, replicas_max: 3, file_backed: false, ops_min: 15, ops_max: 50, prefill: 0, long_gaps_when_replicated: false, level: kanidmd_lib::constants::DOMAIN_TGT_LEVEL, unique_names: false, home_creates: false, skewed_quarters: 0, late_joiner: false, revive_pairs: false,
        pop: Pop { persons: 4, services: 2, groups: 3, dyngroups: 0, oauths: 0, certs: 0, names: 4 },
        w: Weights { create: 40, create_pair: 10, rename: 25, set_desc: 4, delete: 6, revive: 4, advance_small: 6, repl: 14, abort: 2, ..Default::default() },
    };
    let after = |w: &World, rec: &LogRec, s: &SchemaSnap, acc: &mut Acc| {
        if !rec.ok && matches!(rec.op, Op::Create { .. } | Op::CreatePair { .. } | Op::Rename { .. }) {
            acc.count("clash_rejected_locally");
        }
        mon::check_unique(s, &w.dumps[rec.op.target()])
    };
    let end = |w: &World, quiesced: bool, s: &[SchemaSnap], acc: &mut Acc| -> Vec<Finding> {
        let mut f: Vec<Finding> = (0..w.n()).flat_map(|i| mon::check_unique(&s[i], &w.dumps[i])).collect();
        if quiesced && w.n() > 1 {
            // conflict entries identical on every replica
            let conf = |i: usize| -> std::collections::BTreeMap<_, _> {
                w.dumps[i].entries.iter().filter(|(_, e)| srv::is_conflict(e)).map(|(u, e)| (*u, crate::c08::normalise(e))).collect()
            };
            let c0 = conf(0);
            if !c0.is_empty() {
                acc.count("histories_with_conflict_entries");
            }
            for i in 1..w.n() {
                let ci = conf(i);
                if ci != c0 {
                    let only0: Vec<_> = c0.keys().filter(|k| !ci.contains_key(*k)).collect();
                    let onlyi: Vec<_> = ci.keys().filter(|k| !c0.contains_key(*k)).collect();
                    f.push(("c19/conflict-entries-differ-between-replicas".into(), format!("replica 0 vs {i}: only0={only0:?} only{i}={onlyi:?} (or same ids with different content)")));
                }
            }
        }
        f
    };
    let nt = |w: &World| w.log.iter().any(|l| !l.ok && matches!(l.op, Op::Create { .. } | Op::CreatePair { .. } | Op::Rename { .. })) || w.dumps.iter().any(|d| d.entries.values().any(srv::is_conflict));
    let hooks = Hooks { after_op: &after, at_end: &end, nontrivial: &nt, dyn_check: false, quiesce: true, verify_sig: Some("c19/server-verify") };
    let n = args.tier.pick(220, 1800);
    run_histories(&mut run, &args, 19, n, &prof, &hooks);
    require_ops(&mut run, &["create", "rename", "repl"]);
    require_rejects(&mut run, &["create", "rename"]);
    let c = run.acc.get("histories_with_conflict_entries") > 0;
    run.require(c, "no history produced a replicated conflict entry");
    run.finish();
}

// ------------------------------------------------------------------------------------------- C22
pub fn c22(args: Args) {
    let mut run = Run::new(args.clone(), "exploration",
        "random creates/renames of persons, groups, service accounts (incl. supplied wrong spn values and spn purge/tamper requests) interleaved with domain renames; after every commit every live account or group has exactly one spn == name@current-domain (domain read from the stored domain entry); non-trivial = history with an accepted rename and an accepted domain rename; distinct by full op list");
    run.assume("entries without a name attribute are only required to have one spn with the current domain part (DESIGN C22)");
    let prof = Profile {
        replicas_min: 1, replicas_max: 1, file_backed: false, ops_min: 20, ops_max: 60, prefill: 0, long_gaps_when_replicated: false, level: kanidmd_lib::constants::DOMAIN_TGT_LEVEL, unique_names: false, home_creates: false, skewed_quarters: 0, late_joiner: false, revive_pairs: false,
        pop: Pop { persons: 4, services: 2, groups: 4, dyngroups: 0, oauths: 1, certs: 0, names: 6 },
        w: Weights { create: 35, create_bad_spn: 8, create_pair: 4, rename: 25, domain_rename: 10, spn_tamper: 10, set_desc: 4, delete: 5, revive: 4, add_member: 4, abort: 2, advance_small: 2, ..Default::default() },
    };
    let after = |w: &World, rec: &LogRec, _s: &SchemaSnap, _acc: &mut Acc| mon::check_spn(&w.dumps[rec.op.target()]);
    let nt = |w: &World| count_ops(w, "rename") > 0 && count_ops(w, "domain_rename") > 0;
    let hooks = Hooks { after_op: &after, at_end: &no_findings, nontrivial: &nt, dyn_check: false, quiesce: false, verify_sig: Some("c22/server-verify") };
    let n = args.tier.pick(110, 900);
    run_histories(&mut run, &args, 22, n, &prof, &hooks);
    // a rename is still a rename when it reaches another server by replication: the same
    // invariant on two replicas with concurrent renames and unrelated edits (no domain rename
    // here: renaming the domain of a replicated topology is a separate, manual procedure)
    let prof2 = Profile {
        replicas_min: 2, replicas_max: 2, file_backed: false, ops_min: 15, ops_max: 45, prefill: 0, long_gaps_when_replicated: false, level: kanidmd_lib::constants::DOMAIN_TGT_LEVEL, unique_names: true, home_creates: true, skewed_quarters: 0, late_joiner: false, revive_pairs: false,
        pop: Pop { persons: 3, services: 1, groups: 3, dyngroups: 0, oauths: 0, certs: 0, names: 6 },
        w: Weights { create: 30, rename: 25, set_desc: 14, add_member: 6, delete: 3, advance_small: 5, repl: 20, abort: 1, ..Default::default() },
    };
    let end2 = |w: &World, _q: bool, _s: &[SchemaSnap], _a: &mut Acc| -> Vec<Finding> { (0..w.n()).flat_map(|i| mon::check_spn(&w.dumps[i])).collect() };
    let hooks2 = Hooks { after_op: &after, at_end: &end2, nontrivial: &|w: &World| count_ops(w, "rename") > 0 && count_ops(w, "repl") > 0, dyn_check: false, quiesce: true, verify_sig: Some("c22/server-verify") };
    run_histories(&mut run, &args, 1022, args.tier.pick(50, 400), &prof2, &hooks2);
    require_ops(&mut run, &["create", "rename", "domain_rename", "repl"]);
    run.finish();
}

// ------------------------------------------------------------------------------------------- C15
pub fn c15(args: Args) {
    let mut run = Run::new(args.clone(), "exploration",
        "random histories of creates/modifies including ill-typed, missing-attribute, unknown-class, not-allowed-attribute requests (about a third rejected), schema additions of new attributes and classes mid-history, use and removal of the new class, and 2-replica merges of individually valid edits; after every commit (and replication apply) every live entry is checked by an independent schema checker (classes known, supplements/excludes, must present, attribute allowed by some class, single-value, storage encoding matches declared syntax); rejected requests must leave the dump unchanged; non-trivial = history with a schema addition, an accepted use of it and a rejected ill-formed request; distinct by full op list");
    run.assume("definitions (attribute syntax/multivalue, class must/may) are read from the replica's live schema; narrowing or deleting in-use definitions is excluded as the property says");
    run.assume("run-time schema additions are exercised at domain level 14 (the last level at which stored schema entries are loaded); replicated merges at the current level");
    // Schema entries created at run time only take effect below domain level 15 (from 15 on the
    // schema comes from the migration data), and replication needs the current level: two profiles.
    let prof_schema = Profile {
        replicas_min: 1, replicas_max: 1, file_backed: false, ops_min: 25, ops_max: 70, prefill: 0, long_gaps_when_replicated: false, level: 14, unique_names: false, home_creates: false, skewed_quarters: 0, late_joiner: false, revive_pairs: false,
        pop: Pop { persons: 3, services: 2, groups: 3, dyngroups: 0, oauths: 1, certs: 0, names: 6 },
        w: Weights { create: 30, rename: 5, set_desc: 8, add_desc_multi: 8, add_member: 6, ill_formed: 22, schema_attr: 8, schema_class: 8, custom_set: 18, class_remove: 8,
            delete: 4, revive: 3, advance_small: 3, abort: 3, ..Default::default() },
    };
    let prof_repl = Profile {
        replicas_min: 1, replicas_max: 2, file_backed: false, ops_min: 25, ops_max: 70, prefill: 0, long_gaps_when_replicated: false, level: kanidmd_lib::constants::DOMAIN_TGT_LEVEL, unique_names: true, home_creates: true, skewed_quarters: 0, late_joiner: false, revive_pairs: false,
        pop: Pop { persons: 3, services: 2, groups: 3, dyngroups: 0, oauths: 1, certs: 1, names: 6 },
        w: Weights { create: 30, rename: 6, set_desc: 10, add_desc_multi: 8, add_member: 8, set_manager: 4, scope_map: 4, ill_formed: 24,
            delete: 5, revive: 3, repl: 12, advance_small: 3, abort: 3, ..Default::default() },
    };
    let after = |w: &World, rec: &LogRec, s: &SchemaSnap, _acc: &mut Acc| mon::check_schema(s, &w.dumps[rec.op.target()]);
    let end = |w: &World, _q: bool, s: &[SchemaSnap], _a: &mut Acc| -> Vec<Finding> {
        (0..w.n()).flat_map(|i| mon::check_schema(&s[i], &w.dumps[i])).collect()
    };
    let nt = |w: &World| count_ops(w, "schema_attr") > 0 && count_ops(w, "custom_set") > 0 && w.log.iter().any(|l| !l.ok && matches!(l.op, Op::IllFormed { .. }));
    let hooks = Hooks { after_op: &after, at_end: &end, nontrivial: &nt, dyn_check: false, quiesce: true, verify_sig: Some("c15/server-verify") };
    let n = args.tier.pick(60, 500);
    run_histories(&mut run, &args, 15, n, &prof_schema, &hooks);
    run_histories(&mut run, &args, 1015, n, &prof_repl, &hooks);
    require_ops(&mut run, &["create", "schema_attr", "schema_class", "custom_set", "class_remove", "repl"]);
    require_rejects(&mut run, &["ill_formed", "add_desc_multi", "custom_set"]);
    let accepted_ill = run.acc.get("op.ill_formed.ok");
    run.extra("ill_formed_requests_accepted", json!(accepted_ill));
    run.finish();
}

#[allow(dead_code)]
fn _unused() {
    let _ = base_pop();
}
