use crate::sim::*;
use crate::world::*;
use kvcore::srv;
use kvcore::Rng;

pub fn run(args: kvcore::Args) {
    // replay one history by (prop salt, history index) with verbose output
    let salt: u64 = args.rest.first().and_then(|s| s.parse().ok()).unwrap_or(16);
    let h: u64 = args.rest.get(1).and_then(|s| s.parse().ok()).unwrap_or(0);
    let _ = (salt, h);
    let rt = srv::rt();
    rt.block_on(async {
        let mut rng = Rng::new(1);
        let mut w = World::new(&WorldCfg { replicas: 1, level: 14, unique_names: false, skew: false, file_backed: None }, &mut rng).await;
        let g0 = Obj(Kind::Group, 0);
        let d0 = Obj(Kind::DynGroup, 0);
        let g0 = d0;
        for op in [
            Op::Create { r: 0, obj: d0, name: 1, bad_spn: false },
            Op::Create { r: 0, obj: Obj(Kind::Person, 0), name: 2, bad_spn: false },
            Op::SchemaAttr { r: 0, idx: 0, multi: false },
            Op::SchemaClass { r: 0, idx: 0 },
            Op::CustomSet { r: 0, obj: Obj(Kind::Person, 0), idx: 0, with_class: true },
            Op::CustomSet { r: 0, obj: Obj(Kind::Person, 0), idx: 0, with_class: false },
            Op::ClassRemove { r: 0, obj: Obj(Kind::Person, 0), idx: 0 },
        ] {
            let rec = w.apply(op).await;
            println!("{:?} -> {} {}", rec.op, rec.ok, rec.detail);
            let snap = crate::mon::schema_snap(w.qs(0)).await;
            println!("   schema has attr: {:?} class: {:?}", snap.attrs.keys().filter(|k| k.contains("verif")).collect::<Vec<_>>(), snap.classes.keys().filter(|k| k.contains("verif")).collect::<Vec<_>>());
            println!("   d0 dynmember = {:?}", srv::dump_strs(&w.dumps[0].entries[&g0.uuid()], "dynmember"));
            println!("   admin memberof = {:?}", srv::dump_strs(&w.dumps[0].entries[&uuid::uuid!("00000000-0000-0000-0000-000000000000")], "memberof"));
            if let Some(o) = w.dumps[0].entries.get(&Obj(Kind::OAuth2, 0).uuid()) { println!("   o0 scopemap = {:?}", srv::dump_attrs(o).and_then(|m| m.get("oauth2_rs_scope_map"))); }
        }
    });
}
