//! dirsim: random directory write histories on 1-3 real replicas with simulated time; monitors
//! over full dumps after every commit. See /verif/DESIGN.md section 5.0.
#[macro_use]
extern crate kanidmd_lib;

mod c03;
mod c07;
mod c08;
mod c26;
mod explore;
mod mon;
mod props;
mod sim;
mod world;

fn main() {
    let args = kvcore::parse_args();
    if std::env::var("VERIF_LOG").is_ok() {
        sketching::test_init();
    }
    match args.prop.as_str() {
        "explore" => explore::run(args),
        "C03" => c03::c03(args),
        "C07" => c07::c07(args),
        "C08" => c08::c08(args),
        "C09" => c26::c09(args),
        "C26" => c26::c26(args),
        "C15" => props::c15(args),
        "C16" => props::c16(args),
        "C17" => props::c17(args),
        "C18" => props::c18(args),
        "C19" => props::c19(args),
        "C22" => props::c22(args),
        p => {
            println!("INCONCLUSIVE property={p} reason=dirsim does not serve this property yet");
            std::process::exit(2);
        }
    }
}
