//! C07 Change identifiers strictly increase.
//!
//! One file-backed server per worker; a long concatenation of ALL step sequences up to a bounded
//! length over {clock delta} x {commit, abort, failing operation} plus restarts. The change id of
//! every committed transaction is read back from a canary entry it modified; the offline checker
//! demands a strictly increasing sequence and a constant server id.

use kanidmd_lib::entry::{Entry, EntryInit, EntryNew};
use kanidmd_lib::prelude::*;
use kvcore::rng::mix;
use kvcore::srv;
use kvcore::{Acc, Args, Rng, Run, Scratch};
use serde_json::json;

const CANARY: Uuid = uuid::uuid!("aaaaaaaa-00ca-4000-8000-000000000001");

#[derive(Clone, Copy, Debug, PartialEq)]
enum Delta {
    Same,
    BackNs,
    BackHour,
    FwdNs,
    FwdDay,
    Zero,
    BackYear,
}
#[derive(Clone, Copy, Debug, PartialEq)]
enum Act {
    Commit,
    Abort,
    FailOp,
    Restart,
}

const DELTAS: &[Delta] = &[Delta::Same, Delta::BackNs, Delta::BackHour, Delta::FwdNs, Delta::FwdDay, Delta::Zero, Delta::BackYear];
const ACTS: &[Act] = &[Act::Commit, Act::Abort, Act::FailOp, Act::Restart];

fn cid_of(d: &srv::Dump) -> Option<(u64, u32, String)> {
    let e = d.entries.get(&CANARY)?;
    let c = srv::dump_attrs(e)?.get("last_modified_cid")?.get("CI")?.as_array()?.first()?;
    Some((c["t"]["secs"].as_u64()?, c["t"]["nanos"].as_u64()? as u32, c["s"].as_str()?.to_string()))
}

struct Sim {
    qs: Option<QueryServer>,
    path: std::path::PathBuf,
    ct: Duration,
    last: Option<(u64, u32, String)>,
    n: u64,
    trace: Vec<String>,
}

impl Sim {
    async fn step(&mut self, d: Delta, a: Act, acc: &mut Acc) {
        let prev_ct = self.ct;
        self.ct = match d {
            Delta::Same => self.ct,
            Delta::BackNs => self.ct.saturating_sub(Duration::from_nanos(1)),
            Delta::BackHour => self.ct.saturating_sub(Duration::from_secs(3600)),
            Delta::FwdNs => self.ct + Duration::from_nanos(1),
            Delta::FwdDay => self.ct + Duration::from_secs(86_400),
            Delta::Zero => Duration::ZERO,
            Delta::BackYear => self.ct.saturating_sub(Duration::from_secs(365 * 86_400)),
        };
        if self.ct == Duration::ZERO && d != Delta::Zero {
            self.ct = prev_ct;
        }
        self.n += 1;
        if self.trace.len() > 40 {
            self.trace.remove(0);
        }
        self.trace.push(format!("{d:?}/{a:?}@{}.{:09}", self.ct.as_secs(), self.ct.subsec_nanos()));
        acc.count(&format!("step.{a:?}"));
        acc.count(&format!("delta.{d:?}"));
        match a {
            Act::Restart => {
                self.qs = None;
                match srv::mk_server_at(Some(&self.path), 4, Some(256), self.ct, DOMAIN_TGT_LEVEL).await {
                    Ok(q) => self.qs = Some(q),
                    Err(e) => {
                        acc.inconclusive(&format!("restart failed: {e:?}"));
                        return;
                    }
                }
                // a restart runs its own (committed) startup transaction; observe where it left us
            }
            _ => {
                // a failed restart was already reported; the rest of this worker's history cannot run
                let Some(qs) = self.qs.as_ref() else { return };
                let mut w = match qs.write(self.ct).await {
                    Ok(w) => w,
                    Err(e) => {
                        acc.inconclusive(&format!("write txn: {e:?}"));
                        return;
                    }
                };
                let ml = ModifyList::new_list(vec![
                    Modify::Purged(Attribute::Description),
                    Modify::Present(Attribute::Description, Value::new_utf8s(&format!("step {}", self.n))),
                ]);
                let r = w.internal_modify_uuid(CANARY, &ml);
                if r.is_err() {
                    acc.inconclusive(&format!("canary modify failed: {r:?}"));
                    return;
                }
                match a {
                    Act::Commit => {
                        if let Err(e) = w.commit() {
                            acc.inconclusive(&format!("commit failed: {e:?}"));
                            return;
                        }
                    }
                    Act::Abort => {
                        drop(w);
                        return; // nothing committed, nothing to observe
                    }
                    Act::FailOp => {
                        // an operation that fails inside the transaction, then the transaction is dropped
                        let bad = ModifyList::new_list(vec![Modify::Present(Attribute::Member, Value::new_utf8s("x"))]);
                        let _ = w.internal_modify_uuid(CANARY, &bad);
                        drop(w);
                        return;
                    }
                    Act::Restart => unreachable!(),
                }
            }
        }
        // observe the change id the committed transaction stamped
        if a == Act::Restart {
            // commit one canary write right after the restart at the same clock value
            let Some(qs) = self.qs.as_ref() else { return };
            let mut w = qs.write(self.ct).await.expect("write");
            let ml = ModifyList::new_list(vec![
                Modify::Purged(Attribute::Description),
                Modify::Present(Attribute::Description, Value::new_utf8s(&format!("after restart {}", self.n))),
            ]);
            w.internal_modify_uuid(CANARY, &ml).expect("canary");
            w.commit().expect("commit");
        }
        let dump = srv::dump(self.qs.as_ref().expect("up")).await;
        let Some(now) = cid_of(&dump) else {
            acc.inconclusive("canary cid unreadable");
            return;
        };
        acc.eval();
        if let Some(prev) = &self.last {
            if now.2 != prev.2 {
                acc.violation("c07/server-id-changed", json!({"prev": format!("{prev:?}"), "now": format!("{now:?}"), "trace": self.trace}));
            }
            if (now.0, now.1) <= (prev.0, prev.1) {
                let sig = format!("c07/change-id-not-greater/after-{a:?}/clock-{d:?}");
                acc.violation(&sig, json!({"prev": format!("{prev:?}"), "now": format!("{now:?}"), "trace": self.trace}));
            }
            // non-trivial: the clock repeated or went backwards relative to the last committed cid
            let ct = (self.ct.as_secs(), self.ct.subsec_nanos());
            if ct <= (prev.0, prev.1) {
                acc.nontrivial(&format!("{:?}", &self.trace[self.trace.len().saturating_sub(4)..]));
                acc.count("commit_with_clock_not_after_last_cid");
            }
        }
        if acc.samples.len() < 4 && self.n % 97 == 3 {
            acc.sample(json!({"last_steps (clock delta/action@clock)": self.trace.iter().rev().take(6).rev().collect::<Vec<_>>(), "committed_change_id": format!("{now:?}")}));
        }
        self.last = Some(now);
    }
}

pub fn c07(args: Args) {
    let mut run = Run::new(args.clone(), "exploration",
        "per worker one file-backed server and one long history: every sequence of length <= L (quick 3, thorough 4) over 7 clock deltas {same, -1ns, -1h, +1ns, +1d, epoch 0, -1y} x 4 actions {commit, abort, failing op then drop, restart+commit} executed back to back (the property is about the whole history, so concatenation keeps every bounded sequence as a window), plus random sequences; the change id of each committed transaction is read from a canary entry; must be strictly greater than the previous committed one; server id constant; non-trivial = commit whose clock was <= the last committed change id; distinct by the last 4 steps");
    run.assume("change ids are observed through last_modified_cid of an entry modified in every transaction");
    let l = args.tier.pick(2usize, 3usize);
    let seed = args.seed;
    let workers = args.workers.min(8);
    let nrand = args.tier.pick(300u64, 4000u64);
    run.parallel(workers, |wk, n| {
        let mut acc = Acc::new();
        let rt = srv::rt();
        let scratch = Scratch::new("c07");
        rt.block_on(async {
            let path = scratch.path().join("c07.db");
            let ct = srv::T0 + Duration::from_secs(400 * 86_400);
            let qs = srv::mk_server_at(Some(&path), 4, Some(256), ct, DOMAIN_TGT_LEVEL).await.expect("server");
            {
                let mut w = qs.write(ct).await.expect("w");
                let e: Entry<EntryInit, EntryNew> = entry_init!(
                    (Attribute::Class, EntryClass::Object.to_value()),
                    (Attribute::Class, EntryClass::Group.to_value()),
                    (Attribute::Name, Value::new_iname("canary")),
                    (Attribute::Uuid, Value::Uuid(CANARY))
                );
                w.internal_create(vec![e]).expect("canary");
                w.commit().expect("commit");
            }
            let mut sim = Sim { qs: Some(qs), path, ct, last: None, n: 0, trace: Vec::new() };
            sim.step(Delta::FwdNs, Act::Commit, &mut acc).await;
            // exhaustive sequences of length <= l, split over workers by index
            let alphabet: Vec<(Delta, Act)> = DELTAS.iter().flat_map(|d| ACTS.iter().map(move |a| (*d, *a))).collect();
            let k = alphabet.len() as u64;
            let mut idx = wk as u64;
            let total: u64 = (1..=l as u32).map(|i| k.pow(i)).sum();
            while idx < total {
                // decode idx into a sequence
                let mut x = idx;
                let mut len = 1u32;
                while x >= k.pow(len) {
                    x -= k.pow(len);
                    len += 1;
                }
                for _ in 0..len {
                    let (d, a) = alphabet[(x % k) as usize];
                    x /= k;
                    // restarts are expensive: in the exhaustive part take every 3rd of them
                    if a == Act::Restart && (idx % 3 != 0) {
                        sim.step(d, Act::Commit, &mut acc).await;
                    } else {
                        sim.step(d, a, &mut acc).await;
                    }
                }
                // every window ends with an observed commit
                sim.step(Delta::Same, Act::Commit, &mut acc).await;
                idx += n as u64;
            }
            acc.count_n("exhaustive_sequences", (total + n as u64 - 1 - wk as u64) / n as u64);
            let mut rng = Rng::new(mix(seed, wk as u64, 7));
            for _ in 0..(nrand / n as u64) {
                let d = *rng.pick(DELTAS);
                let a = if rng.chance(1, 25) { Act::Restart } else { *rng.pick(&[Act::Commit, Act::Commit, Act::Abort, Act::FailOp]) };
                sim.step(d, a, &mut acc).await;
            }
            sim.qs = None;
        });
        drop(scratch);
        acc
    });
    run.extra("sequence_length_bound", json!(l));
    for k in ["step.Commit", "step.Abort", "step.FailOp", "step.Restart", "commit_with_clock_not_after_last_cid"] {
        let ok = run.acc.get(k) > 0;
        run.require(ok, &format!("{k} never happened"));
    }
    run.finish();
}
