//! C03 Indexes and name lookups always mirror the stored entries.
use crate::mon::{Finding, SchemaSnap};
use crate::sim::*;
use crate::world::*;
use kanidm_proto::internal::FsType;
use kanidmd_lib::be::{Backend, BackendConfig};
use kanidmd_lib::prelude::*;
use kvcore::srv;
use kvcore::{Acc, Args, Run};
use std::collections::{BTreeMap, BTreeSet};

type Tables = BTreeMap<String, BTreeMap<String, String>>;

/// Every idx_* table of a database file as table -> key -> canonical value text.
fn dump_idx_tables(path: &std::path::Path) -> Result<Tables, String> {
    let conn = rusqlite::Connection::open_with_flags(path, rusqlite::OpenFlags::SQLITE_OPEN_READ_ONLY).map_err(|e| e.to_string())?;
    let names: Vec<String> = {
        let mut st = conn.prepare("SELECT name FROM sqlite_master WHERE type='table' AND name LIKE 'idx\\_%' ESCAPE '\\'").map_err(|e| e.to_string())?;
        let r = st.query_map([], |r| r.get::<_, String>(0)).map_err(|e| e.to_string())?;
        r.filter_map(|x| x.ok()).collect()
    };
    let mut out = Tables::new();
    for t in names {
        if t == "idxslope_analysis" {
            continue;
        }
        let mut rows = BTreeMap::new();
        let mut st = conn.prepare(&format!("SELECT * FROM {t}")).map_err(|e| e.to_string())?;
        let mut q = st.query([]).map_err(|e| e.to_string())?;
        while let Some(r) = q.next().map_err(|e| e.to_string())? {
            let k: String = r.get(0).map_err(|e| e.to_string())?;
            let v = match r.get_ref(1).map_err(|e| e.to_string())? {
                rusqlite::types::ValueRef::Text(b) => String::from_utf8_lossy(b).to_string(),
                rusqlite::types::ValueRef::Blob(b) => {
                    // id lists: decode to the plain set of ids so that encoding form does not matter
                    match serde_json::from_slice::<idlset::v2::IDLBitRange>(b) {
                        Ok(idl) => format!("{:?}", (&idl).into_iter().collect::<Vec<u64>>()),
                        Err(_) => String::from_utf8_lossy(b).to_string(),
                    }
                }
                other => format!("{other:?}"),
            };
            rows.insert(k, v);
        }
        out.insert(t, rows);
    }
    Ok(out)
}

fn diff_tables(a: &Tables, b: &Tables) -> Vec<Finding> {
    let mut f = Vec::new();
    let names: BTreeSet<&String> = a.keys().chain(b.keys()).collect();
    for t in names {
        let empty = BTreeMap::new();
        let (x, y) = (a.get(t).unwrap_or(&empty), b.get(t).unwrap_or(&empty));
        if x == y {
            continue;
        }
        let kind = if t.starts_with("idx_eq_") || t.starts_with("idx_pres_") || t.starts_with("idx_sub_") { t.split('_').take(2).collect::<Vec<_>>().join("_") } else { t.clone() };
        let stale: Vec<&String> = x.keys().filter(|k| !y.contains_key(*k)).take(3).collect();
        let missing: Vec<&String> = y.keys().filter(|k| !x.contains_key(*k)).take(3).collect();
        let differ: Vec<&String> = x.keys().filter(|k| y.get(*k).map(|v| v != &x[*k]).unwrap_or(false)).take(3).collect();
        let what = if !stale.is_empty() { "stale-key" } else if !missing.is_empty() { "missing-key" } else { "wrong-ids" };
        f.push((format!("c03/incremental-index-differs-from-rebuilt/{kind}/{what}"), format!("table {t}: keys only in incremental {stale:?}, only in rebuilt {missing:?}, different id sets {differ:?}")));
    }
    f
}

/// lookup-vs-scan through the live server
async fn lookups(qs: &QueryServer, d: &srv::Dump) -> Vec<Finding> {
    let mut f = Vec::new();
    let mut r = qs.read().await.expect("read");
    let mut live_names: BTreeMap<String, Uuid> = BTreeMap::new();
    for (u, e) in &d.entries {
        if srv::is_live(e) {
            for n in srv::dump_strs(e, "name") {
                live_names.insert(n, *u);
            }
        }
    }
    for (u, e) in &d.entries {
        let names = srv::dump_strs(e, "name");
        if srv::is_live(e) {
            for n in &names {
                match r.name_to_uuid(n) {
                    Ok(x) if x == *u => {}
                    other => f.push(("c03/name-lookup-disagrees-with-scan".into(), format!("name {n} of live {u} resolves to {other:?}"))),
                }
            }
            // spn lookup
            if let Some(sp) = srv::dump_attrs(e).and_then(|m| m.get("spn")).and_then(|v| v.get("SP")).and_then(|v| v.as_array()).and_then(|a| a.first()).and_then(|p| p.as_array()) {
                let want = format!("{}@{}", sp[0].as_str().unwrap_or(""), sp[1].as_str().unwrap_or(""));
                match r.uuid_to_spn(*u) {
                    Ok(Some(v)) => {
                        let got = match v.clone().to_spn() { Some((a, b)) => format!("{a}@{b}"), None => format!("{v:?}") };
                        if got != want {
                            f.push(("c03/uuid2spn-disagrees-with-scan".into(), format!("{u}: lookup {got} entry {want}")));
                        }
                    }
                    other => f.push(("c03/uuid2spn-missing".into(), format!("{u}: {other:?} but entry has {want}"))),
                }
                match r.name_to_uuid(&want) {
                    Ok(x) if x == *u => {}
                    other => f.push(("c03/spn-lookup-disagrees-with-scan".into(), format!("spn {want} of {u} resolves to {other:?}"))),
                }
            }
        } else {
            // names of entries that are not live resolve to nothing (unless a live entry now owns the name)
            for n in &names {
                if live_names.contains_key(n) {
                    continue;
                }
                if let Ok(x) = r.name_to_uuid(n) {
                    f.push(("c03/name-of-dead-entry-still-resolves".into(), format!("name {n} of non-live {u} resolves to {x}")));
                }
            }
            if srv::is_tombstone(e) {
                if let Ok(Some(v)) = r.uuid_to_spn(*u) {
                    f.push(("c03/uuid2spn-of-tombstone-still-resolves".into(), format!("{u} -> {v:?}")));
                }
            }
        }
    }
    // external ids
    let mut live_ext: BTreeMap<String, Uuid> = BTreeMap::new();
    for (u, e) in &d.entries {
        if srv::is_live(e) {
            for x in srv::dump_strs(e, "sync_external_id") {
                live_ext.insert(x, *u);
            }
        }
    }
    for (u, e) in &d.entries {
        for x in srv::dump_strs(e, "sync_external_id") {
            let got = r.sync_external_id_to_uuid(&x);
            match live_ext.get(&x) {
                Some(owner) => {
                    if got.as_ref().ok().and_then(|o| *o) != Some(*owner) {
                        f.push(("c03/externalid-lookup-disagrees-with-scan".into(), format!("external id {x} of live {owner} resolves to {got:?}")));
                    }
                }
                None => {
                    if let Ok(Some(y)) = got {
                        f.push(("c03/externalid-of-dead-entry-still-resolves".into(), format!("external id {x} of non-live {u} resolves to {y}")));
                    }
                }
            }
        }
    }
    // ids that were used earlier in this history and are carried by no stored entry any more
    for i in 0..4u8 {
        let x = format!("ext{i}");
        if !d.entries.values().any(|e| srv::dump_strs(e, "sync_external_id").contains(&x)) {
            if let Ok(Some(y)) = r.sync_external_id_to_uuid(&x) {
                f.push(("c03/externalid-of-no-entry-still-resolves".into(), format!("external id {x} is on no stored entry but resolves to {y}")));
            }
        }
    }
    // single-term searches agree with the scan for a few indexed attributes
    let mut want_by: BTreeMap<(String, String), BTreeSet<Uuid>> = BTreeMap::new();
    for (u, e) in &d.entries {
        if !srv::is_live(e) {
            continue;
        }
        for a in ["name", "class", "member", "memberof", "entry_managed_by"] {
            for v in srv::dump_strs(e, a) {
                want_by.entry((a.to_string(), v)).or_default().insert(*u);
            }
        }
    }
    for ((a, v), want) in want_by.iter() {
        let pv = match a.as_str() {
            "name" => PartialValue::new_iname(v),
            "class" => PartialValue::new_iutf8(v),
            _ => match Uuid::parse_str(v) { Ok(u) => PartialValue::Refer(u), Err(_) => continue },
        };
        let filt = filter!(f_eq(Attribute::from(a.as_str()), pv));
        match r.internal_search(filt) {
            Ok(es) => {
                let got: BTreeSet<Uuid> = es.iter().map(|e| e.get_uuid()).collect();
                if &got != want {
                    let extra: Vec<_> = got.difference(want).take(3).collect();
                    let missing: Vec<_> = want.difference(&got).take(3).collect();
                    f.push((format!("c03/equality-search-disagrees-with-scan/{a}"), format!("{a}={v}: search extra {extra:?} missing {missing:?}")));
                }
            }
            Err(e) => f.push((format!("c03/equality-search-error/{a}"), format!("{a}={v}: {e:?}"))),
        }
    }
    f
}

/// copy the database at a quiescent point, rebuild every index on the copy, compare table by table
async fn rebuild_equivalence(w: &World) -> Vec<Finding> {
    let Some(path) = w.reps[0].path.clone() else { return Vec::new() };
    let copy = path.with_file_name("r0-copy.db");
    for ext in ["", "-wal", "-shm"] {
        let src = std::path::PathBuf::from(format!("{}{}", path.display(), ext));
        let dst = std::path::PathBuf::from(format!("{}{}", copy.display(), ext));
        let _ = std::fs::remove_file(&dst);
        if src.exists() {
            if let Err(e) = std::fs::copy(&src, &dst) {
                return vec![("c03/harness-copy-failed".into(), e.to_string())];
            }
        }
    }
    // the index layout in force, from the live schema
    let keys = {
        let wr = w.qs(0).write(w.ct(0)).await.expect("write");
        let k = wr.get_schema().reload_idxmeta();
        drop(wr);
        k
    };
    let before = match dump_idx_tables(&path) {
        Ok(t) => t,
        Err(e) => return vec![("c03/harness-dump-failed".into(), e)],
    };
    let res: Result<(), String> = (|| {
        let be = Backend::new(BackendConfig::new(Some(&copy), 2, FsType::Generic, Some(256)), keys, false).map_err(|e| format!("{e:?}"))?;
        let mut bw = be.write().map_err(|e| format!("{e:?}"))?;
        bw.reindex(false).map_err(|e| format!("{e:?}"))?;
        bw.commit().map_err(|e| format!("{e:?}"))?;
        Ok(())
    })();
    if let Err(e) = res {
        return vec![("c03/rebuild-on-copy-failed".into(), e)];
    }
    let after = match dump_idx_tables(&copy) {
        Ok(t) => t,
        Err(e) => return vec![("c03/harness-dump-failed".into(), e)],
    };
    for ext in ["", "-wal", "-shm"] {
        let _ = std::fs::remove_file(format!("{}{}", copy.display(), ext));
    }
    diff_tables(&before, &after)
}

pub fn c03(args: Args) {
    let mut run = Run::new(args.clone(), "exploration",
        "random histories of 20-200 writes on a file-backed replica (creates, renames, domain rename, member edits, delete, revive, purge_recycled, purge_tombstones, reindex, restarts) plus a second replica feeding conflict-producing replication; after every commit: every name/spn of a live entry resolves to that entry, names of dead entries resolve to nothing, single-term equality searches equal the scan; at the end of each history every idx_* table of the database file is compared with the same table after a full rebuild on a copy of the file; non-trivial = history with an accepted rename and one of {delete+revive, conflict, reindex}; distinct by full op list");
    run.assume("the rebuild runs the real Backend::reindex on a byte copy of the database taken while no transaction is open; id lists are decoded to plain id sets before comparison");
    let prof = Profile {
        replicas_min: 1, replicas_max: 2, file_backed: true, ops_min: 20, ops_max: args.tier.pick(70, 200), prefill: 0, long_gaps_when_replicated: false, level: kanidmd_lib::constants::DOMAIN_TGT_LEVEL, unique_names: false, home_creates: false, skewed_quarters: 0, late_joiner: false, revive_pairs: false,
        pop: Pop { persons: 4, services: 2, groups: 4, dyngroups: 0, oauths: 1, certs: 1, names: 5 },
        w: Weights { create: 30, create_pair: 2, rename: 16, domain_rename: 2, set_desc: 5, add_member: 12, rem_member: 5, set_manager: 4, delete: 10, revive: 7, purge_recycled: 3, purge_tombstones: 3,
            reindex: 3, restart: 2, ext_id: 10, advance_small: 3, advance_big: 4, repl: 8, abort: 3, ..Default::default() },
    };
    let after = |_w: &World, _rec: &LogRec, _s: &SchemaSnap, _acc: &mut Acc| Vec::new();
    let end = |_w: &World, _q: bool, _s: &[SchemaSnap], _a: &mut Acc| -> Vec<Finding> { Vec::new() };
    let nt = |w: &World| count_ops(w, "rename") > 0 && ((count_ops(w, "delete") > 0 && count_ops(w, "revive") > 0) || count_ops(w, "reindex") > 0 || w.dumps.iter().any(|d| d.entries.values().any(srv::is_conflict)));
    let hooks = Hooks { after_op: &after, at_end: &end, nontrivial: &nt, dyn_check: false, quiesce: false, verify_sig: Some("c03/server-verify") };
    let n = args.tier.pick(48, 320);
    run_histories_ext(&mut run, &args, 3, n, &prof, &hooks, Some(&Ext { after_op_async: &|w, rec| Box::pin(async move {
        if rec.op.target() != 0 { return Vec::new(); }
        lookups(w.qs(0), &w.dumps[0]).await
    }), at_end_async: &|w| Box::pin(async move { rebuild_equivalence(w).await }) }));
    for k in ["create", "rename", "delete", "revive", "purge_recycled", "reindex", "restart", "repl", "ext_id"] {
        // a purge that finds nothing old enough is still an executed purge
        let ok = run.acc.get(&format!("op.{k}.ok")) > 0 || (k.starts_with("purge") && run.acc.get(&format!("op.{k}.noop")) > 0);
        run.require(ok, &format!("operation kind {k} was never accepted"));
    }
    run.finish();
}
