//! The shared history engine: replicas with simulated clocks, a small object population with fixed
//! uuids, an operation alphabet executed through the real server API, and a log of every operation
//! with its outcome and the full dump of the touched replica afterwards.

use kanidmd_lib::entry::{Entry, EntryInit, EntryNew};
use kanidmd_lib::event::ReviveRecycledEvent;
use kanidmd_lib::prelude::*;
use kanidmd_lib::repl::proto::{ConsumerState, ReplIncrementalContext};
use kanidmd_lib::value::Value;
use kvcore::srv::{self, Dump};
use kvcore::{Rng, Scratch};
use serde::Serialize;
use serde_json::{json, Value as Json};
use std::collections::BTreeSet;
use std::sync::Arc;

pub const DAY: u64 = 86_400;

#[derive(Clone, Copy, Debug, PartialEq, Eq, Hash, PartialOrd, Ord, Serialize)]
pub enum Kind {
    Person,
    Service,
    Group,
    DynGroup,
    OAuth2,
    Cert,
}

/// Object handle: (kind, index). The uuid is a fixed function of it.
#[derive(Clone, Copy, Debug, PartialEq, Eq, Hash, PartialOrd, Ord, Serialize)]
pub struct Obj(pub Kind, pub u8);

impl Obj {
    pub fn uuid(&self) -> Uuid {
        let k: u128 = match self.0 {
            Kind::Person => 1,
            Kind::Service => 2,
            Kind::Group => 3,
            Kind::DynGroup => 4,
            Kind::OAuth2 => 5,
            Kind::Cert => 6,
        };
        Uuid::from_u128(0xaaaaaaaa_0000_4000_8000_000000000000u128 | (k << 80) | self.1 as u128)
    }
    pub fn from_uuid(u: Uuid) -> Option<Obj> {
        let v = u.as_u128();
        if v >> 96 != 0xaaaaaaaa {
            return None;
        }
        let k = (v >> 80) & 0xffff;
        let i = (v & 0xff) as u8;
        let kind = match k {
            1 => Kind::Person,
            2 => Kind::Service,
            3 => Kind::Group,
            4 => Kind::DynGroup,
            5 => Kind::OAuth2,
            6 => Kind::Cert,
            _ => return None,
        };
        Some(Obj(kind, i))
    }
    pub fn tag(&self) -> String {
        let k = match self.0 {
            Kind::Person => "p",
            Kind::Service => "s",
            Kind::Group => "g",
            Kind::DynGroup => "d",
            Kind::OAuth2 => "o",
            Kind::Cert => "c",
        };
        format!("{k}{}", self.1)
    }
    pub fn is_group(&self) -> bool {
        matches!(self.0, Kind::Group | Kind::DynGroup)
    }
}

/// uuid that never exists anywhere
pub fn ghost_uuid(i: u8) -> Uuid {
    Uuid::from_u128(0xaaaaaaaa_00ff_4000_8000_000000000000u128 | i as u128)
}

pub const UUID_SYNC_ACCT: Uuid = uuid::uuid!("aaaaaaaa-00ab-4000-8000-000000000001");
pub const UUID_RBADMIN: Uuid = uuid::uuid!("aaaaaaaa-00aa-4000-8000-000000000001");

pub const TEST_CERT: &str = r#"-----BEGIN CERTIFICATE-----
MIIDHjCCAgagAwIBAgIEG0BT9zANBgkqhkiG9w0BAQsFADAuMSwwKgYDVQQDEyNZ
dWJpY28gVTJGIFJvb3QgQ0EgU2VyaWFsIDQ1NzIwMDYzMTAgFw0xNDA4MDEwMDAw
MDBaGA8yMDUwMDkwNDAwMDAwMFowLjEsMCoGA1UEAxMjWXViaWNvIFUyRiBSb290
IENBIFNlcmlhbCA0NTcyMDA2MzEwggEiMA0GCSqGSIb3DQEBAQUAA4IBDwAwggEK
AoIBAQC/jwYuhBVlqaiYWEMsrWFisgJ+PtM91eSrpI4TK7U53mwCIawSDHy8vUmk
5N2KAj9abvT9NP5SMS1hQi3usxoYGonXQgfO6ZXyUA9a+KAkqdFnBnlyugSeCOep
8EdZFfsaRFtMjkwz5Gcz2Py4vIYvCdMHPtwaz0bVuzneueIEz6TnQjE63Rdt2zbw
nebwTG5ZybeWSwbzy+BJ34ZHcUhPAY89yJQXuE0IzMZFcEBbPNRbWECRKgjq//qT
9nmDOFVlSRCt2wiqPSzluwn+v+suQEBsUjTGMEd25tKXXTkNW21wIWbxeSyUoTXw
LvGS6xlwQSgNpk2qXYwf8iXg7VWZAgMBAAGjQjBAMB0GA1UdDgQWBBQgIvz0bNGJ
hjgpToksyKpP9xv9oDAPBgNVHRMECDAGAQH/AgEAMA4GA1UdDwEB/wQEAwIBBjAN
BgkqhkiG9w0BAQsFAAOCAQEAjvjuOMDSa+JXFCLyBKsycXtBVZsJ4Ue3LbaEsPY4
MYN/hIQ5ZM5p7EjfcnMG4CtYkNsfNHc0AhBLdq45rnT87q/6O3vUEtNMafbhU6kt
hX7Y+9XFN9NpmYxr+ekVY5xOxi8h9JDIgoMP4VB1uS0aunL1IGqrNooL9mmFnL2k
LVVee6/VR6C5+KSTCMCWppMuJIZII2v9o4dkoZ8Y7QRjQlLfYzd3qGtKbw7xaF1U
sG/5xUb/Btwb2X2g4InpiB/yt/3CpQXpiWX/K4mBvUKiGn05ZsqeY1gx4g0xLBqc
U9psmyPzK+Vsgw2jeRQ5JlKDyqE0hebfC1tvFu0CCrJFcw==
-----END CERTIFICATE-----"#;

/// dyngroup filters (proto JSON filters) the C18 profile picks from
pub const DYN_FILTERS: &[&str] = &[
    r#"{"eq":["class","person"]}"#,
    r#"{"eq":["class","service_account"]}"#,
    r#"{"eq":["description","dx"]}"#,
    r#"{"and":[{"eq":["class","account"]},{"eq":["description","dy"]}]}"#,
    r#"{"or":[{"eq":["name","n0"]},{"eq":["name","n1"]}]}"#,
    r#"{"and":[{"eq":["class","person"]},{"andnot":{"eq":["description","dx"]}}]}"#,
    r#"{"pres":"description"}"#,
    r#"{"eq":["class","group"]}"#,
];

#[derive(Clone, Debug, Serialize)]
pub enum Op {
    /// create one object; `name` indexes the shared name pool; `spn` optionally supplies a (wrong) spn
    Create { r: usize, obj: Obj, name: u8, bad_spn: bool },
    /// create two objects in ONE request
    CreatePair { r: usize, a: Obj, an: u8, b: Obj, bn: u8 },
    Rename { r: usize, obj: Obj, name: u8 },
    SetDesc { r: usize, obj: Obj, val: Option<u8> },
    AddDescMulti { r: usize, obj: Obj, val: u8 },
    AddMember { r: usize, grp: Obj, member: Uuid },
    RemMember { r: usize, grp: Obj, member: Uuid },
    SetManager { r: usize, obj: Obj, target: Option<Uuid> },
    ScopeMap { r: usize, oauth: Obj, grp: Uuid, remove: bool },
    /// map a group under one of two claim names on the OAuth2 client
    ClaimMap { r: usize, oauth: Obj, claim: u8, grp: Uuid, remove: bool },
    DynFilter { r: usize, grp: Obj, filter: u8 },
    Delete { r: usize, obj: Obj },
    /// revive `obj` (and, in the same request, `also`) from the recycle bin
    Revive { r: usize, obj: Obj, also: Option<Obj> },
    PurgeRecycled { r: usize },
    PurgeTombstones { r: usize },
    Reindex { r: usize },
    DomainRename { r: usize, name: u8 },
    /// purge the spn attribute / set a wrong one on an existing entry
    SpnTamper { r: usize, obj: Obj, purge: bool },
    /// run a write that is then dropped without commit
    Abort { r: usize, obj: Obj },
    /// schema: add a custom attribute (idx) / a custom class allowing it
    SchemaAttr { r: usize, idx: u8, multi: bool },
    SchemaClass { r: usize, idx: u8 },
    /// deliberately ill-formed requests (must be rejected)
    IllFormed { r: usize, obj: Obj, kind: u8 },
    /// use a custom attribute / class on an object
    CustomSet { r: usize, obj: Obj, idx: u8, with_class: bool },
    ClassRemove { r: usize, obj: Obj, idx: u8 },
    /// make the object a synchronised object with this external id (None: clear the external id)
    ExtId { r: usize, obj: Obj, val: Option<u8> },
    Advance { r: usize, secs: u64, nanos: u32 },
    Repl { from: usize, to: usize },
    Refresh { from: usize, to: usize },
    Restart { r: usize },
}

impl Op {
    pub fn kind(&self) -> &'static str {
        match self {
            Op::Create { .. } => "create",
            Op::CreatePair { .. } => "create_pair",
            Op::Rename { .. } => "rename",
            Op::SetDesc { .. } => "set_desc",
            Op::AddDescMulti { .. } => "add_desc_multi",
            Op::AddMember { .. } => "add_member",
            Op::RemMember { .. } => "rem_member",
            Op::SetManager { .. } => "set_manager",
            Op::ScopeMap { .. } => "scope_map",
            Op::ClaimMap { .. } => "claim_map",
            Op::DynFilter { .. } => "dyn_filter",
            Op::Delete { .. } => "delete",
            Op::Revive { .. } => "revive",
            Op::PurgeRecycled { .. } => "purge_recycled",
            Op::PurgeTombstones { .. } => "purge_tombstones",
            Op::Reindex { .. } => "reindex",
            Op::DomainRename { .. } => "domain_rename",
            Op::SpnTamper { .. } => "spn_tamper",
            Op::Abort { .. } => "abort",
            Op::SchemaAttr { .. } => "schema_attr",
            Op::SchemaClass { .. } => "schema_class",
            Op::IllFormed { .. } => "ill_formed",
            Op::CustomSet { .. } => "custom_set",
            Op::ClassRemove { .. } => "class_remove",
            Op::ExtId { .. } => "ext_id",
            Op::Advance { .. } => "advance",
            Op::Repl { .. } => "repl",
            Op::Refresh { .. } => "refresh",
            Op::Restart { .. } => "restart",
        }
    }
    /// replica whose state the op may change
    pub fn target(&self) -> usize {
        match self {
            Op::Create { r, .. }
            | Op::CreatePair { r, .. }
            | Op::Rename { r, .. }
            | Op::SetDesc { r, .. }
            | Op::AddDescMulti { r, .. }
            | Op::AddMember { r, .. }
            | Op::RemMember { r, .. }
            | Op::SetManager { r, .. }
            | Op::ScopeMap { r, .. }
            | Op::ClaimMap { r, .. }
            | Op::DynFilter { r, .. }
            | Op::Delete { r, .. }
            | Op::Revive { r, .. }
            | Op::PurgeRecycled { r }
            | Op::PurgeTombstones { r }
            | Op::Reindex { r }
            | Op::DomainRename { r, .. }
            | Op::SpnTamper { r, .. }
            | Op::Abort { r, .. }
            | Op::SchemaAttr { r, .. }
            | Op::SchemaClass { r, .. }
            | Op::IllFormed { r, .. }
            | Op::CustomSet { r, .. }
            | Op::ClassRemove { r, .. }
            | Op::ExtId { r, .. }
            | Op::Advance { r, .. }
            | Op::Restart { r } => *r,
            Op::Repl { to, .. } | Op::Refresh { to, .. } => *to,
        }
    }
}

#[derive(Clone, Debug, Serialize)]
pub struct LogRec {
    pub seq: usize,
    pub op: Op,
    /// simulated time of the replica when the op ran (seconds.nanos since epoch)
    pub ct: (u64, u32),
    pub ok: bool,
    /// did the stored state of the touched replica change
    pub changed: bool,
    pub detail: String,
}

pub struct Replica {
    pub qs: Option<QueryServer>,
    /// this replica's wall clock = world.now + skew (clock skew between replicas is small and
    /// constant; simulated time itself passes for all replicas together)
    pub skew: Duration,
    pub path: Option<std::path::PathBuf>,
    pub arcsize: Option<usize>,
}

pub struct World {
    /// global simulated time
    pub now: Duration,
    pub reps: Vec<Replica>,
    pub log: Vec<LogRec>,
    /// latest dump per replica, and the one before the last op on that replica
    pub dumps: Vec<Dump>,
    pub prev: Vec<Dump>,
    pub domain: Vec<String>,
    /// objects for which a create was ever accepted on some replica
    pub level: u32,
    /// names are a function of the object (no two objects ever ask for the same name)
    pub unique_names: bool,
    /// replicas run with different clock offsets
    pub skewed: bool,
    pub created: BTreeSet<Obj>,
    /// per replica: uuids this replica has held as recycled/tombstone since it was last refreshed
    pub dead: Vec<BTreeSet<Uuid>>,
    /// findings of the built-in 'never live again' monitor for the last op
    pub resurrected: Vec<(Uuid, &'static str)>,
    _scratch: Option<Scratch>,
}

pub const NAMES: &[&str] = &["n0", "n1", "n2", "n3", "n4", "n5"];
pub const DOMAINS: &[&str] = &["example.com", "dom-a.example", "dom-b.example"];
pub const DESCS: &[&str] = &["dx", "dy", "dz"];

pub fn custom_attr(idx: u8) -> String {
    format!("x_verif_attr{idx}")
}
pub fn custom_class(idx: u8) -> String {
    format!("x_verif_class{idx}")
}

fn person(u: Uuid, name: &str) -> Entry<EntryInit, EntryNew> {
    entry_init!(
        (Attribute::Class, EntryClass::Object.to_value()),
        (Attribute::Class, EntryClass::Account.to_value()),
        (Attribute::Class, EntryClass::Person.to_value()),
        (Attribute::Name, Value::new_iname(name)),
        (Attribute::Uuid, Value::Uuid(u)),
        (Attribute::DisplayName, Value::new_utf8s(name))
    )
}

fn build_entry(obj: Obj, name: &str) -> Entry<EntryInit, EntryNew> {
    let u = obj.uuid();
    match obj.0 {
        Kind::Person => person(u, name),
        Kind::Service => entry_init!(
            (Attribute::Class, EntryClass::Object.to_value()),
            (Attribute::Class, EntryClass::Account.to_value()),
            (Attribute::Class, EntryClass::ServiceAccount.to_value()),
            (Attribute::Name, Value::new_iname(name)),
            (Attribute::Uuid, Value::Uuid(u)),
            (Attribute::DisplayName, Value::new_utf8s(name))
        ),
        Kind::Group => entry_init!(
            (Attribute::Class, EntryClass::Object.to_value()),
            (Attribute::Class, EntryClass::Group.to_value()),
            (Attribute::Name, Value::new_iname(name)),
            (Attribute::Uuid, Value::Uuid(u))
        ),
        Kind::DynGroup => entry_init!(
            (Attribute::Class, EntryClass::Object.to_value()),
            (Attribute::Class, EntryClass::Group.to_value()),
            (Attribute::Class, EntryClass::DynGroup.to_value()),
            (Attribute::Name, Value::new_iname(name)),
            (Attribute::Uuid, Value::Uuid(u)),
            (
                Attribute::DynGroupFilter,
                Value::new_json_filter_s(DYN_FILTERS[(obj.1 as usize) % DYN_FILTERS.len()])
                    .expect("filter")
            )
        ),
        Kind::OAuth2 => entry_init!(
            (Attribute::Class, EntryClass::Object.to_value()),
            (Attribute::Class, EntryClass::Account.to_value()),
            (Attribute::Class, EntryClass::OAuth2ResourceServer.to_value()),
            (Attribute::Class, EntryClass::OAuth2ResourceServerBasic.to_value()),
            (Attribute::Name, Value::new_iname(name)),
            (Attribute::Uuid, Value::Uuid(u)),
            (Attribute::DisplayName, Value::new_utf8s(name)),
            (
                Attribute::OAuth2RsOriginLanding,
                Value::new_url_s("https://demo.example.com").expect("url")
            )
        ),
        Kind::Cert => entry_init!(
            (Attribute::Class, EntryClass::Object.to_value()),
            (Attribute::Class, EntryClass::ClientCertificate.to_value()),
            (Attribute::Uuid, Value::Uuid(u)),
            // the cert refers to the person with the same index
            (Attribute::Refers, Value::Refer(Obj(Kind::Person, obj.1).uuid())),
            (
                Attribute::Certificate,
                Value::new_certificate_s(TEST_CERT).expect("cert")
            )
        ),
    }
}

#[derive(Clone, Debug, PartialEq)]
pub enum Quiesce {
    Reached(usize),
    /// a consumer failed to apply what a supplier sent: replication is wedged
    ApplyError(String),
    /// some supplier refuses to supply (diverged / lagging beyond the window)
    Unwilling,
    NotReached,
}

pub struct WorldCfg {
    pub replicas: usize,
    /// domain level the servers are initialised at
    pub level: u32,
    pub unique_names: bool,
    pub skew: bool,
    /// replica 0 file backed (pool 4) with this arc size
    pub file_backed: Option<Option<usize>>,
}

fn ts(d: Duration) -> (u64, u32) {
    (d.as_secs(), d.subsec_nanos())
}

impl World {
    pub async fn new(cfg: &WorldCfg, rng: &mut Rng) -> World {
        let mut reps = Vec::new();
        let scratch = cfg.file_backed.map(|_| Scratch::new("dirsim"));
        for i in 0..cfg.replicas {
            let (path, arcsize) = match (&scratch, cfg.file_backed, i) {
                (Some(s), Some(arc), 0) => (Some(s.path().join("r0.db")), arc),
                _ => (None, Some(2048)),
            };
            let qs = srv::mk_server_at(path.as_deref(), 4, arcsize, srv::T0, cfg.level).await.expect("server init");
            // skewed clocks: up to 3 s apart, sometimes exactly equal (lamport ties)
            let skew = if !cfg.skew || std::env::var("VERIF_NOSKEW").is_ok() { Duration::ZERO } else { Duration::from_millis(rng.below(3000)) + Duration::from_nanos(rng.below(3)) };
            reps.push(Replica { qs: Some(qs), skew, path, arcsize });
        }
        let mut w = World {
            now: srv::T0 + Duration::from_secs(100),
            dumps: Vec::new(),
            prev: Vec::new(),
            domain: vec!["example.com".to_string(); cfg.replicas],
            level: cfg.level,
            unique_names: cfg.unique_names,
            skewed: cfg.skew,
            created: BTreeSet::new(),
            dead: vec![BTreeSet::new(); cfg.replicas],
            resurrected: Vec::new(),
            reps,
            log: Vec::new(),
            _scratch: scratch,
        };
        // the recycle-bin admin used for revive
        {
            let ct0 = w.ct(0);
            let r = &mut w.reps[0];
            let mut wr = r.qs.as_ref().expect("qs").write(ct0).await.expect("write");
            let mut e = person(UUID_RBADMIN, "rbadmin");
            e.add_ava(Attribute::Description, Value::new_utf8s("harness recycle bin admin"));
            wr.internal_create(vec![e]).expect("rbadmin");
            let sa = entry_init!(
                (Attribute::Class, EntryClass::Object.to_value()),
                (Attribute::Class, EntryClass::SyncAccount.to_value()),
                (Attribute::Name, Value::new_iname("harness_sync")),
                (Attribute::Uuid, Value::Uuid(UUID_SYNC_ACCT)),
                (Attribute::Description, Value::new_utf8s("harness sync agreement"))
            );
            wr.internal_create(vec![sa]).expect("sync account");
            wr.internal_modify_uuid(
                UUID_IDM_RECYCLE_BIN_ADMINS,
                &ModifyList::new_list(vec![Modify::Present(Attribute::Member, Value::Refer(UUID_RBADMIN))]),
            )
            .expect("rbadmin group");
            wr.commit().expect("commit");
            w.now += Duration::from_secs(1);
        }
        // join the others by refresh from replica 0
        for i in 1..cfg.replicas {
            w.refresh(0, i).await.expect("initial refresh");
        }
        for i in 0..cfg.replicas {
            let d = srv::dump(w.qs(i)).await;
            w.dumps.push(d.clone());
            w.prev.push(d);
        }
        w
    }

    pub fn qs(&self, r: usize) -> &QueryServer {
        self.reps[r].qs.as_ref().expect("server is up")
    }

    pub fn n(&self) -> usize {
        self.reps.len()
    }

    pub fn name_of(&self, obj: Obj, idx: u8) -> String {
        if self.unique_names {
            format!("{}{}", obj.tag(), ["a", "b"][idx as usize % 2])
        } else {
            NAMES[idx as usize % NAMES.len()].to_string()
        }
    }

    /// the wall clock of replica r
    pub fn ct(&self, r: usize) -> Duration {
        self.now + self.reps[r].skew
    }

    async fn refresh(&mut self, from: usize, to: usize) -> Result<String, String> {
        let ct = self.ct(to);
        let ctx = {
            let mut rd = self.qs(from).read().await.map_err(|e| format!("{e:?}"))?;
            rd.supplier_provide_refresh().map_err(|e| format!("{e:?}"))?
        };
        let mut wr = self.qs(to).write(ct).await.map_err(|e| format!("{e:?}"))?;
        wr.consumer_apply_refresh(ctx).map_err(|e| format!("{e:?}"))?;
        wr.commit().map_err(|e| format!("{e:?}"))?;
        self.domain[to] = self.domain[from].clone();
        Ok("refreshed".into())
    }

    /// incremental replication; returns a description of what the supplier answered
    async fn repl(&mut self, from: usize, to: usize) -> Result<String, String> {
        let ct = self.ct(to);
        let state = {
            let mut rd = self.qs(to).read().await.map_err(|e| format!("{e:?}"))?;
            rd.consumer_get_state().map_err(|e| format!("{e:?}"))?
        };
        let changes = {
            let mut rd = self.qs(from).read().await.map_err(|e| format!("{e:?}"))?;
            rd.supplier_provide_changes(state).map_err(|e| format!("{e:?}"))?
        };
        let kind = match &changes {
            ReplIncrementalContext::DomainMismatch => "domain_mismatch",
            ReplIncrementalContext::NoChangesAvailable => "no_changes",
            ReplIncrementalContext::RefreshRequired => "refresh_required",
            ReplIncrementalContext::UnwillingToSupply => "unwilling",
            ReplIncrementalContext::V1 { .. } => "v1",
        };
        let sent = match &changes {
            ReplIncrementalContext::V1 { entries, schema_entries, meta_entries, .. } => format!(
                " sent={}+{}+{} [{}]",
                schema_entries.len(),
                meta_entries.len(),
                entries.len(),
                serde_json::to_value(entries)
                    .ok()
                    .and_then(|v| v.as_array().map(|a| a.iter().map(|e| format!("{}:{}", e["uuid"].as_str().unwrap_or("?").chars().skip(9).take(4).chain(e["uuid"].as_str().unwrap_or("?").chars().rev().take(2)).collect::<String>(), e.to_string().len())).collect::<Vec<_>>().join(",")))
                    .unwrap_or_default()
            ),
            _ => String::new(),
        };
        let mut wr = self.qs(to).write(ct).await.map_err(|e| format!("{e:?}"))?;
        let st = wr.consumer_apply_changes(changes).map_err(|e| format!("apply: {e:?}"))?;
        wr.commit().map_err(|e| format!("commit: {e:?}"))?;
        if kind == "v1" {
            if let Some(d) = self.domain.get(from).cloned() {
                // domain name travels with the domain entry; recomputed by monitors from dumps
                let _ = d;
            }
        }
        Ok(match st {
            ConsumerState::Ok => format!("{kind}{sent}"),
            ConsumerState::RefreshRequired => format!("{kind}/consumer_refresh_required"),
        })
    }

    /// Execute one op, log it, refresh the dump of the touched replica.
    pub async fn apply(&mut self, op: Op) -> LogRec {
        let seq = self.log.len();
        let r = op.target();
        let ct = self.ct(r);
        let res: Result<String, String> = match &op {
            Op::Advance { secs, nanos, .. } => {
                self.now += Duration::new(*secs, *nanos);
                Ok("time".into())
            }
            Op::Repl { from, to } => {
                // a consumer that is told to refresh does so from that supplier, as a deployment
                // with automatic refresh would
                match self.repl(*from, *to).await {
                    Ok(s) if s.contains("refresh_required") => match self.refresh(*from, *to).await {
                        Ok(_) => Ok(format!("{s}/auto_refreshed")),
                        Err(e) => Err(format!("{s}/auto refresh failed: {e}")),
                    },
                    other => other,
                }
            }
            Op::Refresh { from, to } => self.refresh(*from, *to).await,
            Op::Restart { r } => self.restart(*r).await,
            _ => self.apply_write(&op).await,
        };
        // every write consumes at least a little simulated time on that replica
        if !matches!(op, Op::Advance { .. }) {
            self.now += Duration::from_nanos(1);
        }
        let (ok, detail) = match res {
            Ok(s) => (true, s),
            Err(s) => (false, s),
        };
        let d = srv::dump(self.qs(r)).await;
        self.prev[r] = std::mem::replace(&mut self.dumps[r], d);
        let changed = self.prev[r] != self.dumps[r];
        // deletion memory of this replica
        self.resurrected.clear();
        let refreshed = matches!(op, Op::Refresh { .. }) || detail.contains("auto_refreshed");
        if refreshed {
            self.dead[r].clear();
        } else if !matches!(op, Op::Revive { .. }) {
            for u in self.dead[r].iter() {
                if self.dumps[r].entries.get(u).map(srv::is_live).unwrap_or(false) {
                    let was = match self.prev[r].entries.get(u) {
                        None => "reaped",
                        Some(e) if srv::is_tombstone(e) => "tombstone",
                        Some(_) => "recycled",
                    };
                    self.resurrected.push((*u, was));
                }
            }
        }
        let newly: Vec<Uuid> = self.dumps[r].entries.iter().filter(|(_, e)| (srv::is_recycled(e) || srv::is_tombstone(e)) && !srv::is_conflict(e)).map(|(u, _)| *u).collect();
        self.dead[r].extend(newly);
        if let Op::Revive { .. } = &op {
            // a revive is the one legitimate way back: whatever it made live is no longer dead
            if ok {
                let d = &self.dumps[r];
                self.dead[r].retain(|u| !d.entries.get(u).map(srv::is_live).unwrap_or(false));
            }
        }
        if ok && changed {
            match &op {
                Op::Create { obj, .. } => {
                    self.created.insert(*obj);
                }
                Op::CreatePair { a, b, .. } => {
                    self.created.insert(*a);
                    self.created.insert(*b);
                }
                _ => {}
            }
        }
        let rec = LogRec { seq, op, ct: ts(ct), ok, changed, detail };
        self.log.push(rec.clone());
        rec
    }

    async fn restart(&mut self, r: usize) -> Result<String, String> {
        let Some(path) = self.reps[r].path.clone() else {
            return Err("not file backed".into());
        };
        let arc = self.reps[r].arcsize;
        self.reps[r].qs = None; // drop every handle
        let qs = srv::mk_server_at(Some(&path), 4, arc, self.ct(r), self.level)
            .await
            .map_err(|e| format!("restart failed: {e:?}"))?;
        self.reps[r].qs = Some(qs);
        Ok("restarted".into())
    }

    async fn apply_write(&mut self, op: &Op) -> Result<String, String> {
        let r = op.target();
        let ct = self.ct(r);
        let qs = self.reps[r].qs.as_ref().expect("up");
        let mut wr = qs.write(ct).await.map_err(|e| format!("{e:?}"))?;
        let e2s = |e: OperationError| format!("{e:?}");
        let mut note = String::from("ok");
        match op {
            Op::Create { obj, name, bad_spn, .. } => {
                let mut e = build_entry(*obj, &self.name_of(*obj, *name));
                if *bad_spn {
                    e.add_ava(Attribute::Spn, Value::new_spn_str("wrong", "not-the-domain.example"));
                }
                wr.internal_create(vec![e]).map_err(e2s)?;
            }
            Op::CreatePair { a, an, b, bn, .. } => {
                let ea = build_entry(*a, &self.name_of(*a, *an));
                let eb = build_entry(*b, &self.name_of(*b, *bn));
                wr.internal_create(vec![ea, eb]).map_err(e2s)?;
            }
            Op::Rename { obj, name, .. } => {
                let ml = ModifyList::new_list(vec![
                    Modify::Purged(Attribute::Name),
                    Modify::Present(Attribute::Name, Value::new_iname(&self.name_of(*obj, *name))),
                ]);
                wr.internal_modify_uuid(obj.uuid(), &ml).map_err(e2s)?;
            }
            Op::SetDesc { obj, val, .. } => {
                let mut v = vec![Modify::Purged(Attribute::Description)];
                if let Some(i) = val {
                    v.push(Modify::Present(
                        Attribute::Description,
                        Value::new_utf8s(DESCS[*i as usize % DESCS.len()]),
                    ));
                }
                wr.internal_modify_uuid(obj.uuid(), &ModifyList::new_list(v)).map_err(e2s)?;
            }
            Op::AddDescMulti { obj, val, .. } => {
                // description is single valued: a second Present must be rejected by schema
                let v = vec![Modify::Present(
                    Attribute::Description,
                    Value::new_utf8s(DESCS[*val as usize % DESCS.len()]),
                )];
                wr.internal_modify_uuid(obj.uuid(), &ModifyList::new_list(v)).map_err(e2s)?;
            }
            Op::AddMember { grp, member, .. } => {
                let ml = ModifyList::new_list(vec![Modify::Present(Attribute::Member, Value::Refer(*member))]);
                wr.internal_modify_uuid(grp.uuid(), &ml).map_err(e2s)?;
            }
            Op::RemMember { grp, member, .. } => {
                let ml = ModifyList::new_list(vec![Modify::Removed(Attribute::Member, PartialValue::Refer(*member))]);
                wr.internal_modify_uuid(grp.uuid(), &ml).map_err(e2s)?;
            }
            Op::SetManager { obj, target, .. } => {
                let mut v = vec![Modify::Purged(Attribute::EntryManagedBy)];
                if let Some(t) = target {
                    v.push(Modify::Present(Attribute::EntryManagedBy, Value::Refer(*t)));
                }
                wr.internal_modify_uuid(obj.uuid(), &ModifyList::new_list(v)).map_err(e2s)?;
            }
            Op::ScopeMap { oauth, grp, remove, .. } => {
                let m = if *remove {
                    Modify::Removed(Attribute::OAuth2RsScopeMap, PartialValue::Refer(*grp))
                } else {
                    Modify::Present(
                        Attribute::OAuth2RsScopeMap,
                        Value::new_oauthscopemap(*grp, ["openid".to_string()].into_iter().collect())
                            .ok_or_else(|| "scopemap".to_string())?,
                    )
                };
                wr.internal_modify_uuid(oauth.uuid(), &ModifyList::new_list(vec![m])).map_err(e2s)?;
            }
            Op::ClaimMap { oauth, claim, grp, remove, .. } => {
                // claim 0 / 1: one claim name; 2: the same group under both claim names
                let names: Vec<String> = match *claim % 3 {
                    0 => vec!["claim_a".to_string()],
                    1 => vec!["claim_b".to_string()],
                    _ => vec!["claim_a".to_string(), "claim_b".to_string()],
                };
                let mut ms = Vec::new();
                for name in names {
                    ms.push(if *remove {
                        Modify::Removed(Attribute::OAuth2RsClaimMap, PartialValue::OauthClaim(name, *grp))
                    } else {
                        Modify::Present(
                            Attribute::OAuth2RsClaimMap,
                            Value::new_oauthclaimmap(name, *grp, ["value_x".to_string()].into_iter().collect()).ok_or_else(|| "claimmap".to_string())?,
                        )
                    });
                }
                wr.internal_modify_uuid(oauth.uuid(), &ModifyList::new_list(ms)).map_err(e2s)?;
            }
            Op::DynFilter { grp, filter, .. } => {
                let ml = ModifyList::new_list(vec![
                    Modify::Purged(Attribute::DynGroupFilter),
                    Modify::Present(
                        Attribute::DynGroupFilter,
                        Value::new_json_filter_s(DYN_FILTERS[*filter as usize % DYN_FILTERS.len()])
                            .ok_or_else(|| "filter".to_string())?,
                    ),
                ]);
                wr.internal_modify_uuid(grp.uuid(), &ml).map_err(e2s)?;
            }
            Op::Delete { obj, .. } => {
                wr.internal_delete_uuid(obj.uuid()).map_err(e2s)?;
            }
            Op::Revive { obj, also, .. } => {
                let admin = wr.internal_search_uuid(UUID_RBADMIN).map_err(|e| format!("no rbadmin: {e:?}"))?;
                let ident = Identity::from_impersonate_entry_readwrite(admin);
                let mut terms = vec![f_eq(Attribute::Uuid, PartialValue::Uuid(obj.uuid()))];
                if let Some(o2) = also {
                    terms.push(f_eq(Attribute::Uuid, PartialValue::Uuid(o2.uuid())));
                }
                let filter = filter_all!(f_or(terms))
                    .validate(wr.get_schema())
                    .map_err(|e| format!("{e:?}"))?;
                let re = ReviveRecycledEvent { ident, filter };
                wr.revive_recycled(&re).map_err(e2s)?;
            }
            Op::PurgeRecycled { .. } => {
                let n = wr.purge_recycled().map_err(e2s)?;
                note = format!("purged {n}");
            }
            Op::PurgeTombstones { .. } => {
                let n = wr.purge_tombstones().map_err(e2s)?;
                note = format!("reaped {n}");
            }
            Op::Reindex { .. } => {
                wr.reindex(false).map_err(e2s)?;
            }
            Op::DomainRename { name, .. } => {
                wr.danger_domain_rename(DOMAINS[*name as usize % DOMAINS.len()]).map_err(e2s)?;
            }
            Op::SpnTamper { obj, purge, .. } => {
                let ml = if *purge {
                    ModifyList::new_list(vec![Modify::Purged(Attribute::Spn)])
                } else {
                    ModifyList::new_list(vec![
                        Modify::Purged(Attribute::Spn),
                        Modify::Present(Attribute::Spn, Value::new_spn_str("tampered", "elsewhere.example")),
                    ])
                };
                wr.internal_modify_uuid(obj.uuid(), &ml).map_err(e2s)?;
            }
            Op::Abort { obj, .. } => {
                // a successful modification that is never committed
                let ml = ModifyList::new_list(vec![
                    Modify::Purged(Attribute::Description),
                    Modify::Present(Attribute::Description, Value::new_utf8s("never committed")),
                ]);
                let r = wr.internal_modify_uuid(obj.uuid(), &ml);
                drop(wr);
                return Err(format!("aborted after {:?}", r.map(|_| "ok")));
            }
            Op::SchemaAttr { idx, multi, .. } => {
                let e = entry_init!(
                    (Attribute::Class, EntryClass::Object.to_value()),
                    (Attribute::Class, EntryClass::AttributeType.to_value()),
                    (Attribute::Uuid, Value::Uuid(Uuid::from_u128(0xaaaaaaaa_00cc_4000_8000_000000000000u128 | *idx as u128))),
                    (Attribute::AttributeName, Value::new_iutf8(&custom_attr(*idx))),
                    (Attribute::Description, Value::new_utf8s("verif custom attribute")),
                    (Attribute::MultiValue, Value::new_bool(*multi)),
                    (Attribute::Unique, Value::new_bool(false)),
                    (Attribute::Syntax, Value::new_syntaxs("UTF8STRING").expect("syntax"))
                );
                wr.internal_create(vec![e]).map_err(e2s)?;
            }
            Op::SchemaClass { idx, .. } => {
                let e = entry_init!(
                    (Attribute::Class, EntryClass::Object.to_value()),
                    (Attribute::Class, EntryClass::ClassType.to_value()),
                    (Attribute::Uuid, Value::Uuid(Uuid::from_u128(0xaaaaaaaa_00cd_4000_8000_000000000000u128 | *idx as u128))),
                    (Attribute::ClassName, Value::new_iutf8(&custom_class(*idx))),
                    (Attribute::Description, Value::new_utf8s("verif custom class")),
                    // class 0 allows its attribute, every other class requires it
                    (if *idx == 0 { Attribute::May } else { Attribute::Must }, Value::new_iutf8(&custom_attr(*idx)))
                );
                wr.internal_create(vec![e]).map_err(e2s)?;
            }
            Op::CustomSet { obj, idx, with_class, .. } => {
                let mut v = Vec::new();
                if *with_class {
                    v.push(Modify::Present(Attribute::Class, Value::new_iutf8(&custom_class(*idx))));
                }
                v.push(Modify::Present(
                    Attribute::from(custom_attr(*idx).as_str()),
                    Value::new_utf8s("custom value"),
                ));
                wr.internal_modify_uuid(obj.uuid(), &ModifyList::new_list(v)).map_err(e2s)?;
            }
            Op::ClassRemove { obj, idx, .. } => {
                let v = vec![Modify::Removed(
                    Attribute::Class,
                    PartialValue::new_iutf8(&custom_class(*idx)),
                )];
                wr.internal_modify_uuid(obj.uuid(), &ModifyList::new_list(v)).map_err(e2s)?;
            }
            Op::ExtId { obj, val, .. } => {
                let mut v = vec![
                    Modify::Present(Attribute::Class, EntryClass::SyncObject.to_value()),
                    Modify::Purged(Attribute::SyncParentUuid),
                    Modify::Present(Attribute::SyncParentUuid, Value::Refer(UUID_SYNC_ACCT)),
                    Modify::Purged(Attribute::SyncExternalId),
                ];
                if let Some(i) = val {
                    v.push(Modify::Present(Attribute::SyncExternalId, Value::new_iutf8(&format!("ext{i}"))));
                }
                wr.internal_modify_uuid(obj.uuid(), &ModifyList::new_list(v)).map_err(e2s)?;
            }
            Op::IllFormed { obj, kind, .. } => {
                let u = obj.uuid();
                match kind % 8 {
                    0 => {
                        // create without a required attribute (person without displayname/name)
                        let e = entry_init!(
                            (Attribute::Class, EntryClass::Object.to_value()),
                            (Attribute::Class, EntryClass::Account.to_value()),
                            (Attribute::Class, EntryClass::Person.to_value()),
                            (Attribute::Uuid, Value::Uuid(u))
                        );
                        wr.internal_create(vec![e]).map_err(e2s)?;
                    }
                    1 => {
                        // unknown class
                        let e = entry_init!(
                            (Attribute::Class, EntryClass::Object.to_value()),
                            (Attribute::Class, Value::new_iutf8("no_such_class_xyz")),
                            (Attribute::Uuid, Value::Uuid(u))
                        );
                        wr.internal_create(vec![e]).map_err(e2s)?;
                    }
                    2 => {
                        // wrong syntax: a utf8 value in a reference attribute
                        let ml = ModifyList::new_list(vec![Modify::Present(
                            Attribute::Member,
                            Value::new_utf8s("not a reference"),
                        )]);
                        wr.internal_modify_uuid(u, &ml).map_err(e2s)?;
                    }
                    3 => {
                        // attribute not allowed by any class of the entry
                        let ml = ModifyList::new_list(vec![Modify::Present(
                            Attribute::OAuth2RsOriginLanding,
                            Value::new_url_s("https://x.example").expect("url"),
                        )]);
                        wr.internal_modify_uuid(u, &ml).map_err(e2s)?;
                    }
                    4 => {
                        // remove a required attribute
                        let ml = ModifyList::new_list(vec![Modify::Purged(Attribute::Name)]);
                        wr.internal_modify_uuid(u, &ml).map_err(e2s)?;
                    }
                    6 => {
                        // take an administrator-defined class without the attribute it requires
                        let ml = ModifyList::new_list(vec![Modify::Present(Attribute::Class, Value::new_iutf8(&custom_class(1)))]);
                        wr.internal_modify_uuid(u, &ml).map_err(e2s)?;
                    }
                    7 => {
                        // drop the attribute an administrator-defined class requires
                        let ml = ModifyList::new_list(vec![Modify::Purged(Attribute::from(custom_attr(1).as_str()))]);
                        wr.internal_modify_uuid(u, &ml).map_err(e2s)?;
                    }
                    _ => {
                        // remove the class that allows present attributes
                        let ml = ModifyList::new_list(vec![Modify::Removed(
                            Attribute::Class,
                            EntryClass::Account.into(),
                        )]);
                        wr.internal_modify_uuid(u, &ml).map_err(e2s)?;
                    }
                }
            }
            Op::Advance { .. } | Op::Repl { .. } | Op::Refresh { .. } | Op::Restart { .. } => unreachable!(),
        }
        wr.commit().map_err(|e| format!("commit: {e:?}"))?;
        if let Op::DomainRename { name, r } = op {
            self.domain[*r] = DOMAINS[*name as usize % DOMAINS.len()].to_string();
        }
        Ok(note)
    }

    /// full mesh of incremental replications until every supplier answers "no changes".
    pub async fn quiesce(&mut self, max_rounds: usize) -> Quiesce {
        let n = self.n();
        for round in 0..max_rounds {
            let mut quiet = true;
            let mut unwilling = false;
            for to in 0..n {
                for from in 0..n {
                    if from == to {
                        continue;
                    }
                    let rec = self.apply(Op::Repl { from, to }).await;
                    if !rec.ok {
                        return Quiesce::ApplyError(rec.detail.clone());
                    } else if rec.detail.starts_with("unwilling") {
                        unwilling = true;
                        quiet = false;
                    } else if !rec.detail.starts_with("no_changes") {
                        quiet = false;
                    }
                }
            }
            if quiet {
                return Quiesce::Reached(round + 1);
            }
            if unwilling && round >= 3 {
                return Quiesce::Unwilling;
            }
        }
        Quiesce::NotReached
    }

    pub fn history_json(&self, last: usize) -> Json {
        let start = self.log.len().saturating_sub(last);
        json!(self.log[start..]
            .iter()
            .map(|l| json!({"seq": l.seq, "op": format!("{:?}", l.op), "ct": format!("{}.{:09}", l.ct.0, l.ct.1), "ok": l.ok, "detail": l.detail}))
            .collect::<Vec<_>>())
    }

    /// uuids of harness objects by state in a dump
    pub fn live_uuids(d: &Dump) -> BTreeSet<Uuid> {
        d.entries.iter().filter(|(_, e)| srv::is_live(e)).map(|(u, _)| *u).collect()
    }
}

pub fn arc_entry(_e: Arc<kanidmd_lib::entry::EntrySealedCommitted>) {}
