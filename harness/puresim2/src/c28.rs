//! C28 Failed credentials are rate limited.
//!
//! Real code: `CredSoftLock` through the hook `kanidmd_lib::verif::SoftLock` (new, apply_time_step,
//! is_valid, record_failure), used with the protocol of the server paths: "apply the time, ask
//! is_valid, and only if valid try the credential and record a failure".
//!
//! The monitor below is *not* the lock's state machine. It keeps only what the statement talks about:
//!   * `n_min`   - failures recorded since the last moment a reset of the count was *permitted* (time
//!                 beyond the reset time of the window of the latest failure, or an administrator
//!                 expiry in the past presented since that failure). The real count can never be lower.
//!   * `bound`   - the latest instant before which the credential must still be refused: the max over
//!                 all failures of min(failure time + documented delay(n_min), window reset time).
//!                 max() = "further failures never shorten the lock".
//!   * budgets   - admitted failures (recorded right after a valid check) per UTC day / per TOTP step,
//!                 judged only while no administrator expiry has been presented.
//! Documented policy constants (module documentation and NIST rationale in softlock.rs): password delay
//! 1 s below 3 failures, 3 s below 9, 5 s below 25, 10 s below 100, from 100 on locked to the reset time
//! (next UTC midnight); TOTP delay 1 s below 3 failures, from 3 on locked to the end of the step;
//! webauthn 1 s.
//! Not judged (counted): admission exactly at the unlock instant; a lock cut short because the window's
//! reset time came first; refusals (liveness is not in the statement).

use kanidmd_lib::credential::softlock::CredSoftLockPolicy;
use kanidmd_lib::verif::SoftLock;
use kvcore::{Acc, Args, Rng, Run};
use serde_json::json;
use std::collections::BTreeMap;
use std::time::Duration;

const DAY: u64 = 86400;

#[derive(Clone, Copy, Debug, PartialEq, Eq)]
enum Pol {
    Password,
    Totp(u64),
    Webauthn,
}

impl Pol {
    fn real(&self) -> CredSoftLockPolicy {
        match self {
            Pol::Password => CredSoftLockPolicy::Password,
            Pol::Totp(s) => CredSoftLockPolicy::Totp(*s),
            Pol::Webauthn => CredSoftLockPolicy::Webauthn,
        }
    }
    fn name(&self) -> &'static str {
        match self {
            Pol::Password => "password",
            Pol::Totp(_) => "totp",
            Pol::Webauthn => "webauthn",
        }
    }
    fn window(&self) -> u64 {
        match self {
            Pol::Password => DAY,
            Pol::Totp(s) => *s,
            Pol::Webauthn => 1,
        }
    }
    /// Reset time of the window a failure at `t` falls in: the next window boundary after t.
    fn window_reset(&self, t: Duration) -> Duration {
        match self {
            Pol::Webauthn => t + Duration::from_secs(1),
            _ => {
                let w = self.window();
                Duration::from_secs((t.as_secs() / w + 1) * w)
            }
        }
    }
    /// Documented delay after the n-th failure of a window; None = locked until the window resets.
    fn delay(&self, n: u64) -> (Option<Duration>, &'static str) {
        match self {
            Pol::Password => {
                if n < 3 {
                    (Some(Duration::from_secs(1)), "below-3-failures-1s")
                } else if n < 9 {
                    (Some(Duration::from_secs(3)), "below-9-failures-3s")
                } else if n < 25 {
                    (Some(Duration::from_secs(5)), "below-25-failures-5s")
                } else if n < 100 {
                    (Some(Duration::from_secs(10)), "below-100-failures-10s")
                } else {
                    (None, "from-100-failures-until-reset")
                }
            }
            Pol::Totp(_) => {
                if n < 3 {
                    (Some(Duration::from_secs(1)), "below-3-failures-1s")
                } else {
                    (None, "from-3-failures-until-step-end")
                }
            }
            Pol::Webauthn => (Some(Duration::from_secs(1)), "1s"),
        }
    }
}

#[derive(Clone, Copy, Debug)]
enum Ev {
    /// apply time, ask is_valid; record a failure only if valid (server protocol)
    Attempt,
    /// apply time, ask is_valid (a login that does not fail, or a mere probe)
    Check,
    /// record a failure without asking first (a racing session that was admitted earlier)
    RawFail,
    Advance(Duration),
    /// administrator soft-lock expiry set relative to now (seconds, may be negative), or cleared
    AdminExpiry(Option<i64>),
}

#[derive(Clone, Debug)]
struct Bound {
    unlock: Duration,
    reset: Duration,
    bucket: &'static str,
    n_min: u64,
    failed_at: Duration,
}

/// Cheap counters (flushed into the Acc by name at the end of a worker).
const STAT_NAMES: &[&str] = &[
    "check.refused",
    "check.valid",
    "lock_lifted_by_admin_expiry",
    "admitted_exactly_at_unlock_instant_not_judged",
    "lock_cut_short_by_window_reset_not_judged",
    "lock_lifted_after_unlock_time",
    "count_reset_permitted.window",
    "count_reset_permitted.admin",
    "failure.admitted",
    "failure.raw",
    "attempt.refused",
    "admin_expiry_events",
    "events",
];
const S_REFUSED: usize = 0;
const S_VALID: usize = 1;
const S_LIFT_ADMIN: usize = 2;
const S_AT_UNLOCK: usize = 3;
const S_CUT_SHORT: usize = 4;
const S_LIFT_AFTER: usize = 5;
const S_RESET_WINDOW: usize = 6;
const S_RESET_ADMIN: usize = 7;
const S_FAIL_ADMITTED: usize = 8;
const S_FAIL_RAW: usize = 9;
const S_ATTEMPT_REFUSED: usize = 10;
const S_ADMIN: usize = 11;
const S_EVENTS: usize = 12;

#[derive(Default)]
struct Stats([u64; 13]);

impl Stats {
    fn flush(&self, acc: &mut Acc) {
        for (i, n) in STAT_NAMES.iter().enumerate() {
            acc.count_n(n, self.0[i]);
        }
    }
}

#[derive(Clone, Copy, Debug)]
#[allow(dead_code)] // fields are read through Debug when a witness is written
enum LogEv {
    Check { at: Duration, expire: Option<Duration>, valid: bool },
    Fail { at: Duration, admitted: bool },
    Admin { at: Duration, expire: Option<Duration> },
}

/// What the monitor drives: the real lock (hook), a seeded-bug model (self test), or nothing (server part).
trait LockApi {
    fn apply_time_step(&mut self, ct: Duration, expire_at: Option<Duration>);
    fn is_valid(&self) -> bool;
    fn record_failure(&mut self, ct: Duration);
}

impl LockApi for SoftLock {
    fn apply_time_step(&mut self, ct: Duration, expire_at: Option<Duration>) {
        SoftLock::apply_time_step(self, ct, expire_at)
    }
    fn is_valid(&self) -> bool {
        SoftLock::is_valid(self)
    }
    fn record_failure(&mut self, ct: Duration) {
        SoftLock::record_failure(self, ct)
    }
}

/// The server part observes the lock through authentication results only.
struct Observed;
impl LockApi for Observed {
    fn apply_time_step(&mut self, _: Duration, _: Option<Duration>) {}
    fn is_valid(&self) -> bool {
        true
    }
    fn record_failure(&mut self, _: Duration) {}
}

struct Monitor<L: LockApi> {
    pol: Pol,
    lock: L,
    now: Duration,
    expire: Option<Duration>,
    // statement-level bookkeeping
    n_min: u64,
    last_window_reset: Option<Duration>,
    bound: Option<Bound>,
    expiry_min_since_failure: Option<Duration>,
    admin_used: bool,
    per_window: BTreeMap<u64, u64>,
    // evidence
    max_in_window: u64,
    log: std::collections::VecDeque<LogEv>,
    keep_log: usize,
    st: Stats,
}

impl<L: LockApi> Monitor<L> {
    fn new(pol: Pol, lock: L, start: Duration, keep_log: usize) -> Self {
        Monitor {
            pol,
            lock,
            now: start,
            expire: None,
            n_min: 0,
            last_window_reset: None,
            bound: None,
            expiry_min_since_failure: None,
            admin_used: false,
            per_window: BTreeMap::new(),
            max_in_window: 0,
            log: std::collections::VecDeque::with_capacity(keep_log + 1),
            keep_log,
            st: Stats::default(),
        }
    }

    fn note(&mut self, e: LogEv) {
        if self.log.len() >= self.keep_log {
            self.log.pop_front();
        }
        self.log.push_back(e);
    }

    fn witness(&self, why: &str) -> serde_json::Value {
        json!({"policy": format!("{:?}", self.pol), "now": format!("{:?}", self.now), "why": why,
               "monitor": {"failures_since_last_permitted_reset": self.n_min, "must_refuse": format!("{:?}", self.bound),
                           "admin_expiry_in_force": format!("{:?}", self.expire)},
               "last_events": self.log.iter().map(|e| format!("{e:?}")).collect::<Vec<_>>()})
    }

    /// apply_time_step + is_valid, judged against the bound
    fn check(&mut self, acc: &mut Acc) -> bool {
        self.lock.apply_time_step(self.now, self.expire);
        let valid = self.lock.is_valid();
        self.judge_check(acc, valid)
    }

    /// An observed answer to "is the credential admitted now" (with `self.expire` presented).
    fn judge_check(&mut self, acc: &mut Acc, valid: bool) -> bool {
        if let Some(e) = self.expire {
            self.admin_used = true;
            self.expiry_min_since_failure = Some(self.expiry_min_since_failure.map_or(e, |m| m.min(e)));
        }
        self.note(LogEv::Check { at: self.now, expire: self.expire, valid });
        if !valid {
            self.st.0[S_REFUSED] += 1;
            return false;
        }
        self.st.0[S_VALID] += 1;
        if let Some(b) = self.bound.clone() {
            let t = self.now;
            let excused_by_admin = self.expiry_min_since_failure.map(|e| t > e).unwrap_or(false);
            if t > b.unlock {
                self.st.0[S_LIFT_AFTER] += 1;
                self.bound = None;
            } else if t > b.reset {
                self.st.0[S_CUT_SHORT] += 1;
                self.bound = None;
            } else if excused_by_admin {
                self.st.0[S_LIFT_ADMIN] += 1;
            } else if t == b.unlock {
                self.st.0[S_AT_UNLOCK] += 1;
            } else {
                let sig = format!("c28/{}/admitted-before-unlock/{}", self.pol.name(), b.bucket);
                let w = self.witness(&format!(
                    "failure #{} (at least) of the window was recorded at {:?}; the credential must be refused before {:?} but is_valid() is true at {:?} with no administrator expiry in the past",
                    b.n_min, b.failed_at, b.unlock, t
                ));
                acc.violation(&sig, w);
            }
        }
        true
    }

    fn record_failure(&mut self, acc: &mut Acc, admitted: bool) {
        self.lock.record_failure(self.now);
        self.note_failure(acc, admitted);
    }

    /// A failure is known to have been recorded at `self.now`.
    fn note_failure(&mut self, acc: &mut Acc, admitted: bool) {
        let t = self.now;
        // was a reset of the count permitted since the previous failure?
        let window_passed = self.last_window_reset.map(|r| t > r).unwrap_or(true);
        let admin_passed = self.expiry_min_since_failure.map(|e| t > e).unwrap_or(false);
        if window_passed || admin_passed {
            if self.n_min > 0 {
                self.st.0[if window_passed { S_RESET_WINDOW } else { S_RESET_ADMIN }] += 1;
            }
            self.n_min = 0;
            // the earlier lock belonged to a window that has legitimately ended
            self.bound = None;
        }
        self.n_min += 1;
        self.note(LogEv::Fail { at: t, admitted });
        let reset = self.pol.window_reset(t);
        self.last_window_reset = Some(reset);
        self.expiry_min_since_failure = None;
        let (d, bucket) = self.pol.delay(self.n_min);
        let unlock = d.map(|d| t + d).unwrap_or(reset);
        let nb = Bound { unlock, reset, bucket, n_min: self.n_min, failed_at: t };
        // further failures never shorten the lock
        self.bound = match self.bound.take() {
            Some(old) if old.unlock.min(old.reset) > nb.unlock.min(nb.reset) => Some(old),
            _ => Some(nb),
        };
        self.st.0[if admitted { S_FAIL_ADMITTED } else { S_FAIL_RAW }] += 1;
        if admitted && !self.admin_used {
            let w = t.as_secs() / self.pol.window();
            let c = self.per_window.entry(w).or_insert(0);
            *c += 1;
            let c = *c;
            self.max_in_window = self.max_in_window.max(c);
            match self.pol {
                Pol::Password if c > 100 => {
                    let wit = self.witness(&format!("{c} failures were admitted in UTC day {w} without administrator intervention"));
                    acc.violation("c28/password/more-than-100-failures-admitted-in-a-utc-day", wit)
                }
                Pol::Totp(_) if c > 3 => {
                    let wit = self.witness(&format!("{c} failures were admitted in TOTP step {w} without administrator intervention"));
                    acc.violation("c28/totp/more-than-3-failures-admitted-in-a-step", wit)
                }
                _ => {}
            }
            if self.per_window.len() > 8 {
                let first = *self.per_window.keys().next().unwrap_or(&0);
                self.per_window.remove(&first);
            }
        }
    }

    fn step(&mut self, acc: &mut Acc, ev: Ev) {
        self.st.0[S_EVENTS] += 1;
        match ev {
            Ev::Attempt => {
                if self.check(acc) {
                    self.record_failure(acc, true);
                } else {
                    self.st.0[S_ATTEMPT_REFUSED] += 1;
                }
            }
            Ev::Check => {
                self.check(acc);
            }
            Ev::RawFail => self.record_failure(acc, false),
            Ev::Advance(d) => {
                self.now += d;
            }
            Ev::AdminExpiry(rel) => {
                self.expire = rel.map(|r| {
                    if r >= 0 {
                        Duration::from_secs(self.now.as_secs() + r as u64)
                    } else {
                        Duration::from_secs(self.now.as_secs().saturating_sub((-r) as u64))
                    }
                });
                self.note(LogEv::Admin { at: self.now, expire: self.expire });
                self.st.0[S_ADMIN] += 1;
            }
        }
    }
}

fn real_lock(pol: Pol) -> SoftLock {
    SoftLock::new(pol.real())
}

// ---- exhaustive part

fn alphabet(pol: Pol) -> Vec<(Ev, &'static str)> {
    vec![
        (Ev::Attempt, "A"),
        (Ev::Check, "C"),
        (Ev::RawFail, "R"),
        (Ev::Advance(Duration::from_secs(1)), "+1s"),
        (Ev::Advance(Duration::from_secs(4)), "+4s"),
        (Ev::Advance(Duration::from_secs(11)), "+11s"),
        (Ev::Advance(Duration::from_secs(pol.window())), "+window"),
        (Ev::AdminExpiry(Some(-1)), "expiry=now-1s"),
        (Ev::AdminExpiry(Some(2)), "expiry=now+2s"),
    ]
}

#[derive(Clone, Debug)]
struct Config {
    pol: Pol,
    preheat: u64,
    /// seconds before a window boundary at which the enumerated suffix starts
    before_boundary: u64,
    /// length of the enumerated suffix
    len: u32,
}

fn merge_stats(into: &mut Stats, from: &Stats) {
    for i in 0..into.0.len() {
        into.0[i] += from.0[i];
    }
}

fn run_sequence<L: LockApi>(acc: &mut Acc, st: &mut Stats, cfg: &Config, alpha: &[(Ev, &'static str)], mut idx: u64, len: u32, mk: &impl Fn(Pol) -> L) {
    let base = Duration::from_secs(20_000 * DAY);
    let w = cfg.pol.window();
    let mut m = Monitor::new(cfg.pol, mk(cfg.pol), base, 24);
    // preheat: `preheat` admitted failures at the maximum documented rate, inside one window
    for _ in 0..cfg.preheat {
        m.step(acc, Ev::Attempt);
        m.step(acc, Ev::Advance(Duration::new(10, 1)));
    }
    // move to `before_boundary` seconds before the next window boundary if that keeps us in the window
    let into = m.now.as_secs() % w;
    if cfg.before_boundary > 0 && into + cfg.before_boundary < w {
        m.now = Duration::from_secs(m.now.as_secs() - into + w - cfg.before_boundary);
    }
    acc.evaluations += 1;
    acc.nontrivial_enum += 1;
    let k = alpha.len() as u64;
    for _ in 0..len {
        let (ev, _name) = alpha[(idx % k) as usize];
        idx /= k;
        m.step(acc, ev);
    }
    merge_stats(st, &m.st);
}

// ---- random part

fn random_run<L: LockApi>(acc: &mut Acc, st: &mut Stats, rng: &mut Rng, pol: Pol, events: usize, profile: u64, mk: &impl Fn(Pol) -> L) {
    let start = Duration::new(19_000 * DAY + rng.below(10 * DAY), rng.below(1_000_000_000) as u32);
    let mut m = Monitor::new(pol, mk(pol), start, 40);
    let w = pol.window();
    acc.eval();
    acc.count(&format!("random_run.{}.profile{}", pol.name(), profile));
    for _ in 0..events {
        let ev = match profile {
            // patient attacker: always waits out the documented delay (plus 1 ns) and tries again;
            // this is the maximum admitted rate and must still stay inside the budget
            0 => {
                if rng.chance(1, 2) {
                    Ev::Attempt
                } else {
                    let d = match &m.bound {
                        Some(b) if b.unlock >= m.now => b.unlock - m.now + Duration::from_nanos(1),
                        _ => Duration::from_nanos(rng.below(2_000_000_000)),
                    };
                    Ev::Advance(d)
                }
            }
            // random mix over real scales, no administrator
            1 => match rng.weighted(&[45, 12, 4, 39]) {
                0 => Ev::Attempt,
                1 => Ev::Check,
                2 => Ev::RawFail,
                _ => Ev::Advance(match rng.below(14) {
                    0 => Duration::from_nanos(1),
                    1 => Duration::from_millis(500),
                    2 => Duration::from_secs(1),
                    3 => Duration::new(1, 1),
                    4 => Duration::from_secs(3),
                    5 => Duration::new(3, 1),
                    6 => Duration::new(5, 1),
                    7 => Duration::from_secs(10),
                    8 => Duration::new(10, 1),
                    9 => Duration::from_secs(rng.range(1, 120)),
                    10 => Duration::from_secs(rng.range(1, w.max(2))),
                    // to one second before / exactly at / just after the next window boundary
                    11 => Duration::from_secs((w - m.now.as_secs() % w).saturating_sub(1)),
                    12 => Duration::from_secs(w - m.now.as_secs() % w),
                    _ => Duration::new(w - m.now.as_secs() % w, 1),
                }),
            },
            // with an administrator who sets / moves / clears the soft-lock expiry
            _ => match rng.weighted(&[40, 12, 4, 34, 10]) {
                0 => Ev::Attempt,
                1 => Ev::Check,
                2 => Ev::RawFail,
                3 => Ev::Advance(match rng.below(6) {
                    0 => Duration::from_millis(500),
                    1 => Duration::new(1, 1),
                    2 => Duration::new(3, 1),
                    3 => Duration::new(10, 1),
                    4 => Duration::from_secs(rng.range(1, w.max(2))),
                    _ => Duration::from_secs(w - m.now.as_secs() % w),
                }),
                _ => Ev::AdminExpiry(match rng.below(5) {
                    0 => None,
                    1 => Some(-(rng.range(1, 100) as i64)),
                    2 => Some(0),
                    3 => Some(rng.range(1, 20) as i64),
                    _ => Some((2 * w) as i64),
                }),
            },
        };
        m.step(acc, ev);
    }
    merge_stats(st, &m.st);
    acc.count_n("random_events", events as u64);
    acc.observe(&format!("max_admitted_failures_in_one_window.{}", pol.name()), &format!("{:04}", m.max_in_window));
    match pol {
        Pol::Password if m.max_in_window >= 100 => acc.count("budget_reached.password_100_in_a_day"),
        Pol::Totp(_) if m.max_in_window >= 3 => acc.count("budget_reached.totp_3_in_a_step"),
        _ => {}
    }
    if acc.samples.len() < 3 {
        acc.sample(json!({"policy": format!("{pol:?}"), "profile": profile, "events": events,
                          "max_admitted_failures_in_one_window": m.max_in_window,
                          "last_events": m.log.iter().map(|e| format!("{e:?}")).collect::<Vec<_>>()}));
    }
}


// ---- self test of the monitor (developer aid: `puresim2 C28 selftest`): a small model lock with
// seeded defects must be caught, the defect-free model must pass. Never used as an oracle.

#[derive(Clone, Copy, Debug, PartialEq, Eq)]
enum Bug {
    None,
    TotpFourthAttempt,
    UnlockFromPreviousUnlock,
    ResetOnSuccess,
    PasswordBucketShifted,
    WindowHalved,
    NoDayLockAtHundred,
}

struct ModelLock {
    pol: Pol,
    bug: Bug,
    count: u64,
    reset_at: Duration,
    unlock_at: Duration,
    locked: bool,
    last_expire: Duration,
}

impl ModelLock {
    fn new(pol: Pol, bug: Bug) -> Self {
        ModelLock { pol, bug, count: 0, reset_at: Duration::ZERO, unlock_at: Duration::ZERO, locked: false, last_expire: Duration::ZERO }
    }
}

impl LockApi for ModelLock {
    fn apply_time_step(&mut self, ct: Duration, expire_at: Option<Duration>) {
        if self.count == 0 {
            return;
        }
        if self.locked {
            if let Some(e) = expire_at {
                if e != self.last_expire {
                    self.last_expire = e;
                    if self.reset_at > e {
                        self.reset_at = e;
                    }
                }
            }
        }
        if ct > self.reset_at {
            self.count = 0;
            self.locked = false;
        } else if self.locked && ct > self.unlock_at {
            self.locked = false;
        }
        if self.bug == Bug::ResetOnSuccess && !self.locked {
            self.count = 0; // a valid check stands for a successful login
        }
    }
    fn is_valid(&self) -> bool {
        !self.locked
    }
    fn record_failure(&mut self, ct: Duration) {
        let prev_unlock = self.unlock_at;
        self.count += 1;
        let n = self.count;
        let w = if self.bug == Bug::WindowHalved { self.pol.window() / 2 } else { self.pol.window() };
        self.reset_at = match self.pol {
            Pol::Webauthn => ct + Duration::from_secs(1),
            _ => Duration::from_secs((ct.as_secs() / w + 1) * w),
        };
        let shift = if self.bug == Bug::PasswordBucketShifted { 1 } else { 0 };
        let d = match self.pol {
            Pol::Password => {
                if n < 3 + shift {
                    Some(1)
                } else if n < 9 + shift {
                    Some(3)
                } else if n < 25 + shift {
                    Some(5)
                } else if n < 100 || self.bug == Bug::NoDayLockAtHundred {
                    Some(10)
                } else {
                    None
                }
            }
            Pol::Totp(_) => {
                let lim = if self.bug == Bug::TotpFourthAttempt { 4 } else { 3 };
                if n < lim {
                    Some(1)
                } else {
                    None
                }
            }
            Pol::Webauthn => Some(1),
        };
        let from = if self.bug == Bug::UnlockFromPreviousUnlock && prev_unlock > Duration::ZERO { prev_unlock.min(ct) } else { ct };
        self.unlock_at = d.map(|d| from + Duration::from_secs(d)).unwrap_or(self.reset_at);
        self.locked = true;
    }
}

fn selftest(args: &Args) -> ! {
    let bugs = [
        Bug::None,
        Bug::TotpFourthAttempt,
        Bug::UnlockFromPreviousUnlock,
        Bug::ResetOnSuccess,
        Bug::PasswordBucketShifted,
        Bug::WindowHalved,
        Bug::NoDayLockAtHundred,
    ];
    let mut ok = true;
    for bug in bugs {
        let mut acc = Acc::new();
        let mut st = Stats::default();
        let mk = |p: Pol| ModelLock::new(p, bug);
        let k = alphabet(Pol::Password).len() as u64;
        for cfg in [
            Config { pol: Pol::Password, preheat: 0, before_boundary: 0, len: 6 },
            Config { pol: Pol::Password, preheat: 2, before_boundary: 0, len: 6 },
            Config { pol: Pol::Password, preheat: 8, before_boundary: 3, len: 5 },
            Config { pol: Pol::Password, preheat: 99, before_boundary: 0, len: 4 },
            Config { pol: Pol::Totp(30), preheat: 0, before_boundary: 0, len: 6 },
            Config { pol: Pol::Totp(30), preheat: 2, before_boundary: 3, len: 6 },
            Config { pol: Pol::Webauthn, preheat: 0, before_boundary: 0, len: 5 },
        ] {
            let alpha = alphabet(cfg.pol);
            for idx in 0..k.pow(cfg.len) {
                run_sequence(&mut acc, &mut st, &cfg, &alpha, idx, cfg.len, &mk);
            }
        }
        let mut rng = Rng::new(kvcore::rng::mix(args.seed, 0, 2899));
        for r in 0..12u64 {
            let pol = if r % 2 == 0 { Pol::Password } else { Pol::Totp(30) };
            random_run(&mut acc, &mut st, &mut rng, pol, 100_000, (r / 2) % 3, &mk);
        }
        let sigs: std::collections::BTreeSet<String> = acc.violations.iter().map(|v| v.signature.clone()).collect();
        let caught = !sigs.is_empty();
        let expect = bug != Bug::None;
        println!("selftest bug={bug:?} caught={caught} expected={expect} signatures={sigs:?}");
        if caught != expect {
            ok = false;
        }
    }
    println!("selftest {}", if ok { "PASSED" } else { "FAILED" });
    std::process::exit(if ok { 0 } else { 2 });
}

// ---- server part: the authentication paths must consult the lock

mod server {
    use super::*;
    use kanidm_lib_crypto::CryptoPolicy;
    use kanidm_proto::v1::{AuthCredential, AuthIssueSession, AuthMech, AuthStep};
    use kanidmd_lib::credential::Credential;
    use kanidmd_lib::entry::{Entry, EntryInit, EntryNew};
    use kanidmd_lib::idm::authentication::AuthState;
    use kanidmd_lib::idm::event::{AuthEvent, UnixUserAuthEvent};
    use kanidmd_lib::idm::server::IdmServer;
    use kanidmd_lib::prelude::*;
    use std::sync::Arc;

    const RIGHT: &str = "correct horse battery staple c28";
    const WRONG: &str = "not the password";

    #[derive(Debug, PartialEq, Eq, Clone, Copy)]
    pub enum Outcome {
        Success,
        Denied,
        Error,
    }

    /// One complete password login on the main path at simulated time `ct`.
    pub async fn login(idms: &IdmServer, name: &str, pw: &str, ct: Duration) -> Outcome {
        let Ok(mut a) = idms.auth().await else { return Outcome::Error };
        let src = || kanidmd_lib::idm::authentication::ClientAuthInfo::new(Source::Internal, None, None, None);
        let step = |sid: Option<Uuid>, s: AuthStep| AuthEvent::from_message(sid, s.into());
        let Ok(ev) = step(None, AuthStep::Init2 { username: name.to_string(), issue: AuthIssueSession::Token, privileged: false }) else {
            return Outcome::Error;
        };
        let r = match a.auth(&ev, ct, src()).await {
            Ok(r) => r,
            Err(_) => return Outcome::Error,
        };
        let sid = r.sessionid;
        let out = match r.state {
            AuthState::Choose(_) => {
                let Ok(ev) = step(Some(sid), AuthStep::Begin(AuthMech::Password)) else { return Outcome::Error };
                match a.auth(&ev, ct, src()).await {
                    Ok(r) => match r.state {
                        AuthState::Continue(_) => {
                            let Ok(ev) = step(Some(sid), AuthStep::Cred(AuthCredential::Password(pw.to_string()))) else {
                                return Outcome::Error;
                            };
                            match a.auth(&ev, ct, src()).await {
                                Ok(r) => match r.state {
                                    AuthState::Success(_, _) => Outcome::Success,
                                    AuthState::Denied(_) => Outcome::Denied,
                                    _ => Outcome::Error,
                                },
                                Err(_) => Outcome::Error,
                            }
                        }
                        AuthState::Denied(_) => Outcome::Denied,
                        _ => Outcome::Error,
                    },
                    Err(_) => Outcome::Error,
                }
            }
            AuthState::Denied(_) => Outcome::Denied,
            _ => Outcome::Error,
        };
        if a.commit().is_err() {
            return Outcome::Error;
        }
        out
    }

    pub async fn unix_login(idms: &IdmServer, ident: &Identity, target: Uuid, pw: &str, ct: Duration) -> Outcome {
        let Ok(mut a) = idms.auth().await else { return Outcome::Error };
        let ev = UnixUserAuthEvent { ident: ident.clone(), target, cleartext: pw.to_string() };
        let out = match a.auth_unix(&ev, ct).await {
            Ok(Some(_)) => Outcome::Success,
            Ok(None) => Outcome::Denied,
            Err(_) => Outcome::Error,
        };
        if a.commit().is_err() {
            return Outcome::Error;
        }
        out
    }

    /// Drive one account on one path. A probe with the right password tells whether the credential is
    /// admitted at this instant (a success must not change the lock); a wrong password right after an
    /// admitted probe, at the same instant, is therefore an admitted failure.
    pub async fn drive(acc: &mut Acc, st: &mut Stats, seed: u64, w: usize, steps: usize) {
        let qs = kvcore::srv::mk_mem_server().await;
        let t0 = kvcore::srv::T0 + Duration::from_secs(3600);
        let origin = match url::Url::parse("https://idm.example.com") {
            Ok(u) => u,
            Err(_) => return acc.inconclusive("url"),
        };
        let (idms, _delayed, _audit) = match IdmServer::new(qs.clone(), &origin, true, t0).await {
            Ok(x) => x,
            Err(e) => return acc.inconclusive(&format!("IdmServer::new: {e:?}")),
        };
        let mut rng = Rng::new(kvcore::rng::mix(seed, w as u64, 2850));
        let policy = CryptoPolicy::danger_test_minimum();
        let now_odt = time::OffsetDateTime::UNIX_EPOCH + t0;
        // two accounts: one for the main path, one for the unix path
        let mut accounts = Vec::new();
        {
            let Ok(mut wr) = idms.proxy_write(t0).await else { return acc.inconclusive("proxy_write") };
            for (i, unix) in [(0, false), (1, true)] {
                let name = format!("c28w{w}a{i}");
                let uuid = rng.uuid();
                let Ok(cred) = Credential::new_password_only(&policy, RIGHT, now_odt) else { return acc.inconclusive("credential") };
                let mut e: Entry<EntryInit, EntryNew> = entry_init!(
                    (Attribute::Class, EntryClass::Object.to_value()),
                    (Attribute::Class, EntryClass::Account.to_value()),
                    (Attribute::Class, EntryClass::Person.to_value()),
                    (Attribute::Name, Value::new_iname(&name)),
                    (Attribute::Uuid, Value::Uuid(uuid)),
                    (Attribute::DisplayName, Value::new_utf8s(&name))
                );
                if unix {
                    e.add_ava(Attribute::Class, EntryClass::PosixAccount.to_value());
                    e.add_ava(Attribute::UnixPassword, Value::new_credential("unix", cred));
                } else {
                    e.add_ava(Attribute::PrimaryCredential, Value::new_credential("primary", cred));
                }
                if let Err(e) = wr.qs_write.internal_create(vec![e]) {
                    return acc.inconclusive(&format!("create account: {e:?}"));
                }
                accounts.push((name, uuid, unix));
            }
            if let Err(e) = wr.commit() {
                return acc.inconclusive(&format!("commit accounts: {e:?}"));
            }
        }
        let ident = {
            let Ok(mut rd) = qs.read().await else { return acc.inconclusive("read") };
            match rd.internal_search_uuid(accounts[1].1) {
                Ok(e) => Identity::from_impersonate_entry_readwrite(e),
                Err(e) => return acc.inconclusive(&format!("search: {e:?}")),
            }
        };
        let _ = Arc::new(0u8);
        for (name, uuid, unix) in accounts.iter() {
            let path = if *unix { "unix" } else { "auth" };
            let mut m = Monitor::new(Pol::Password, Observed, t0 + Duration::from_secs(rng.below(86400)), 40);
            let profile = rng.below(2);
            let mut successes = 0u64;
            for _ in 0..steps {
                // advance
                let d = if profile == 0 {
                    match &m.bound {
                        Some(b) if b.unlock >= m.now && rng.chance(2, 3) => b.unlock - m.now + Duration::from_nanos(1),
                        _ => Duration::from_millis(rng.below(3000)),
                    }
                } else {
                    match rng.below(8) {
                        0 => Duration::ZERO,
                        1 => Duration::from_millis(500),
                        2 => Duration::from_secs(1),
                        3 => Duration::new(1, 1),
                        4 => Duration::new(3, 1),
                        5 => Duration::new(10, 1),
                        6 => Duration::from_secs(rng.range(1, 30)),
                        _ => Duration::from_secs(86400 - m.now.as_secs() % 86400),
                    }
                };
                m.now += d;
                let ct = m.now;
                // probe with the right password
                let probe = if *unix { unix_login(&idms, &ident, *uuid, RIGHT, ct).await } else { login(&idms, name, RIGHT, ct).await };
                acc.eval();
                let valid = match probe {
                    Outcome::Success => true,
                    Outcome::Denied => false,
                    Outcome::Error => {
                        acc.count(&format!("server.{path}.error_not_judged"));
                        continue;
                    }
                };
                if valid {
                    successes += 1;
                }
                acc.count(&format!("server.{path}.right_password.{}", if valid { "success" } else { "refused" }));
                m.judge_check(acc, valid);
                // then, mostly, a wrong password at the same instant
                if rng.chance(3, 4) {
                    let o = if *unix { unix_login(&idms, &ident, *uuid, WRONG, ct).await } else { login(&idms, name, WRONG, ct).await };
                    match o {
                        Outcome::Denied => {
                            acc.count(&format!("server.{path}.wrong_password.{}", if valid { "admitted_failure" } else { "while_locked" }));
                            if valid {
                                m.note_failure(acc, true);
                            }
                        }
                        Outcome::Success => acc.count(&format!("server.{path}.wrong_password_accepted_not_judged_here")),
                        Outcome::Error => acc.count(&format!("server.{path}.error_not_judged")),
                    }
                }
                acc.nontrivial(&format!("{w}|{path}|{ct:?}"));
            }
            merge_stats(st, &m.st);
            acc.observe(&format!("server.{path}.max_admitted_failures_in_one_day"), &format!("{:04}", m.max_in_window));
            if m.max_in_window >= 100 {
                acc.count(&format!("server.{path}.budget_reached_100_in_a_day"));
            }
            if successes > 0 && acc.samples.len() < 5 {
                acc.sample(json!({"part": "server", "path": path, "steps": steps, "right_password_successes": successes,
                                  "max_admitted_failures_in_one_day": m.max_in_window,
                                  "last_events": m.log.iter().map(|e| format!("{e:?}")).collect::<Vec<_>>()}));
            }
        }
    }
}

pub fn run(args: Args) {
    if args.rest.iter().any(|a| a == "selftest") {
        selftest(&args);
    }
    let thorough = args.tier == kvcore::Tier::Thorough;
    // enumerated suffix length: long for cheap configurations, one shorter behind a long pre-heat
    let len_small: u32 = args.tier.pick(7, 8);
    let len_large: u32 = args.tier.pick(6, 7);
    let mut run = Run::new(
        args.clone(),
        "exploration",
        "exhaustive: every sequence of exactly L events (every shorter sequence is a judged prefix; L = 7 quick / 8 thorough, one less behind a pre-heat of >= 23 failures) over {attempt, check, raw failure, +1s, +4s, +11s, +window, admin expiry now-1s, admin expiry now+2s}, for password / TOTP(30) / TOTP(60) / webauthn, started after k pre-recorded failures (k at every delay bucket edge) and at mid window or 3 s before a window boundary; random: 100000-event sequences over real time scales in three profiles (patient attacker at the maximum admitted rate, random mix, with administrator); every sequence is distinct by construction / seed",
    );
    run.assume("verif::SoftLock forwards to CredSoftLock unchanged; the harness drives it with the server's protocol (apply_time_step, is_valid, record_failure only when valid) plus raw failures for racing sessions");
    run.assume("time is monotone non-decreasing within a sequence");

    // ---- exhaustive
    let mut configs: Vec<Config> = Vec::new();
    for k in [0u64, 1, 2, 7, 8, 23, 24, 98, 99, 100] {
        for bb in [0u64, 3] {
            if !thorough && ![0, 2, 8, 24, 99].contains(&k) {
                continue;
            }
            let len = if k >= 23 { len_large } else { len_small };
            configs.push(Config { pol: Pol::Password, preheat: k, before_boundary: bb, len });
        }
    }
    for step in [30u64, 60] {
        for k in [0u64, 1, 2] {
            for bb in [0u64, 3] {
                if !thorough && step == 60 {
                    continue;
                }
                configs.push(Config { pol: Pol::Totp(step), preheat: k, before_boundary: bb, len: len_small });
            }
        }
    }
    configs.push(Config { pol: Pol::Webauthn, preheat: 0, before_boundary: 0, len: len_small });
    let k = alphabet(Pol::Password).len() as u64;
    let total_sequences: u64 = configs.iter().map(|c| k.pow(c.len)).sum();
    run.extra("exhaustive_alphabet", json!(alphabet(Pol::Password).iter().map(|a| a.1).collect::<Vec<_>>()));
    run.extra("exhaustive_sequences", json!(total_sequences));
    run.extra("exhaustive_configs", json!(configs.iter().map(|c| format!("{c:?}")).collect::<Vec<_>>()));
    {
        let configs = &configs;
        run.parallel(args.workers, |w, n| {
            let mut acc = Acc::new();
            let mut st = Stats::default();
            for cfg in configs.iter() {
                let alpha = alphabet(cfg.pol);
                let total = k.pow(cfg.len);
                let mut idx = w as u64;
                while idx < total {
                    run_sequence(&mut acc, &mut st, cfg, &alpha, idx, cfg.len, &real_lock);
                    idx += n as u64;
                }
            }
            st.flush(&mut acc);
            acc
        });
    }
    run.exhaustive = Some(true);

    // ---- random
    let runs_per_worker: u64 = args.tier.pick(192u64, 2880).div_ceil(args.workers.max(1) as u64);
    let events: usize = 100_000;
    let seed = args.seed;
    run.parallel(args.workers, |w, _| {
        let mut acc = Acc::new();
        let mut st = Stats::default();
        let mut rng = Rng::new(kvcore::rng::mix(seed, w as u64, 2800));
        for r in 0..runs_per_worker {
            let pol = match r % 4 {
                0 | 1 => Pol::Password,
                2 => Pol::Totp(*rng.pick(&[30u64, 30, 60, 31, 90])),
                _ => {
                    if rng.chance(1, 4) {
                        Pol::Webauthn
                    } else {
                        Pol::Totp(30)
                    }
                }
            };
            let profile = (r / 4) % 3;
            random_run(&mut acc, &mut st, &mut rng, pol, events, profile, &real_lock);
        }
        st.flush(&mut acc);
        acc
    });
    // ---- server paths (main password authentication and unix authentication)
    let server_steps: usize = args.tier.pick(4000usize, 24000).div_ceil(args.workers.max(1));
    run.parallel(args.workers, |w, _| {
        let mut acc = Acc::new();
        let mut st = Stats::default();
        let rt = kvcore::srv::rt();
        rt.block_on(server::drive(&mut acc, &mut st, seed, w, server_steps));
        // keep the hook-level counters separate from the server-level ones
        for (i, n) in STAT_NAMES.iter().enumerate() {
            acc.count_n(&format!("server.monitor.{n}"), st.0[i]);
        }
        acc
    });
    run.extra("server_steps_per_account", json!(server_steps));
    run.assume("server part: a login with the right password does not alter the lock (it is used as the probe that tells whether the credential is admitted at that instant); the reauthentication path is not driven");
    run.extra("random_runs", json!(runs_per_worker * args.workers as u64));
    run.extra("random_events_per_run", json!(events));

    let c = run.acc.counters.clone();
    let g = |k: &str| c.get(k).copied().unwrap_or(0);
    for (k, min) in [
        ("failure.admitted", 10_000u64),
        ("failure.raw", 1_000),
        ("check.refused", 10_000),
        ("check.valid", 10_000),
        ("lock_lifted_after_unlock_time", 1_000),
        ("lock_lifted_by_admin_expiry", 100),
        ("count_reset_permitted.window", 100),
        ("count_reset_permitted.admin", 100),
        ("admin_expiry_events", 100),
        // the budgets must have been reached, otherwise "at most" was never under pressure
        ("budget_reached.password_100_in_a_day", 4),
        ("budget_reached.totp_3_in_a_step", 4),
        ("server.auth.right_password.success", 200),
        ("server.auth.right_password.refused", 200),
        ("server.auth.wrong_password.admitted_failure", 200),
        ("server.auth.wrong_password.while_locked", 50),
        ("server.unix.right_password.success", 200),
        ("server.unix.right_password.refused", 200),
        ("server.unix.wrong_password.admitted_failure", 200),
        ("server.monitor.lock_lifted_after_unlock_time", 200),
    ] {
        run.require(g(k) >= min, &format!("{k} observed {} times (< {min})", g(k)));
    }
    run.finish();
}
