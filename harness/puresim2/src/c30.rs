//! C30 Password checks agree with independent implementations.
//!
//! Real code: `kanidm_lib_crypto::Password::{try_from(&str), verify, new_argon2id, new_pbkdf2}`.
//! Forward: `/verif/pyref/c30_gen.py` produces, from the seed, stored passwords in every import format
//! with independent code (crypt(3), hashlib, pure-Python MD4, OpenSSL CLI Argon2id) plus candidate
//! cleartexts with the reference's own verdict for each; kanidm imports the string and must give the
//! same verdict for every candidate.
//! Reverse: kanidm generates Argon2id / PBKDF2 passwords; `/verif/pyref/c30_verify.py` recomputes the key
//! for each candidate from the stored parameters and kanidm's verdict must match.
//! An import that kanidm refuses with Err is counted, not judged (thresholds demand enough successful
//! imports per format).

use crate::pyref::PyGen;
use kanidm_lib_crypto::{CryptoPolicy, DbPasswordV1, Password};
use kvcore::{Acc, Args, Rng, Run};
use serde_json::{json, Value};
use std::panic::{catch_unwind, AssertUnwindSafe};

const FORMATS: &[&str] = &[
    "django-pbkdf2-sha256",
    "openldap-pbkdf2",
    "openldap-pbkdf2-sha1",
    "openldap-pbkdf2-sha256",
    "openldap-pbkdf2-sha512",
    "ds389-pbkdf2-sha1",
    "ds389-pbkdf2-sha256",
    "ds389-pbkdf2-sha512",
    "argon2id",
    "sha",
    "ssha",
    "sha256",
    "ssha256",
    "sha512",
    "ssha512",
    "ipa-nt-hash",
    "samba-nt-password",
    "crypt-md5",
    "crypt-sha256",
    "crypt-sha512",
];

fn kanidm_verdict(acc: &mut Acc, pw: &Password, cand: &str) -> bool {
    match catch_unwind(AssertUnwindSafe(|| pw.verify(cand))) {
        Ok(Ok(b)) => b,
        Ok(Err(_)) => {
            acc.count("verify_returned_err");
            false
        }
        Err(_) => {
            acc.count("panic_in_kanidm");
            false
        }
    }
}

fn short(s: &str) -> String {
    if s.len() <= 120 {
        s.to_string()
    } else {
        let mut e = 100;
        while !s.is_char_boundary(e) {
            e -= 1;
        }
        format!("{}... ({} bytes)", &s[..e], s.len())
    }
}

/// compare kanidm's verdict with the reference's for one candidate
#[allow(clippy::too_many_arguments)]
fn judge(acc: &mut Acc, fmt: &str, stored: &str, params: &Value, cand: &str, kind: &str, want: bool, got: bool) {
    acc.count(match (want, got) {
        (true, true) => "agree.accept",
        (false, false) => "agree.reject",
        (true, false) => "disagree.kanidm_rejects",
        (false, true) => "disagree.kanidm_accepts",
    });
    if want == got {
        return;
    }
    let sig = if want && cand.len() > 512 {
        // format independent cause: the length guard in front of every KDF
        "c30/accepting-cleartext-longer-than-512-bytes-refused".to_string()
    } else if want {
        format!("c30/{fmt}/rejects-{kind}-cleartext-the-reference-accepts")
    } else {
        format!("c30/{fmt}/accepts-{kind}-cleartext-the-reference-rejects")
    };
    crate::pyref::report(
        acc,
        &sig,
        json!({"format": fmt, "stored": short(stored), "params": params, "candidate": short(cand), "candidate_hex_prefix": hex::encode(&cand.as_bytes()[..cand.len().min(64)]),
               "candidate_kind": kind, "candidate_bytes": cand.len(),
               "reference_accepts": want, "kanidm_accepts": got,
               "why": "kanidm and the independent implementation of this format disagree on this cleartext"}),
    );
}

fn forward_case(acc: &mut Acc, v: &Value) {
    let (Some(fmt), Some(stored), Some(cands)) = (v["format"].as_str(), v["hash"].as_str(), v["cands"].as_array()) else {
        acc.inconclusive("malformed reference case");
        return;
    };
    acc.eval();
    let pw = match catch_unwind(AssertUnwindSafe(|| Password::try_from(stored))) {
        Ok(Ok(p)) => p,
        Ok(Err(e)) => {
            acc.count(&format!("import_err.{fmt}"));
            acc.observe("import_errors", &format!("{fmt}: {e:?} params={}", v["params"]));
            return;
        }
        Err(_) => {
            acc.count("panic_in_kanidm");
            acc.count(&format!("import_err.{fmt}"));
            return;
        }
    };
    acc.count(&format!("imported.{fmt}"));
    let mut right_ok = false;
    for c in cands {
        let (Some(cand), Some(kind), Some(want)) = (c["pw"].as_str(), c["kind"].as_str(), c["accept"].as_bool()) else {
            acc.inconclusive("malformed reference candidate");
            continue;
        };
        let got = kanidm_verdict(acc, &pw, cand);
        judge(acc, fmt, stored, &v["params"], cand, kind, want, got);
        acc.count(&format!("candidate.{kind}.{}", if want { "reference_accepts" } else { "reference_rejects" }));
        if kind == "right" && got {
            right_ok = true;
        }
    }
    if right_ok {
        acc.count(&format!("right_accepted.{fmt}"));
    }
    if let Some(cl) = v["params"]["cleartext_class"].as_str() {
        acc.count(&format!("cleartext.{cl}"));
    }
    acc.nontrivial(stored);
    if acc.samples.len() < 3 && acc.evaluations % 41 == 7 {
        acc.sample(json!({"direction": "forward", "format": fmt, "stored": short(stored), "params": v["params"],
                          "candidates": cands.iter().map(|c| json!({"kind": c["kind"], "reference_accepts": c["accept"]})).collect::<Vec<_>>()}));
    }
}

// ---- reverse direction

fn rust_cleartext(rng: &mut Rng) -> String {
    let n = match rng.below(10) {
        0 => 0,
        1 => 1,
        2..=6 => rng.range(6, 24) as usize,
        7 => rng.range(100, 128) as usize,
        _ => rng.range(1, 30) as usize,
    };
    let unicode = rng.chance(1, 3);
    let mut s = String::new();
    for _ in 0..n {
        if unicode && rng.chance(1, 2) {
            let c = match rng.below(4) {
                0 => char::from_u32(0x00e0 + rng.below(0x1f) as u32),
                1 => char::from_u32(0x4e00 + rng.below(0x1000) as u32),
                2 => char::from_u32(0x1f600 + rng.below(0x40) as u32),
                _ => char::from_u32(0x0410 + rng.below(0x40) as u32),
            };
            s.push(c.unwrap_or('?'));
        } else {
            s.push((0x20 + rng.below(0x5f) as u8) as char);
        }
    }
    s
}

fn rust_candidates(rng: &mut Rng, pw: &str) -> Vec<(String, &'static str)> {
    let mut out = vec![(pw.to_string(), "right")];
    if let Some((i, ch)) = pw.char_indices().find(|(_, c)| c.is_alphabetic() && (c.to_uppercase().to_string() != c.to_string() || c.to_lowercase().to_string() != c.to_string())) {
        let sw: String = if ch.is_uppercase() { ch.to_lowercase().collect() } else { ch.to_uppercase().collect() };
        let mut f = String::new();
        f.push_str(&pw[..i]);
        f.push_str(&sw);
        f.push_str(&pw[i + ch.len_utf8()..]);
        if f != pw {
            out.push((f, "case-flip"));
        }
    }
    if let Some((i, _)) = pw.char_indices().last() {
        out.push((pw[..i].to_string(), "truncated"));
        out.push((String::new(), "empty"));
    }
    out.push((format!("{pw}x"), "extended"));
    out.push((format!("{pw} "), "trailing-space"));
    out.push((format!("{pw}\0"), "trailing-nul"));
    out.push((format!("w{}", rng.below(1_000_000)), "wrong-random"));
    out
}

fn reverse_case(acc: &mut Acc, rng: &mut Rng, py: &mut PyGen, argon: bool, strong: bool) -> Result<(), String> {
    let policy = if strong { CryptoPolicy::minimum() } else { CryptoPolicy::danger_test_minimum() };
    let clear = rust_cleartext(rng);
    let fmt = if argon { "generated-argon2id" } else { "generated-pbkdf2-sha256" };
    let pw = if argon { Password::new_argon2id(&policy, &clear) } else { Password::new_pbkdf2(&policy, &clear) };
    let pw = match pw {
        Ok(p) => p,
        Err(e) => {
            acc.count(&format!("generate_err.{fmt}"));
            acc.observe("generate_errors", &format!("{e:?}"));
            return Ok(());
        }
    };
    acc.eval();
    let cands = rust_candidates(rng, &clear);
    let (req, params) = match pw.to_dbpasswordv1() {
        DbPasswordV1::ARGON2ID { m, t, p, v, s, k } => {
            let s: Vec<u8> = s.into();
            let k: Vec<u8> = k.into();
            let params = json!({"m": m, "t": t, "p": p, "v": v, "salt_len": s.len(), "key_len": k.len()});
            (
                json!({"kind": "argon2id", "m": m, "t": t, "p": p, "v": v, "salt": hex::encode(&s), "key": hex::encode(&k),
                       "cands": cands.iter().map(|c| c.0.clone()).collect::<Vec<_>>()}),
                params,
            )
        }
        DbPasswordV1::PBKDF2(cost, s, k) => {
            let params = json!({"cost": cost, "salt_len": s.len(), "key_len": k.len()});
            (
                json!({"kind": "pbkdf2-sha256", "cost": cost, "salt": hex::encode(&s), "key": hex::encode(&k),
                       "cands": cands.iter().map(|c| c.0.clone()).collect::<Vec<_>>()}),
                params,
            )
        }
        other => {
            acc.inconclusive(&format!("kanidm generated an unexpected stored form {other:?}"));
            return Ok(());
        }
    };
    py.send(&req)?;
    let ans = py.next().ok_or("reference verifier closed its output")??;
    let accepts = ans["accept"].as_array().ok_or("reference verifier: malformed answer")?;
    if accepts.len() != cands.len() {
        return Err("reference verifier: wrong number of verdicts".into());
    }
    acc.count(&format!("imported.{fmt}"));
    let stored = format!("{fmt} {params}");
    let mut right_ok = false;
    for ((cand, kind), want) in cands.iter().zip(accepts.iter()) {
        let want = want.as_bool().unwrap_or(false);
        let got = kanidm_verdict(acc, &pw, cand);
        judge(acc, fmt, &stored, &params, cand, kind, want, got);
        if *kind == "right" && got && want {
            right_ok = true;
        }
    }
    if right_ok {
        acc.count(&format!("right_accepted.{fmt}"));
    }
    acc.nontrivial(&format!("{}|{}", req["salt"], req["key"]));
    if acc.samples.len() < 5 && acc.evaluations % 29 == 3 {
        acc.sample(json!({"direction": "reverse", "format": fmt, "params": params, "cleartext": short(&clear),
                          "reference_verdicts": accepts}));
    }
    Ok(())
}

pub fn run(args: Args) {
    let mut run = Run::new(
        args.clone(),
        "exploration",
        "forward: one case = a stored password produced by an independent implementation (20 import syntaxes: Django, OpenLDAP and 389-DS PBKDF2 with SHA1/256/512, {ARGON2}, SHA/SSHA families, ipaNTHash, sambaNTPassword, crypt $1$/$5$/$6$) from a random cleartext (empty, 1 byte, ASCII, non-ASCII incl. non-BMP and combining marks, up to 512 bytes, 513-1024 bytes), random salt and cost, with 4-11 candidate cleartexts (right, case flip, truncated, extended, trailing space / NUL, NFC / NFD form, empty, random) each with the reference's verdict; reverse: kanidm-generated Argon2id / PBKDF2 checked by the reference; distinct by stored string",
    );
    run.assume("libxcrypt crypt(3), python hashlib, the pure-Python MD4 of pyref/c30_common.py and the OpenSSL 3.5 Argon2id KDF are correct implementations of their formats (the scripts self-check against published vectors at start)");
    run.assume("crypt(3) formats: cleartexts with NUL or over 512 bytes are not asked (libxcrypt refuses them)");
    let nw = args.workers.max(1) as u64;
    let per_format: u64 = args.tier.pick(160u64, 3200).div_ceil(nw);
    let rev_argon: u64 = args.tier.pick(160u64, 3200).div_ceil(nw);
    let rev_pbkdf2: u64 = args.tier.pick(160u64, 3200).div_ceil(nw);
    let seed = args.seed;
    run.parallel(args.workers, |w, n| {
        let mut acc = Acc::new();
        // forward
        match PyGen::spawn("c30_gen.py", &[seed.to_string(), w.to_string(), n.to_string(), per_format.to_string()], false) {
            Ok(mut gen) => {
                while let Some(line) = gen.next() {
                    match line {
                        Ok(v) => forward_case(&mut acc, &v),
                        Err(e) => acc.inconclusive(&e),
                    }
                }
                if let Err(e) = gen.finish() {
                    acc.inconclusive(&e);
                }
            }
            Err(e) => acc.inconclusive(&e),
        }
        // reverse
        let mut rng = Rng::new(kvcore::rng::mix(seed, w as u64, 3000));
        match PyGen::spawn("c30_verify.py", &[], true) {
            Ok(mut py) => {
                let mut res = Ok(());
                for i in 0..rev_argon {
                    if res.is_ok() {
                        res = reverse_case(&mut acc, &mut rng, &mut py, true, i % 6 == 5);
                    }
                }
                for i in 0..rev_pbkdf2 {
                    if res.is_ok() {
                        res = reverse_case(&mut acc, &mut rng, &mut py, false, i % 10 == 9);
                    }
                }
                if let Err(e) = res {
                    acc.inconclusive(&e);
                }
                if let Err(e) = py.finish() {
                    acc.inconclusive(&e);
                }
            }
            Err(e) => acc.inconclusive(&e),
        }
        acc
    });
    run.extra("forward_cases_per_format_per_worker", json!(per_format));
    run.extra("reverse_cases_per_worker", json!({"argon2id": rev_argon, "pbkdf2": rev_pbkdf2}));

    let c = run.acc.counters.clone();
    let g = |k: &str| c.get(k).copied().unwrap_or(0);
    for f in FORMATS {
        let want = per_format * nw;
        let min = want * 8 / 10;
        run.require(
            g(&format!("imported.{f}")) >= min,
            &format!("format {f}: only {} of {want} reference hashes were imported (< {min})", g(&format!("imported.{f}"))),
        );
    }
    run.require(g("imported.generated-argon2id") >= rev_argon * nw * 8 / 10, "too few kanidm-generated argon2id passwords checked");
    run.require(g("imported.generated-pbkdf2-sha256") >= rev_pbkdf2 * nw * 8 / 10, "too few kanidm-generated pbkdf2 passwords checked");
    run.require(g("agree.accept") >= 100 && g("agree.reject") >= 100, "both verdicts must be observed at least 100 times");
    for k in ["case-flip", "truncated", "extended", "trailing-space", "trailing-nul", "nfc-form", "nfd-form", "empty", "wrong-random"] {
        run.require(g(&format!("candidate.{k}.reference_rejects")) > 0, &format!("near-miss kind {k} never exercised"));
    }
    for k in ["empty", "one-byte", "ascii", "non-ascii", "long-up-to-512-bytes", "long-513-to-1024-bytes"] {
        run.require(g(&format!("cleartext.{k}")) > 0, &format!("cleartext class {k} never exercised"));
    }
    run.finish();
}
