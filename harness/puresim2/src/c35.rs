//! C35 Account policy resolution is order-independent and strictest.
//!
//! Real code: `ResolvedAccountPolicy::fold_from` through the hook `verif::accountpolicy::fold`.
//! Oracle (from the statement, nothing from the implementation):
//!   * every permutation of the same multiset of group policies resolves to the identical result;
//!   * result.privilege_expiry / authsession_expiry <= each input's;
//!   * result.pw_min_length >= each input's, result.credential_policy >= each input's;
//!   * the set of (attestation CA, device) pairs trusted by the result is contained in the set trusted
//!     by every input that carries a list, and is exactly their intersection (a CA without device list
//!     trusts every device of that CA); no list at all only if no input carries one;
//!   * if the resolved credential type minimum does not require MFA (below `Mfa`), the resolved minimum
//!     password length is at least the NIST SP800-63B single factor minimum, 15.

use crate::capem::{CA_ROOT_A, CA_ROOT_B};
use kanidmd_lib::value::CredentialType;
use kanidmd_lib::verif::accountpolicy::{fold, PlainPolicy, PlainResolved};
use kvcore::{Acc, Args, Rng, Run};
use serde_json::json;
use std::collections::{BTreeMap, BTreeSet};
use uuid::Uuid;
use webauthn_rs::prelude::{AttestationCaList, AttestationCaListBuilder};

/// Single factor minimum length, NIST SP800-63B (the statement's "single-factor minimum length").
const SFA_MIN: u32 = 15;

const CRED_TYPES: &[CredentialType] = &[
    CredentialType::Any,
    CredentialType::External,
    CredentialType::Mfa,
    CredentialType::Passkey,
    CredentialType::AttestedPasskey,
    CredentialType::AttestedResidentkey,
    CredentialType::Invalid,
];

/// Independent strictness rank of the credential types: the order the product documents
/// (any < external < mfa < passkey < attested passkey < attested resident key < invalid).
fn rank(c: CredentialType) -> u32 {
    match c {
        CredentialType::Any => 0,
        CredentialType::External => 1,
        CredentialType::Mfa => 2,
        CredentialType::Passkey => 3,
        CredentialType::AttestedPasskey => 4,
        CredentialType::AttestedResidentkey => 5,
        CredentialType::Invalid => 6,
    }
}
const RANK_MFA: u32 = 2;

// ---- attestation lists: a description we control, and the semantic reading of a real list

/// per CA (0 = A, 1 = B): None = CA absent, Some(empty) = blanket (all devices), Some(set) = devices
type CaDesc = [Option<BTreeSet<u8>>; 2];

fn aaguid(i: u8) -> Uuid {
    Uuid::from_u128(0xaaaa_0000_0000_4000_8000_0000_0000_0000u128 + i as u128)
}

fn build_list(d: &CaDesc) -> AttestationCaList {
    let mut b = AttestationCaListBuilder::new();
    for (ci, pem) in [CA_ROOT_A, CA_ROOT_B].iter().enumerate() {
        if let Some(devs) = &d[ci] {
            for dev in devs {
                b.insert_device_pem(pem, aaguid(*dev), format!("device-{dev}"), BTreeMap::new())
                    .expect("pem");
            }
        }
    }
    let mut list = b.build();
    for (ci, pem) in [CA_ROOT_A, CA_ROOT_B].iter().enumerate() {
        if let Some(devs) = &d[ci] {
            if devs.is_empty() {
                // blanket CA: the one-CA list parsed from the PEM is a blanket allow
                let one = AttestationCaList::try_from(*pem).expect("pem");
                for ca in one.cas().values() {
                    list.insert(ca.clone()).expect("insert");
                }
            }
        }
    }
    list
}

/// Semantic reading of a real list: CA key -> None (every device) | Some(devices)
type Trust = BTreeMap<String, Option<BTreeSet<Uuid>>>;

fn trust_of(l: &AttestationCaList) -> Trust {
    l.cas()
        .iter()
        .map(|(k, ca)| {
            let key = format!("{k:?}");
            if ca.blanket_allow() {
                (key, None)
            } else {
                (key, Some(ca.aaguids().keys().copied().collect()))
            }
        })
        .filter(|(_, v)| v.as_ref().map(|s: &BTreeSet<Uuid>| !s.is_empty()).unwrap_or(true))
        .collect()
}

fn trust_intersect(a: &Trust, b: &Trust) -> Trust {
    let mut out = Trust::new();
    for (k, va) in a {
        if let Some(vb) = b.get(k) {
            let v = match (va, vb) {
                (None, None) => None,
                (None, Some(s)) | (Some(s), None) => Some(s.clone()),
                (Some(x), Some(y)) => Some(x.intersection(y).copied().collect()),
            };
            if v.as_ref().map(|s: &BTreeSet<Uuid>| !s.is_empty()).unwrap_or(true) {
                out.insert(k.clone(), v);
            }
        }
    }
    out
}

fn trust_subset(a: &Trust, b: &Trust) -> bool {
    a.iter().all(|(k, va)| match (va, b.get(k)) {
        (_, None) => false,
        (_, Some(None)) => true,
        (None, Some(Some(_))) => false,
        (Some(x), Some(Some(y))) => x.is_subset(y),
    })
}

// ---- the oracle

fn show(p: &PlainPolicy) -> serde_json::Value {
    json!({"privilege_expiry": p.privilege_expiry, "authsession_expiry": p.authsession_expiry,
           "pw_min_length": p.pw_min_length, "credential_policy": format!("{:?}", p.credential_policy),
           "ca_list": p.webauthn_att_ca_list.as_ref().map(|l| format!("{:?}", trust_of(l).values().collect::<Vec<_>>())),
           "limits": [p.limit_search_max_filter_test, p.limit_search_max_results],
           "fallback": p.allow_primary_cred_fallback})
}

fn show_r(r: &PlainResolved) -> serde_json::Value {
    json!({"privilege_expiry": r.privilege_expiry, "authsession_expiry": r.authsession_expiry,
           "pw_min_length": r.pw_min_length, "pw_max_length": r.pw_max_length,
           "credential_policy": format!("{:?}", r.credential_policy),
           "ca_list": r.webauthn_att_ca_list.as_ref().map(|l| format!("{:?}", trust_of(l).values().collect::<Vec<_>>())),
           "limits": [r.limit_search_max_filter_test, r.limit_search_max_results],
           "fallback": r.allow_primary_cred_fallback})
}

fn judge_strictness(acc: &mut Acc, input: &[PlainPolicy], r: &PlainResolved) {
    let wit = |why: &str| json!({"inputs": input.iter().map(show).collect::<Vec<_>>(), "resolved": show_r(r), "why": why});
    let mut exact = true;
    for p in input {
        if r.privilege_expiry > p.privilege_expiry {
            acc.violation("c35/privilege-expiry-longer-than-an-input", wit("resolved privilege expiry exceeds a group's"));
        }
        if r.authsession_expiry > p.authsession_expiry {
            acc.violation("c35/session-expiry-longer-than-an-input", wit("resolved session expiry exceeds a group's"));
        }
        if r.pw_min_length < p.pw_min_length {
            acc.violation("c35/min-password-length-shorter-than-an-input", wit("resolved minimum password length below a group's"));
        }
        if rank(r.credential_policy) < rank(p.credential_policy) {
            acc.violation("c35/credential-type-weaker-than-an-input", wit("resolved credential type minimum below a group's"));
        }
    }
    // tightness is not demanded by the statement: counted only
    if !input.is_empty() {
        let minp = input.iter().map(|p| p.privilege_expiry).min().unwrap_or(0);
        let maxl = input.iter().map(|p| p.pw_min_length).max().unwrap_or(0);
        if r.privilege_expiry != minp || (r.pw_min_length != maxl && r.pw_min_length != SFA_MIN) {
            exact = false;
        }
    }
    acc.count(if exact { "resolved_exactly_min_max_or_default" } else { "resolved_stricter_than_inputs_not_judged" });

    // attestation lists
    let lists: Vec<Trust> = input.iter().filter_map(|p| p.webauthn_att_ca_list.as_ref().map(trust_of)).collect();
    match (&r.webauthn_att_ca_list, lists.is_empty()) {
        (None, true) => acc.count("ca.none_in_none_out"),
        (Some(_), true) => acc.count("ca.list_from_no_input_not_judged"),
        (None, false) => acc.violation(
            "c35/ca-list-dropped",
            wit("some group restricts attestation CAs but the resolved policy has no list (trusts more than that group)"),
        ),
        (Some(rl), false) => {
            let rt = trust_of(rl);
            let mut want = lists[0].clone();
            for l in &lists[1..] {
                want = trust_intersect(&want, l);
            }
            let mut bad = false;
            for l in &lists {
                if !trust_subset(&rt, l) {
                    bad = true;
                }
            }
            if bad {
                acc.violation("c35/ca-list-trusts-more-than-an-input", wit("resolved list trusts a CA/device some group does not"));
            } else if rt != want {
                acc.violation("c35/ca-list-smaller-than-intersection", wit("resolved list is not the intersection of the groups' lists"));
            } else if lists.len() >= 2 {
                acc.count(if want.is_empty() { "ca.intersection_empty" } else { "ca.intersection_nonempty" });
            } else {
                acc.count("ca.single_list");
            }
        }
    }

    // single factor rule
    if rank(r.credential_policy) < RANK_MFA {
        acc.count("sfa.mfa_not_required");
        if r.pw_min_length < SFA_MIN {
            acc.violation(
                "c35/sfa-minimum-length-not-enforced",
                wit("MFA is not required by the resolved policy but the minimum password length is below 15"),
            );
        }
    } else {
        acc.count("sfa.mfa_required");
    }
}

fn for_each_permutation<T: Clone>(xs: &[T], f: &mut dyn FnMut(&[T])) {
    // Heap's algorithm, iterative
    let mut a: Vec<T> = xs.to_vec();
    let n = a.len();
    let mut c = vec![0usize; n];
    f(&a);
    let mut i = 0;
    while i < n {
        if c[i] < i {
            if i % 2 == 0 {
                a.swap(0, i);
            } else {
                a.swap(c[i], i);
            }
            f(&a);
            c[i] += 1;
            i = 0;
        } else {
            c[i] = 0;
            i += 1;
        }
    }
}

/// One case: a multiset of policies. Folds every permutation with the real code.
fn check_multiset(acc: &mut Acc, input: &[PlainPolicy], enumerated: bool, key: &str) {
    acc.eval();
    let base = fold(input);
    judge_strictness(acc, input, &base);
    let mut perms = 0u64;
    let mut differing: Option<(Vec<PlainPolicy>, PlainResolved)> = None;
    for_each_permutation(input, &mut |p| {
        perms += 1;
        if differing.is_none() {
            let r = fold(p);
            if r != base {
                differing = Some((p.to_vec(), r));
            }
        }
    });
    acc.count_n("permutations_folded", perms);
    let distinct = input.iter().any(|p| p != &input[0]);
    if distinct {
        if enumerated {
            acc.nontrivial_distinct();
        } else {
            acc.nontrivial(key);
        }
        acc.count(&format!("multiset_size_{}", input.len()));
    } else {
        acc.count("trivial_all_equal_or_empty");
    }
    if let Some((p, r)) = differing {
        // cause class: which field differs
        let field = if r.privilege_expiry != base.privilege_expiry {
            "privilege-expiry"
        } else if r.authsession_expiry != base.authsession_expiry {
            "session-expiry"
        } else if r.pw_min_length != base.pw_min_length {
            "min-password-length"
        } else if r.credential_policy != base.credential_policy {
            "credential-type"
        } else if r.webauthn_att_ca_list != base.webauthn_att_ca_list {
            "ca-list"
        } else if r.limit_search_max_filter_test != base.limit_search_max_filter_test
            || r.limit_search_max_results != base.limit_search_max_results
        {
            "search-limits"
        } else if r.allow_primary_cred_fallback != base.allow_primary_cred_fallback {
            "primary-cred-fallback"
        } else {
            "other"
        };
        acc.violation(
            &format!("c35/order-dependent/{field}"),
            json!({"order_1": input.iter().map(show).collect::<Vec<_>>(), "resolved_1": show_r(&base),
                   "order_2": p.iter().map(show).collect::<Vec<_>>(), "resolved_2": show_r(&r),
                   "why": "two orders of the same group policies resolve differently"}),
        );
    } else if acc.samples.len() < 3 && distinct && acc.evaluations % 1013 == 7 {
        acc.sample(json!({"inputs": input.iter().map(show).collect::<Vec<_>>(), "resolved": show_r(&base), "permutations": perms}));
    }
}

// ---- generators

const U32_GRID: &[u32] = &[0, 1, 9, 10, 11, 14, 15, 16, 3600, 86400, u32::MAX - 1, u32::MAX];

fn ca_options() -> Vec<Option<AttestationCaList>> {
    // per CA: absent, blanket, {0}, {1}, {0,1}, {2}
    let per: Vec<Option<BTreeSet<u8>>> = vec![
        None,
        Some(BTreeSet::new()),
        Some([0u8].into_iter().collect()),
        Some([1u8].into_iter().collect()),
        Some([0u8, 1].into_iter().collect()),
        Some([2u8].into_iter().collect()),
    ];
    let mut out = vec![None];
    for a in &per {
        for b in &per {
            out.push(Some(build_list(&[a.clone(), b.clone()])));
        }
    }
    out
}

fn base_policy(rng: &mut Rng, cas: &[Option<AttestationCaList>]) -> PlainPolicy {
    let lim = |rng: &mut Rng| match rng.below(4) {
        0 => None,
        1 => Some(0),
        2 => Some(rng.below(1000)),
        _ => Some(u32::MAX as u64),
    };
    PlainPolicy {
        privilege_expiry: if rng.chance(2, 3) { *rng.pick(U32_GRID) } else { rng.next() as u32 },
        authsession_expiry: if rng.chance(2, 3) { *rng.pick(U32_GRID) } else { rng.next() as u32 },
        pw_min_length: if rng.chance(3, 4) { *rng.pick(U32_GRID) } else { rng.below(40) as u32 },
        credential_policy: *rng.pick(CRED_TYPES),
        webauthn_att_ca_list: if rng.chance(1, 2) { None } else { rng.pick(cas).clone() },
        limit_search_max_filter_test: lim(rng),
        limit_search_max_results: lim(rng),
        allow_primary_cred_fallback: *rng.pick(&[None, Some(true), Some(false)]),
    }
}

/// All multisets (non decreasing index tuples) of size `k` over `n` options.
fn multisets(n: usize, k: usize) -> Vec<Vec<usize>> {
    fn rec(n: usize, k: usize, start: usize, cur: &mut Vec<usize>, out: &mut Vec<Vec<usize>>) {
        if cur.len() == k {
            out.push(cur.clone());
            return;
        }
        for i in start..n {
            cur.push(i);
            rec(n, k, i, cur, out);
            cur.pop();
        }
    }
    let mut out = Vec::new();
    rec(n, k, 0, &mut Vec::new(), &mut out);
    out
}

pub fn run(args: Args) {
    let mut run = Run::new(
        args.clone(),
        "exploration",
        "one case = a multiset of group policies, every permutation folded by the real code; exhaustive families: all multisets of size <= 3 over (a) expiry pairs on a boundary grid, (b) credential type x minimum length grid, (c) 37 attestation CA lists x fallback flag; random multisets of size 2..5 (120 permutations at 5) over boundary-heavy values; non-trivial = at least two different policies in the multiset",
    );
    run.assume("verif::accountpolicy::fold copies plain values into AccountPolicy and calls ResolvedAccountPolicy::fold_from unchanged");
    run.assume("device descriptions are kept identical per (CA, aaguid): descriptive text differences between orders are not generated");
    let cas = ca_options();
    let workers = args.workers;
    let seed = args.seed;
    let thorough = args.tier == kvcore::Tier::Thorough;

    // ---- exhaustive families
    let neutral = |rng: &mut Rng| PlainPolicy {
        privilege_expiry: rng.next() as u32,
        authsession_expiry: rng.next() as u32,
        pw_min_length: rng.below(30) as u32,
        credential_policy: *rng.pick(CRED_TYPES),
        webauthn_att_ca_list: None,
        limit_search_max_filter_test: None,
        limit_search_max_results: None,
        allow_primary_cred_fallback: None,
    };
    let mut fam_a: Vec<PlainPolicy> = Vec::new();
    let mut fam_b: Vec<PlainPolicy> = Vec::new();
    let mut fam_c: Vec<PlainPolicy> = Vec::new();
    {
        let mut rng = Rng::new(kvcore::rng::mix(seed, 0, 3500));
        let eg: &[u32] = if thorough { &[0, 1, 3600, 86400, u32::MAX - 1, u32::MAX] } else { &[0, 1, 3600, u32::MAX] };
        for a in eg {
            for b in eg {
                let mut p = neutral(&mut rng);
                p.privilege_expiry = *a;
                p.authsession_expiry = *b;
                fam_a.push(p);
            }
        }
        let lg: &[u32] = if thorough { &[0, 1, 9, 10, 11, 14, 15, 16, u32::MAX] } else { &[0, 10, 14, 15, 16, u32::MAX] };
        for c in CRED_TYPES {
            for l in lg {
                let mut p = neutral(&mut rng);
                p.credential_policy = *c;
                p.pw_min_length = *l;
                fam_b.push(p);
            }
        }
        for (i, ca) in cas.iter().enumerate() {
            let mut p = neutral(&mut rng);
            p.webauthn_att_ca_list = ca.clone();
            p.allow_primary_cred_fallback = [None, Some(true), Some(false)][i % 3];
            p.limit_search_max_results = [None, Some(5), Some(9)][(i / 3) % 3];
            fam_c.push(p);
        }
    }
    let fams: Vec<(&str, &Vec<PlainPolicy>)> = vec![("expiry", &fam_a), ("credtype-minlen", &fam_b), ("ca-list", &fam_c)];
    let mut work: Vec<(usize, Vec<usize>)> = Vec::new();
    for (fi, (_, f)) in fams.iter().enumerate() {
        for k in 0..=3 {
            for m in multisets(f.len(), k) {
                work.push((fi, m));
            }
        }
    }
    run.extra("exhaustive_multisets", json!(work.len()));
    run.extra(
        "exhaustive_family_sizes",
        json!(fams.iter().map(|(n, f)| json!({"family": n, "policies": f.len()})).collect::<Vec<_>>()),
    );
    {
        let work = &work;
        let fams = &fams;
        run.parallel(workers, |w, n| {
            let mut acc = Acc::new();
            let mut i = w;
            while i < work.len() {
                let (fi, m) = &work[i];
                let input: Vec<PlainPolicy> = m.iter().map(|j| fams[*fi].1[*j].clone()).collect();
                check_multiset(&mut acc, &input, true, "");
                acc.count(&format!("family.{}", fams[*fi].0));
                i += n;
            }
            acc
        });
    }

    // ---- random multisets, sizes 2..=5, all permutations
    let nrand: u64 = args.tier.pick(40_000, 3_000_000);
    {
        let cas = &cas;
        run.parallel(workers, |w, n| {
            let mut acc = Acc::new();
            let mut rng = Rng::new(kvcore::rng::mix(seed, w as u64, 3501));
            for _ in 0..(nrand / n as u64) {
                let k = *rng.pick(&[2usize, 3, 4, 5, 5, 5]);
                let mut input: Vec<PlainPolicy> = (0..k).map(|_| base_policy(&mut rng, cas)).collect();
                // real multisets: sometimes repeat a member
                if rng.chance(1, 4) {
                    let a = rng.usize(k);
                    let b = rng.usize(k);
                    input[a] = input[b].clone();
                }
                let key = format!("{:?}", input.iter().map(show).collect::<Vec<_>>());
                check_multiset(&mut acc, &input, false, &key);
            }
            acc
        });
    }
    run.extra("random_multisets", json!(nrand));

    let c = run.acc.counters.clone();
    let g = |k: &str| c.get(k).copied().unwrap_or(0);
    for (cond, why) in [
        (g("multiset_size_5") >= 1000, "fewer than 1000 non-trivial multisets of size 5"),
        (g("multiset_size_2") > 0 && g("multiset_size_3") > 0 && g("multiset_size_4") > 0, "multiset sizes 2,3,4 not all exercised"),
        (g("sfa.mfa_not_required") >= 100 && g("sfa.mfa_required") >= 100, "single factor rule: both branches need >= 100 cases"),
        (g("ca.intersection_nonempty") >= 100 && g("ca.intersection_empty") >= 100, "CA intersection: empty and non-empty results need >= 100 cases each"),
        (g("ca.none_in_none_out") > 0 && g("ca.single_list") > 0, "CA list none/single cases not exercised"),
        (g("permutations_folded") >= 100_000, "fewer than 100000 permutations folded"),
    ] {
        run.require(cond, why);
    }
    run.finish();
}
