//! puresim2: enumeration / random differential testing of pure components against reference
//! models (second half of the `puresim` engine of /verif/DESIGN.md section 2).
#[macro_use]
extern crate kanidmd_lib;

mod c21;
mod capem;
mod c28;
mod c29;
mod c30;
mod c35;
mod c45;
mod pyref;

fn main() {
    let args = kvcore::parse_args();
    match args.prop.as_str() {
        "C21" => c21::run(args),
        "C28" => c28::run(args),
        "C29" => c29::run(args),
        "C30" => c30::run(args),
        "C35" => c35::run(args),
        "C45" => c45::run(args),
        p => {
            println!("INCONCLUSIVE property={p} reason=puresim2 does not serve this property");
            std::process::exit(2);
        }
    }
}
