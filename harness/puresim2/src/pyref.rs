//! Running the independent python reference generators under $VERIF_ROOT/pyref and reading their
//! JSON-lines output.

use serde_json::Value;
use std::io::{BufRead, BufReader, Write};
use std::path::PathBuf;
use std::process::{Child, ChildStdin, ChildStdout, Command, Stdio};

pub fn script(name: &str) -> PathBuf {
    kvcore::run::verif_root().join("pyref").join(name)
}

/// The real interpreter behind `python3` on PATH, resolved once per process ($VERIF_PYTHON wins).
/// Shim launchers (pyenv) fork dozens of shell processes per start; resolving once avoids that.
pub fn python() -> PathBuf {
    static PY: std::sync::OnceLock<PathBuf> = std::sync::OnceLock::new();
    PY.get_or_init(|| {
        if let Ok(p) = std::env::var("VERIF_PYTHON") {
            return PathBuf::from(p);
        }
        let out = Command::new("python3")
            .args(["-c", "import sys; print(sys.executable)"])
            .stdin(Stdio::null())
            .stderr(Stdio::null())
            .output();
        if let Ok(o) = out {
            let s = String::from_utf8_lossy(&o.stdout).trim().to_string();
            if o.status.success() && !s.is_empty() && std::path::Path::new(&s).exists() {
                return PathBuf::from(s);
            }
        }
        PathBuf::from("python3")
    })
    .clone()
}

/// One-directional generator: `python3 <script> args..`, lines of JSON on stdout.
pub struct PyGen {
    child: Child,
    out: BufReader<ChildStdout>,
    stdin: Option<ChildStdin>,
}

impl PyGen {
    pub fn spawn(name: &str, args: &[String], with_stdin: bool) -> Result<PyGen, String> {
        let p = script(name);
        if !p.exists() {
            return Err(format!("reference script {} is missing", p.display()));
        }
        let mut child = Command::new(python())
            .arg("-B")
            .arg("-W")
            .arg("ignore")
            .arg(&p)
            .args(args)
            .stdin(if with_stdin { Stdio::piped() } else { Stdio::null() })
            .stdout(Stdio::piped())
            .stderr(Stdio::inherit())
            .spawn()
            .map_err(|e| format!("cannot start python3 {}: {e}", p.display()))?;
        let out = child.stdout.take().ok_or("no stdout")?;
        let stdin = child.stdin.take();
        Ok(PyGen {
            child,
            out: BufReader::with_capacity(1 << 20, out),
            stdin,
        })
    }

    /// Next JSON line, None at end of stream.
    pub fn next(&mut self) -> Option<Result<Value, String>> {
        let mut line = String::new();
        match self.out.read_line(&mut line) {
            Ok(0) => None,
            Ok(_) => Some(serde_json::from_str(line.trim_end()).map_err(|e| format!("bad JSON from reference: {e}"))),
            Err(e) => Some(Err(format!("read from reference failed: {e}"))),
        }
    }

    /// Send one JSON line to the script's stdin.
    pub fn send(&mut self, v: &Value) -> Result<(), String> {
        let s = self.stdin.as_mut().ok_or("stdin not piped")?;
        let mut line = v.to_string();
        line.push('\n');
        s.write_all(line.as_bytes()).map_err(|e| e.to_string())?;
        s.flush().map_err(|e| e.to_string())
    }

    /// Close stdin (if any) and wait; Err if the script failed.
    pub fn finish(mut self) -> Result<(), String> {
        drop(self.stdin.take());
        match self.child.wait() {
            Ok(st) if st.success() => Ok(()),
            Ok(st) => Err(format!("reference script exited with {st}")),
            Err(e) => Err(format!("wait failed: {e}")),
        }
    }
}

pub fn unhex(s: &str) -> Vec<u8> {
    hex::decode(s).unwrap_or_default()
}

/// Record a violation, but keep at most three witnesses per signature and worker so that a frequent
/// (possibly known) finding can never crowd a different one out of the accumulator's cap.
pub fn report(acc: &mut kvcore::Acc, sig: &str, detail: Value) {
    let key = format!("violations.{sig}");
    if acc.get(&key) < 3 {
        acc.violation(sig, detail);
    }
    acc.count(&key);
}
