//! C45 Host login requires membership of an allowed group.
//!
//! Real code: `KanidmProvider::unix_user_authorise` (resolver_common/src/idprovider/kanidm.rs), reached
//! through the public constructor `KanidmProvider::new` (in-memory cache db, soft TPM, a client that is
//! never used) and the public `IdProvider` trait. The allowed-group list is fixed per provider, so one
//! provider is built per generated list and driven with many generated user tokens.
//!
//! Oracle (statement): login allowed  <=>  token.valid && list non-empty && some group of the token is in
//! the list by name or by uuid.
//!   * must-allow uses the narrow reading (entry equals the group's name or its hyphenated lower-case
//!     uuid); may-allow uses the widest reasonable reading (case-insensitive name / spn / any uuid
//!     notation). "allowed && !may-allow" and "must-allow && denied" are violations; what lies between
//!     the two readings is counted, not judged.

use kvcore::{Acc, Args, Rng, Run};
use serde_json::json;
use sparkle_resolver_common::db::{Cache, Db};
use sparkle_resolver_common::idprovider::interface::tpm::provider::{BoxedDynTpm, SoftTpm, Tpm};
use sparkle_resolver_common::idprovider::interface::tpm::AuthValue;
use sparkle_resolver_common::idprovider::interface::unix_common::unix_config::KanidmConfig;
use sparkle_resolver_common::idprovider::interface::{GroupToken, IdProvider, ProviderOrigin, UserToken};
use sparkle_resolver_common::idprovider::kanidm::KanidmProvider;
use std::time::SystemTime;
use uuid::Uuid;

#[derive(Clone, Debug)]
struct G {
    name: String,
    spn: String,
    uuid: Uuid,
}

fn pool(rng: &mut Rng) -> Vec<G> {
    let mut v: Vec<G> = Vec::new();
    for i in 0..10 {
        let name = match i {
            0 => "idm_admins".to_string(),
            1 => "posix-users".to_string(),
            2 => "g".to_string(),
            _ => format!("grp{}{}", i, rng.below(1000)),
        };
        v.push(G { spn: format!("{name}@example.com"), name, uuid: rng.uuid() });
    }
    // a group whose *name* looks like the uuid of another group, and one named like a spn
    let other = v[3].uuid;
    v.push(G { name: other.hyphenated().to_string(), spn: format!("{}@example.com", other.hyphenated()), uuid: rng.uuid() });
    v.push(G { name: "looks@like.spn".to_string(), spn: "looks@like.spn@example.com".to_string(), uuid: rng.uuid() });
    v
}

fn variants(g: &G, rng: &mut Rng) -> String {
    match rng.below(14) {
        0..=2 => g.name.clone(),
        3..=4 => g.uuid.hyphenated().to_string(),
        5 => g.name.to_uppercase(),
        6 => g.uuid.hyphenated().to_string().to_uppercase(),
        7 => g.uuid.simple().to_string(),
        8 => g.uuid.urn().to_string(),
        9 => g.uuid.braced().to_string(),
        10 => g.spn.clone(),
        11 => g.spn.to_uppercase(),
        12 => format!(" {} ", g.name),
        _ => g.name.chars().take(g.name.len().saturating_sub(1)).collect(),
    }
}

fn exact(g: &GroupToken, entry: &str) -> bool {
    entry == g.name || entry == g.uuid.hyphenated().to_string()
}

fn generous(g: &GroupToken, entry: &str) -> bool {
    let e = entry.trim().to_lowercase();
    if e.is_empty() {
        return false;
    }
    e == g.name.to_lowercase()
        || e == g.spn.to_lowercase()
        || e == g.uuid.hyphenated().to_string()
        || e == g.uuid.simple().to_string()
        || e == g.uuid.urn().to_string()
        || e == g.uuid.braced().to_string()
}

fn mk_token(rng: &mut Rng, pool: &[G], list: &[String]) -> UserToken {
    let uname = format!("user{}", rng.below(50));
    let uuuid = rng.uuid();
    let mut groups: Vec<GroupToken> = Vec::new();
    let k = *rng.pick(&[0usize, 0, 1, 1, 2, 3, 5]);
    for _ in 0..k {
        let g = if rng.chance(4, 5) {
            rng.pick(pool).clone()
        } else {
            // a group outside the pool; sometimes named after a list entry's *uuid-looking* text
            let name = if !list.is_empty() && rng.chance(1, 3) {
                format!("x{}", rng.pick(list).trim())
            } else {
                format!("other{}", rng.below(100))
            };
            G { spn: format!("{name}@example.com"), name, uuid: rng.uuid() }
        };
        groups.push(GroupToken {
            provider: ProviderOrigin::Kanidm,
            name: g.name,
            spn: g.spn,
            uuid: g.uuid,
            gidnumber: 0x7000_0000 + rng.below(1000) as u32,
            extra_keys: Default::default(),
        });
    }
    UserToken {
        provider: ProviderOrigin::Kanidm,
        name: uname.clone(),
        spn: format!("{uname}@example.com"),
        uuid: uuuid,
        gidnumber: 0x7000_0000 + rng.below(1000) as u32,
        displayname: uname,
        shell: None,
        groups,
        sshkeys: Vec::new(),
        valid: rng.chance(3, 4),
        extra_keys: Default::default(),
    }
}

fn mk_list(rng: &mut Rng, pool: &[G], forced_empty: bool) -> Vec<String> {
    if forced_empty {
        return Vec::new();
    }
    let n = *rng.pick(&[1usize, 1, 2, 3, 5]);
    let mut v = Vec::new();
    for _ in 0..n {
        match rng.below(10) {
            0 => v.push(format!("unrelated{}", rng.below(10))),
            1 => v.push(String::new()),
            // the name / uuid / spn of a *user* rather than of a group
            2 => v.push(format!("user{}", rng.below(50))),
            _ => v.push(variants(rng.pick(pool), rng)),
        }
    }
    v
}

async fn worker(acc: &mut Acc, seed: u64, w: usize, lists: usize, tokens: usize) {
    let mut rng = Rng::new(kvcore::rng::mix(seed, w as u64, 4500));
    let db = match Db::new("") {
        Ok(d) => d,
        Err(e) => {
            acc.inconclusive(&format!("resolver cache db: {e:?}"));
            return;
        }
    };
    let mut hsm = BoxedDynTpm::new(SoftTpm::default());
    let Ok(auth_value) = AuthValue::ephemeral() else {
        acc.inconclusive("soft tpm auth value");
        return;
    };
    let Ok(lmk) = hsm.root_storage_key_create(&auth_value) else {
        acc.inconclusive("soft tpm root key create");
        return;
    };
    let Ok(machine_key) = hsm.root_storage_key_load(&auth_value, &lmk) else {
        acc.inconclusive("soft tpm root key load");
        return;
    };
    {
        let mut txn = db.write().await;
        if txn.migrate().is_err() {
            acc.inconclusive("resolver cache db migrate");
            return;
        }
        if txn.commit().is_err() {
            acc.inconclusive("resolver cache db commit");
            return;
        }
    }
    for li in 0..lists {
        let pool = pool(&mut rng);
        let list = mk_list(&mut rng, &pool, li % 5 == 0);
        let client = match kanidm_client::KanidmClientBuilder::new()
            .address("https://localhost:1".to_string())
            .enable_native_ca_roots(false)
            .no_proxy()
            .build()
        {
            Ok(c) => c,
            Err(e) => {
                acc.inconclusive(&format!("client build: {e:?}"));
                return;
            }
        };
        let cfg = KanidmConfig {
            conn_timeout: 1,
            request_timeout: 1,
            pam_allowed_login_groups: list.clone(),
            map_group: Vec::new(),
            service_account_token: None,
        };
        let provider = {
            let mut txn = db.write().await;
            let p = KanidmProvider::new(client, &cfg, SystemTime::now(), &mut (&mut txn).into(), &mut hsm, &machine_key).await;
            let _ = txn.commit();
            match p {
                Ok(p) => p,
                Err(e) => {
                    acc.inconclusive(&format!("KanidmProvider::new: {e:?}"));
                    return;
                }
            }
        };
        acc.count(if list.is_empty() { "lists.empty" } else { "lists.non_empty" });
        for _ in 0..tokens {
            let tok = mk_token(&mut rng, &pool, &list);
            let res = provider.unix_user_authorise(&tok).await;
            acc.eval();
            let any_exact = tok.groups.iter().any(|g| list.iter().any(|e| exact(g, e)));
            let any_generous = tok.groups.iter().any(|g| list.iter().any(|e| generous(g, e)));
            let must = tok.valid && !list.is_empty() && any_exact;
            let may = tok.valid && !list.is_empty() && any_generous;
            let wit = |why: &str| {
                json!({"allowed_login_groups": list, "token": {"name": tok.name, "valid": tok.valid,
                        "groups": tok.groups.iter().map(|g| json!({"name": g.name, "spn": g.spn, "uuid": g.uuid.to_string()})).collect::<Vec<_>>()},
                       "result": format!("{res:?}"), "why": why})
            };
            if !list.is_empty() && !tok.groups.is_empty() {
                acc.nontrivial(&format!("{list:?}|{}|{:?}", tok.valid, tok.groups.iter().map(|g| (&g.name, g.uuid)).collect::<Vec<_>>()));
            }
            match res {
                Ok(Some(true)) => {
                    if may {
                        acc.count(if must { "allowed.by_exact_name_or_uuid" } else { "allowed.by_wider_reading_not_judged" });
                        if must {
                            let by_uuid = tok.groups.iter().any(|g| list.iter().any(|e| *e == g.uuid.hyphenated().to_string()));
                            let by_name = tok.groups.iter().any(|g| list.iter().any(|e| *e == g.name));
                            if by_uuid {
                                acc.count("allowed.by_uuid");
                            }
                            if by_name {
                                acc.count("allowed.by_name");
                            }
                        }
                    } else {
                        let sig = if list.is_empty() {
                            "c45/allowed-with-empty-list"
                        } else if !tok.valid {
                            "c45/allowed-although-token-not-valid"
                        } else {
                            "c45/allowed-without-membership"
                        };
                        acc.violation(sig, wit("login allowed although the statement's condition does not hold"));
                    }
                }
                Ok(Some(false)) => {
                    if must {
                        acc.violation(
                            "c45/exact-member-denied",
                            wit("valid token, member by exact name or uuid of an allowed group, yet denied"),
                        );
                    } else if list.is_empty() {
                        acc.count("denied.empty_list");
                    } else if !tok.valid {
                        acc.count(if any_exact { "denied.invalid_token_although_member" } else { "denied.invalid_token" });
                    } else if may {
                        acc.count("denied.only_wider_reading_matches_not_judged");
                    } else {
                        acc.count("denied.not_a_member");
                    }
                }
                Ok(None) => acc.count("no_decision.none_not_judged"),
                Err(_) => acc.count("no_decision.err_not_judged"),
            }
            if acc.samples.len() < 4 && acc.evaluations % 499 == 3 {
                acc.sample(wit("sample"));
            }
        }
    }
}

pub fn run(args: Args) {
    let mut run = Run::new(
        args.clone(),
        "exploration",
        "one case = (allowed-login list, user token); lists of 0..5 entries drawn from group names, uuids in four notations, spns, case variants, padded / truncated names, user names, empty strings; tokens with 0..5 groups from the same pool or outside, uuid-looking group names, validity flag; non-trivial = list non-empty and token has groups; distinct by (list, validity, groups)",
    );
    run.assume("KanidmProvider::new stores config.pam_allowed_login_groups unchanged; the provider's client, TPM and cache are not consulted by unix_user_authorise");
    run.assume("Resolver::pam_account_allowed only forwards the token to this function (system accounts aside); it is not driven here");
    let lists: usize = args.tier.pick(128usize, 960).div_ceil(args.workers.max(1));
    let tokens: usize = args.tier.pick(4_000, 20_000);
    let seed = args.seed;
    run.parallel(args.workers, |w, _| {
        let mut acc = Acc::new();
        let rt = kvcore::srv::rt();
        rt.block_on(worker(&mut acc, seed, w, lists, tokens));
        acc
    });
    run.extra("lists_per_worker", json!(lists));
    run.extra("tokens_per_list", json!(tokens));
    let c = run.acc.counters.clone();
    let g = |k: &str| c.get(k).copied().unwrap_or(0);
    for (k, min) in [
        ("lists.empty", 10u64),
        ("lists.non_empty", 50),
        ("allowed.by_name", 500),
        ("allowed.by_uuid", 500),
        ("denied.empty_list", 500),
        ("denied.invalid_token_although_member", 500),
        ("denied.not_a_member", 500),
        ("denied.only_wider_reading_matches_not_judged", 100),
    ] {
        run.require(g(k) >= min, &format!("{k} observed {} times (< {min})", g(k)));
    }
    run.finish();
}
