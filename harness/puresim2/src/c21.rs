//! C21 POSIX ids never land in reserved ranges.
//!
//! Oracle (from the statement and the ranges the plugin's own comment marks as must-not-allocate):
//!   reserved = [0, 999] (operating system), 60001..=60577 (systemd-homed), 61184..=65519 (systemd
//!   dynamic users), 65534 (nobody), 65535 (16 bit sentinel).
//!   * a generated gid number equals 0x7000_0000 | (last four uuid bytes, big endian, & 0x0fff_ffff)
//!     - re-derived here from the documented rule "allocate inside 0x70000000..=0x7fffffff from the
//!     trailing uuid bytes" - and is outside reserved;
//!   * a supplied gid number inside reserved is refused with Err; outside reserved the outcome is
//!     counted, never judged (the code also refuses >= 0x8000_0000 and accepts the nspawn range).
//! Part 1 drives the real plugin rule through the hook `verif::gidnumber::gid_for` on in-memory
//! entries; part 2 drives creates / modifies / batch modifies of posix accounts and groups through a
//! real in-memory server and judges the *stored* gid number with the same oracle.

use kanidmd_lib::entry::{Entry, EntryInit, EntryNew};
use kanidmd_lib::prelude::*;
use kanidmd_lib::verif::gidnumber::gid_for;
use kvcore::{Acc, Args, Rng, Run};
use serde_json::json;

fn reserved(g: u32) -> Option<&'static str> {
    if g <= 999 {
        Some("os-0-999")
    } else if (60001..=60577).contains(&g) {
        Some("systemd-homed-60001-60577")
    } else if (61184..=65519).contains(&g) {
        Some("systemd-dynamic-61184-65519")
    } else if g == 65534 {
        Some("nobody-65534")
    } else if g == 65535 {
        Some("sentinel-65535")
    } else {
        None
    }
}

/// Independent statement of the generation rule.
fn expected_generated(u: Uuid) -> u32 {
    let tail = (u.as_u128() & 0xffff_ffff) as u32; // last four bytes, big endian
    0x7000_0000 | (tail & 0x0fff_ffff)
}

/// Every boundary of every range the plugin distinguishes (reserved or not).
const BOUNDARIES: &[u32] = &[
    0, 999, 1000, 60000, 60001, 60577, 60578, 61183, 61184, 65519, 65520, 65533, 65534, 65535,
    65536, 524287, 524288, 1879048191, 0x7000_0000, 0x7fff_ffff, 0x8000_0000, u32::MAX,
];

fn boundary_values() -> Vec<u32> {
    let mut v = Vec::new();
    for b in BOUNDARIES {
        for d in -2i64..=2 {
            let x = *b as i64 + d;
            if (0..=u32::MAX as i64).contains(&x) {
                v.push(x as u32);
            }
        }
    }
    v.sort();
    v.dedup();
    v
}

#[derive(Default)]
struct Tally {
    gen_ok: u64,
    gen_err: u64,
    sup_reserved_err: u64,
    sup_free_ok: u64,
    sup_free_err: u64,
    sup_altered: u64,
}

impl Tally {
    fn flush(&self, acc: &mut Acc) {
        acc.count_n("hook.generate.ok", self.gen_ok);
        acc.count_n("hook.generate.err", self.gen_err);
        acc.count_n("hook.supplied.reserved.err", self.sup_reserved_err);
        acc.count_n("hook.supplied.free.ok", self.sup_free_ok);
        acc.count_n("hook.supplied.free.err_not_judged", self.sup_free_err);
        acc.count_n("hook.supplied.altered_not_judged", self.sup_altered);
    }
}

fn check_generated(acc: &mut Acc, t: &mut Tally, uuid: Uuid, account: bool) {
    acc.evaluations += 1;
    acc.nontrivial_enum += 1;
    match gid_for(uuid, account, None) {
        Ok(Some(g)) => {
            t.gen_ok += 1;
            let want = expected_generated(uuid);
            if let Some(r) = reserved(g) {
                acc.violation(
                    &format!("c21/generated-in-reserved-range/{r}"),
                    json!({"uuid": uuid.to_string(), "posix_account": account, "generated": g,
                           "why": "a generated gid number lies in a reserved range"}),
                );
            } else if g != want {
                acc.violation(
                    "c21/generated-not-the-documented-function-of-uuid",
                    json!({"uuid": uuid.to_string(), "posix_account": account, "generated": g, "expected": want,
                           "why": "generated gid != 0x70000000 | (last 4 uuid bytes & 0x0fffffff)"}),
                );
            }
        }
        Ok(None) => acc.violation(
            "c21/posix-entry-left-without-gidnumber",
            json!({"uuid": uuid.to_string(), "posix_account": account,
                   "why": "the rule returned Ok but the posix entry carries no gid number"}),
        ),
        Err(_) => t.gen_err += 1,
    }
}

fn check_supplied(acc: &mut Acc, t: &mut Tally, uuid: Uuid, account: bool, g: u32) {
    acc.evaluations += 1;
    acc.nontrivial_enum += 1;
    let res = gid_for(uuid, account, Some(g));
    match (reserved(g), res) {
        (Some(_), Err(_)) => t.sup_reserved_err += 1,
        (Some(r), Ok(got)) => {
            // accepted: a violation unless the entry ended up with a non reserved number
            let still_reserved = got.map(|x| reserved(x).is_some()).unwrap_or(true);
            if still_reserved {
                acc.violation(
                    &format!("c21/supplied-reserved-accepted/{r}"),
                    json!({"uuid": uuid.to_string(), "posix_account": account, "supplied": g, "entry_gid_after": got,
                           "why": "a supplied gid number inside a reserved range was not refused"}),
                );
            } else {
                t.sup_altered += 1;
            }
        }
        (None, Ok(Some(x))) => {
            t.sup_free_ok += 1;
            if x != g {
                t.sup_altered += 1;
                if let Some(r) = reserved(x) {
                    acc.violation(
                        &format!("c21/supplied-replaced-by-reserved/{r}"),
                        json!({"uuid": uuid.to_string(), "posix_account": account, "supplied": g, "entry_gid_after": x}),
                    );
                }
            }
        }
        (None, Ok(None)) => acc.violation(
            "c21/posix-entry-left-without-gidnumber",
            json!({"uuid": uuid.to_string(), "posix_account": account, "supplied": g}),
        ),
        (None, Err(_)) => t.sup_free_err += 1,
    }
}

fn uuid_with_tail(prefix: u128, tail: u32) -> Uuid {
    Uuid::from_u128((prefix & !0xffff_ffffu128) | tail as u128)
}

// ---------------------------------------------------------------------------------------------
// part 2: the real server

struct Known {
    uuid: Uuid,
    posix: bool,
    account: bool,
}

fn mk_account(name: &str, uuid: Uuid, posix: bool, gid: Option<u32>) -> Entry<EntryInit, EntryNew> {
    let mut e: Entry<EntryInit, EntryNew> = entry_init!(
        (Attribute::Class, EntryClass::Object.to_value()),
        (Attribute::Class, EntryClass::Account.to_value()),
        (Attribute::Class, EntryClass::Person.to_value()),
        (Attribute::Name, Value::new_iname(name)),
        (Attribute::Uuid, Value::Uuid(uuid)),
        (Attribute::DisplayName, Value::new_utf8s(name))
    );
    if posix {
        e.add_ava(Attribute::Class, EntryClass::PosixAccount.to_value());
    }
    if let Some(g) = gid {
        e.add_ava(Attribute::GidNumber, Value::new_uint32(g));
    }
    e
}

fn mk_group(name: &str, uuid: Uuid, posix: bool, gid: Option<u32>) -> Entry<EntryInit, EntryNew> {
    let mut e: Entry<EntryInit, EntryNew> = entry_init!(
        (Attribute::Class, EntryClass::Object.to_value()),
        (Attribute::Class, EntryClass::Group.to_value()),
        (Attribute::Name, Value::new_iname(name)),
        (Attribute::Uuid, Value::Uuid(uuid))
    );
    if posix {
        e.add_ava(Attribute::Class, EntryClass::PosixGroup.to_value());
    }
    if let Some(g) = gid {
        e.add_ava(Attribute::GidNumber, Value::new_uint32(g));
    }
    e
}

/// Supplied numbers: boundary heavy, otherwise spread over the whole u32 space.
fn draw_gid(rng: &mut Rng, bvals: &[u32]) -> u32 {
    match rng.below(10) {
        0..=4 => *rng.pick(bvals),
        5 => rng.below(1000) as u32,
        6 => rng.range(60001, 65535) as u32,
        7 => rng.range(1000, 60000) as u32,
        8 => rng.range(65536, 0x7fff_ffff) as u32,
        _ => rng.next() as u32,
    }
}

/// (is posix, gid) of a stored entry, None if the entry does not exist.
fn stored(qs: &mut QueryServerWriteTransaction, uuid: Uuid) -> Option<(bool, Option<u32>)> {
    let e = qs.internal_search_uuid(uuid).ok()?;
    let posix = e.attribute_equality(Attribute::Class, &EntryClass::PosixAccount.into())
        || e.attribute_equality(Attribute::Class, &EntryClass::PosixGroup.into());
    Some((posix, e.get_ava_single_uint32(Attribute::GidNumber)))
}

#[allow(clippy::too_many_arguments)]
fn judge_after(
    acc: &mut Acc,
    op: &str,
    ok: bool,
    uuid: Uuid,
    supplied: Option<u32>,
    before: Option<(bool, Option<u32>)>,
    after: Option<(bool, Option<u32>)>,
    expect_generated: bool,
) {
    let witness = |why: &str| {
        json!({"op": op, "uuid": uuid.to_string(), "supplied": supplied, "result_ok": ok,
               "before(posix,gid)": format!("{before:?}"), "after(posix,gid)": format!("{after:?}"), "why": why})
    };
    acc.count(&format!("server.{op}.{}", if ok { "ok" } else { "err" }));
    if let Some(g) = supplied {
        if let Some(r) = reserved(g) {
            if ok {
                acc.violation(
                    &format!("c21/server-{op}-supplied-reserved-accepted/{r}"),
                    witness("a supplied reserved gid number was accepted by the server"),
                );
            } else {
                acc.count("server.reserved_supplied_refused");
                if before != after {
                    acc.violation(
                        &format!("c21/server-{op}-refused-but-entry-changed"),
                        witness("the refused operation still changed the entry inside the transaction"),
                    );
                }
            }
        } else if ok {
            acc.count("server.free_supplied_accepted");
        } else {
            acc.count("server.free_supplied_refused_not_judged");
        }
    }
    // state invariant, whatever happened
    if let Some((posix, gid)) = after {
        if posix {
            match gid {
                None => acc.violation(
                    &format!("c21/server-{op}-posix-entry-without-gidnumber"),
                    witness("a posix account/group is stored without a gid number"),
                ),
                Some(g) => {
                    if let Some(r) = reserved(g) {
                        acc.violation(
                            &format!("c21/server-{op}-stored-gid-reserved/{r}"),
                            witness("a posix account/group is stored with a reserved gid number"),
                        );
                    }
                    if ok && expect_generated {
                        acc.count("server.generated_checked");
                        if g != expected_generated(uuid) {
                            acc.violation(
                                &format!("c21/server-{op}-generated-not-the-documented-function-of-uuid"),
                                witness("generated gid != 0x70000000 | (last 4 uuid bytes & 0x0fffffff)"),
                            );
                        }
                    }
                    if ok && !expect_generated {
                        if let Some(s) = supplied {
                            if g == s {
                                acc.count("server.supplied_stored_verbatim");
                            } else {
                                acc.count("server.supplied_stored_differently_not_judged");
                            }
                        }
                    }
                }
            }
        }
    }
}

async fn server_part(acc: &mut Acc, seed: u64, w: usize, ops: usize) {
    let qs = kvcore::srv::mk_mem_server().await;
    let mut rng = Rng::new(kvcore::rng::mix(seed, w as u64, 2100));
    let bvals = boundary_values();
    let mut known: Vec<Known> = Vec::new();
    let mut ct = kvcore::srv::T0 + Duration::from_secs(10);
    for i in 0..ops {
        ct += Duration::from_secs(1);
        let Ok(mut txn) = qs.write(ct).await else {
            acc.inconclusive("server write transaction unavailable");
            return;
        };
        acc.eval();
        let kind = if known.is_empty() { 0 } else { rng.below(8) };
        let account = rng.bool();
        match kind {
            // create posix with / without gid, or a plain entry to be converted later
            0..=2 => {
                let uuid = rng.uuid();
                let posix = kind != 2;
                let supplied = if posix && rng.bool() { Some(draw_gid(&mut rng, &bvals)) } else { None };
                let name = format!("c21w{w}n{i}");
                let e = if account {
                    mk_account(&name, uuid, posix, supplied)
                } else {
                    mk_group(&name, uuid, posix, supplied)
                };
                let r = txn.internal_create(vec![e]);
                let after = stored(&mut txn, uuid);
                let op = match (account, posix, supplied.is_some()) {
                    (true, true, true) => "create-account-with-gid",
                    (true, true, false) => "create-account-generate",
                    (false, true, true) => "create-group-with-gid",
                    (false, true, false) => "create-group-generate",
                    (true, false, _) => "create-plain-account",
                    (false, false, _) => "create-plain-group",
                };
                judge_after(acc, op, r.is_ok(), uuid, supplied, None, after, posix && supplied.is_none());
                acc.nontrivial(&format!("{op}|{uuid}|{supplied:?}"));
                if r.is_ok() && txn.commit().is_ok() {
                    known.push(Known { uuid, posix, account });
                }
            }
            // modify / batch modify an existing entry
            _ => {
                let idx = rng.usize(known.len());
                let (uuid, was_posix, is_account) = (known[idx].uuid, known[idx].posix, known[idx].account);
                let before = stored(&mut txn, uuid);
                let posix_class = if is_account {
                    EntryClass::PosixAccount.to_value()
                } else {
                    EntryClass::PosixGroup.to_value()
                };
                let batch = rng.chance(1, 3);
                let (opname, ml, supplied, expect_gen) = match rng.below(3) {
                    0 => {
                        // remove the gid number (and make posix if not yet): must be regenerated
                        let mut v = vec![m_purge(Attribute::GidNumber)];
                        if !was_posix {
                            v.push(m_pres(Attribute::Class, &posix_class));
                        }
                        ("purge-gid-regenerate", ModifyList::new_list(v), None, true)
                    }
                    1 => {
                        let g = draw_gid(&mut rng, &bvals);
                        let mut v = vec![m_purge(Attribute::GidNumber), m_pres(Attribute::GidNumber, &Value::new_uint32(g))];
                        if !was_posix {
                            v.push(m_pres(Attribute::Class, &posix_class));
                        }
                        ("set-gid", ModifyList::new_list(v), Some(g), false)
                    }
                    _ => {
                        // touch something unrelated; make posix if not yet (generation on modify)
                        let mut v = vec![m_purge(Attribute::Description), m_pres(Attribute::Description, &Value::new_utf8s("c21"))];
                        if !was_posix {
                            v.push(m_pres(Attribute::Class, &posix_class));
                        }
                        ("touch", ModifyList::new_list(v), None, !was_posix)
                    }
                };
                let r = if batch {
                    txn.internal_batch_modify(std::iter::once((uuid, ml)))
                } else {
                    txn.internal_modify_uuid(uuid, &ml)
                };
                let after = stored(&mut txn, uuid);
                let op = format!(
                    "{}{}-{}",
                    if batch { "batch-" } else { "modify-" },
                    if is_account { "account" } else { "group" },
                    opname
                );
                judge_after(acc, &op, r.is_ok(), uuid, supplied, before, after, expect_gen);
                acc.nontrivial(&format!("{op}|{uuid}|{supplied:?}"));
                if acc.samples.len() < 3 && i % 7 == 3 {
                    acc.sample(json!({"op": op, "uuid": uuid.to_string(), "supplied": supplied, "ok": r.is_ok(),
                                      "before": format!("{before:?}"), "after": format!("{after:?}")}));
                }
                if r.is_ok() && txn.commit().is_ok() {
                    known[idx].posix = after.map(|a| a.0).unwrap_or(was_posix);
                }
            }
        }
    }
    // final sweep: every stored posix entry, including the built-in ones
    let final_read = qs.read().await;
    if let Ok(mut r) = final_read {
        let f = filter!(f_or!([
            f_eq(Attribute::Class, EntryClass::PosixAccount.into()),
            f_eq(Attribute::Class, EntryClass::PosixGroup.into())
        ]));
        if let Ok(es) = r.internal_search(f) {
            for e in es {
                acc.count("server.final_sweep.posix_entries");
                match e.get_ava_single_uint32(Attribute::GidNumber) {
                    None => acc.violation(
                        "c21/server-final-posix-entry-without-gidnumber",
                        json!({"uuid": e.get_uuid().to_string()}),
                    ),
                    Some(g) => {
                        if let Some(rr) = reserved(g) {
                            acc.violation(
                                &format!("c21/server-final-stored-gid-reserved/{rr}"),
                                json!({"uuid": e.get_uuid().to_string(), "gid": g}),
                            );
                        }
                    }
                }
            }
        }
    }
}

pub fn run(args: Args) {
    let thorough = args.tier == kvcore::Tier::Thorough;
    let mut run = Run::new(
        args.clone(),
        "exploration",
        "hook part: one case = (uuid, account|group, supplied gid or none) run through the real plugin rule; thorough takes an affine permutation prefix of 2^29 distinct uuid tails and 2^29 distinct supplied numbers (all 2^32 of each with VERIF_C21_FULL=1), quick takes every range boundary +-2 plus an affine permutation prefix of 2^24 distinct tails and 2^24 distinct supplied numbers; every case is a distinct input (counted by construction). server part: random creates / modifies / batch modifies of posix accounts and groups with and without gid numbers, distinct by (operation, uuid, supplied)",
    );
    run.assume("verif::gidnumber::gid_for builds a posix entry with exactly (uuid, class, optional gidnumber) and calls the plugin's apply_gidnumber unchanged");
    run.assume("the nspawn range 524288..=1879048191 and everything >= 0x80000000 is outside the statement's reserved set: outcome counted, not judged");
    let workers = args.workers;
    let seed = args.seed;
    let bvals = boundary_values();

    // ---- part 1a: boundaries (both tiers), on worker 0
    {
        let bvals = &bvals;
        run.parallel(1, |_, _| {
            let mut acc = Acc::new();
            let mut t = Tally::default();
            let mut rng = Rng::new(kvcore::rng::mix(seed, 0, 2101));
            for &b in bvals.iter() {
                for account in [true, false] {
                    check_supplied(&mut acc, &mut t, rng.uuid(), account, b);
                    // the same values as uuid tails (mask / prefix boundaries included)
                    check_generated(&mut acc, &mut t, uuid_with_tail(rng.uuid().as_u128(), b), account);
                }
                acc.count("boundary_values");
            }
            for tail in [0x0fff_ffffu32, 0x1000_0000, 0x0fff_fffe, 0xf000_0000, 0xefff_ffff, 0x8fff_ffff, 0x7000_0000] {
                for account in [true, false] {
                    check_generated(&mut acc, &mut t, uuid_with_tail(rng.uuid().as_u128(), tail), account);
                }
            }
            // every supplied number (and tail) in 0..=70000: covers the whole reserved set in both tiers
            for x in 0u32..=70000 {
                let account = x & 1 == 0;
                check_supplied(&mut acc, &mut t, rng.uuid(), account, x);
                check_generated(&mut acc, &mut t, uuid_with_tail(rng.uuid().as_u128(), x), !account);
            }
            t.flush(&mut acc);
            acc
        });
    }
    run.extra("supplied_0_to_70000_complete", json!(true));

    // ---- part 1b: the sweep
    // thorough: all 2^32 tails and all 2^32 supplied values, split in contiguous blocks per worker.
    // quick: 2^24 distinct values each through an affine bijection of u32 (a odd).
    // the complete 2^32 enumeration takes about 40 minutes on 16 idle cores: only with VERIF_C21_FULL=1;
    // the registered thorough tier takes 2^29 distinct values each.
    let full = thorough && std::env::var("VERIF_C21_FULL").is_ok();
    let total: u64 = if full { 1u64 << 32 } else if thorough { 1u64 << 29 } else { 1u64 << 24 };
    let a_mul: u32 = if full { 1 } else { (kvcore::rng::mix(seed, 1, 2102) as u32) | 1 };
    let b_add: u32 = if full { 0 } else { kvcore::rng::mix(seed, 2, 2102) as u32 };
    run.parallel(workers, |w, n| {
        let mut acc = Acc::new();
        let mut t = Tally::default();
        let mut rng = Rng::new(kvcore::rng::mix(seed, w as u64, 2103));
        let lo = total * w as u64 / n as u64;
        let hi = total * (w as u64 + 1) / n as u64;
        let fixed = rng.uuid();
        let mut prefix = rng.uuid().as_u128();
        for i in lo..hi {
            let x = (i as u32).wrapping_mul(a_mul).wrapping_add(b_add);
            let account = (i & 1) == 0;
            if i & 0xffff == 0 {
                // the other twelve uuid bytes must not matter: change them now and then
                prefix = rng.uuid().as_u128();
            }
            check_generated(&mut acc, &mut t, uuid_with_tail(prefix, x), account);
            check_supplied(&mut acc, &mut t, fixed, !account, x);
            if acc.samples.len() < 2 && i == lo + 12345 {
                let u = uuid_with_tail(prefix, x);
                acc.sample(json!({"uuid": u.to_string(), "generated": format!("{:?}", gid_for(u, account, None)),
                                  "expected": expected_generated(u), "supplied": x,
                                  "supplied_result": format!("{:?}", gid_for(fixed, !account, Some(x))),
                                  "supplied_reserved": reserved(x)}));
            }
        }
        t.flush(&mut acc);
        acc
    });
    run.extra("sweep_values_each", json!(total));
    run.extra("sweep_complete_u32_space", json!(full));
    if full {
        // complete enumeration of the two stated finite spaces (uuid tail bytes, supplied numbers)
        run.exhaustive = Some(true);
    }

    // ---- part 2: real server
    let ops_total: usize = args.tier.pick(640, 4000);
    let ops_per_worker: usize = ops_total.div_ceil(workers.max(1));
    run.parallel(workers, |w, _| {
        let mut acc = Acc::new();
        let rt = kvcore::srv::rt();
        rt.block_on(server_part(&mut acc, seed, w, ops_per_worker));
        acc
    });
    run.extra("server_ops_per_worker", json!(ops_per_worker));

    // thresholds
    let counters = run.acc.counters.clone();
    let g = |k: &str| counters.get(k).copied().unwrap_or(0);
    let server_ops: u64 = counters
        .iter()
        .filter(|(k, _)| k.starts_with("server.") && (k.ends_with(".ok") || k.ends_with(".err")))
        .map(|(_, v)| *v)
        .sum();
    run.extra("server_ops_total", json!(server_ops));
    let reqs: Vec<(bool, String)> = vec![
        (g("hook.generate.ok") >= total, "hook: fewer generated gid numbers than sweep size".into()),
        (g("hook.supplied.reserved.err") >= 5915, "hook: fewer refusals than the 5915 reserved numbers".into()),
        (g("hook.supplied.free.ok") > 0, "hook: no supplied number was ever accepted (positive control)".into()),
        (server_ops >= 200, format!("server: only {server_ops} differential operations (< 200)")),
        (g("server.generated_checked") >= 30, "server: fewer than 30 generated gid numbers checked".into()),
        (g("server.reserved_supplied_refused") >= 20, "server: fewer than 20 reserved supplied numbers refused".into()),
        (g("server.free_supplied_accepted") >= 10, "server: fewer than 10 supplied numbers accepted (positive control)".into()),
        (g("server.create-account-generate.ok") > 0 && g("server.create-group-generate.ok") > 0, "server: generation on create not seen for both accounts and groups".into()),
        (
            counters.keys().any(|k| k.starts_with("server.batch-") && k.ends_with(".ok"))
                && counters.keys().any(|k| k.starts_with("server.modify-") && k.ends_with(".ok")),
            "server: modify and batch modify paths not both exercised".into(),
        ),
    ];
    for (c, r) in reqs {
        run.require(c, &r);
    }
    run.finish();
}
