//! C29 TOTP accepts exactly the current and previous code.
//!
//! Real code: `kanidmd_lib::credential::totp::Totp::{new, verify}`.
//! Oracle: `/verif/pyref/c29_totp.py` (RFC 6238 on hashlib/hmac, self-checked against the RFC's
//! appendix B vectors) generates, from the seed, a token configuration, a time t >= step, and the
//! codes of steps c-2..c+2. For every candidate number x: verify(x, t) <=> x in {code(c), code(c-1)}.
//! Candidates: the five step codes, their +-3 numeric neighbours, code + 10^digits, the untruncated
//! 31 bit values, the codes reduced with the other digit count, and random numbers.

use crate::pyref::{unhex, PyGen};
use kanidmd_lib::credential::totp::{Totp, TotpAlgo, TotpDigits};
use kvcore::{Acc, Args, Rng, Run};
use serde_json::{json, Value};
use std::panic::{catch_unwind, AssertUnwindSafe};
use std::time::Duration;

fn block_size(algo: &str) -> usize {
    if algo == "sha512" {
        128
    } else {
        64
    }
}

struct Case {
    raw: Value,
    secret: Vec<u8>,
    algo: String,
    digits: u64,
    step: u64,
    time: Duration,
    codes: [Option<u32>; 5], // index d+2
    untruncated: [Option<u32>; 5],
}

fn parse(v: Value) -> Option<Case> {
    let mut codes = [None; 5];
    let mut untruncated = [None; 5];
    for d in -2i64..=2 {
        codes[(d + 2) as usize] = v["codes"][d.to_string()].as_u64().map(|x| x as u32);
        untruncated[(d + 2) as usize] = v["untruncated"][d.to_string()].as_u64().map(|x| x as u32);
    }
    Some(Case {
        secret: unhex(v["secret"].as_str()?),
        algo: v["algo"].as_str()?.to_string(),
        digits: v["digits"].as_u64()?,
        step: v["step"].as_u64()?,
        time: Duration::new(v["time"].as_u64()?, v["nanos"].as_u64()? as u32),
        codes,
        untruncated,
        raw: v,
    })
}

fn check_case(acc: &mut Acc, rng: &mut Rng, c: &Case, nrandom: usize) {
    acc.eval();
    let algo = match c.algo.as_str() {
        "sha1" => TotpAlgo::Sha1,
        "sha256" => TotpAlgo::Sha256,
        _ => TotpAlgo::Sha512,
    };
    let digits = if c.digits == 6 { TotpDigits::Six } else { TotpDigits::Eight };
    let totp = Totp::new(c.secret.clone(), c.step, algo, digits);
    let (Some(cur), Some(prev)) = (c.codes[2], c.codes[1]) else {
        acc.inconclusive("reference did not supply current/previous code");
        return;
    };
    let modulus: u64 = 10u64.pow(c.digits as u32);
    let other_modulus: u64 = if c.digits == 6 { 100_000_000 } else { 1_000_000 };
    let long_secret = c.secret.len() > block_size(&c.algo);

    // candidates with their origin
    let mut cands: Vec<(u32, &'static str)> = Vec::with_capacity(64 + nrandom);
    let names = ["step-2", "previous", "current", "step+1", "step+2"];
    for (i, code) in c.codes.iter().enumerate() {
        if let Some(code) = code {
            cands.push((*code, names[i]));
            for d in 1..=3u32 {
                if let Some(x) = code.checked_sub(d) {
                    cands.push((x, "numeric-neighbour"));
                }
                if let Some(x) = code.checked_add(d) {
                    cands.push((x, "numeric-neighbour"));
                }
            }
            if let Ok(x) = u32::try_from(*code as u64 + modulus) {
                cands.push((x, "code-plus-modulus"));
            }
        }
        if let Some(full) = c.untruncated[i] {
            cands.push((full, "untruncated-31-bit-value"));
            cands.push(((full as u64 % other_modulus) as u32, "reduced-with-other-digit-count"));
        }
    }
    for _ in 0..nrandom {
        cands.push((rng.below(modulus) as u32, "random"));
    }
    for _ in 0..8 {
        cands.push((rng.next() as u32, "random"));
    }
    cands.push((0, "random"));
    cands.push((u32::MAX, "random"));

    let mut acc_cur = false;
    let mut acc_prev = false;
    let mut calls = 0u64;
    for (x, origin) in cands {
        let want = x == cur || x == prev;
        let got = match catch_unwind(AssertUnwindSafe(|| totp.verify(x, c.time))) {
            Ok(b) => b,
            Err(_) => {
                acc.count("panic_in_kanidm");
                false
            }
        };
        calls += 1;
        if want && got {
            if x == cur {
                acc_cur = true;
            }
            if x == prev {
                acc_prev = true;
            }
        }
        if want != got {
            let mut w = c.raw.clone();
            w["candidate"] = json!(x);
            w["candidate_origin"] = json!(origin);
            w["expected_accept"] = json!(want);
            w["kanidm_accept"] = json!(got);
            w["secret_len"] = json!(c.secret.len());
            let sig = if want {
                let which = if x == cur { "current" } else { "previous" };
                w["why"] = json!(format!("the RFC 6238 code of the {which} step was rejected"));
                if long_secret {
                    format!("c29/{which}-code-rejected/secret-longer-than-hash-block")
                } else {
                    format!("c29/{which}-code-rejected")
                }
            } else {
                w["why"] = json!("a number that is neither the current nor the previous step's code was accepted");
                format!("c29/accepted-{origin}")
            };
            crate::pyref::report(acc, &sig, w);
        }
    }
    // bookkeeping / non-triviality
    acc.count_n("verify_calls", calls);
    acc.count(&format!("algo.{}.digits{}", c.algo, c.digits));
    acc.count(match c.secret.len() {
        0 => "secret.empty",
        n if n > block_size(&c.algo) => "secret.longer_than_block",
        n if n == block_size(&c.algo) => "secret.exactly_block",
        _ => "secret.up_to_block",
    });
    let off = c.raw["offset_in_step"].as_u64().unwrap_or(1);
    if off == 0 {
        acc.count("time.first_second_of_step");
    } else if off == c.step - 1 {
        acc.count("time.last_second_of_step");
    } else {
        acc.count("time.inside_step");
    }
    if c.raw["counter"].as_u64() == Some(1) {
        acc.count("time.exactly_one_step_after_epoch");
    }
    if acc_cur {
        acc.count("accepted.current");
    }
    if acc_prev {
        acc.count("accepted.previous");
    }
    if cur != prev {
        acc.nontrivial(&format!("{}|{}|{}|{:?}|{}", c.raw["secret"], c.algo, c.step, c.time, c.digits));
    }
    if acc.samples.len() < 3 && acc.evaluations % 97 == 5 {
        let mut s = c.raw.clone();
        s["accepted_current"] = json!(acc_cur);
        s["accepted_previous"] = json!(acc_prev);
        acc.sample(s);
    }
}

pub fn run(args: Args) {
    let mut run = Run::new(
        args.clone(),
        "exploration",
        "one case = (secret 0..200 bytes, SHA1/256/512, 6/8 digits, step >= 30 s, time >= one step) with ~60 structured candidate codes (codes of steps c-2..c+2, +-3 neighbours, +10^digits, untruncated, other digit count) and N random ones; non-trivial = current and previous code differ; distinct by (secret, algo, step, time, digits)",
    );
    run.assume("python3 hashlib/hmac implement HMAC-SHA1/256/512 correctly (the script checks itself against RFC 6238 appendix B before emitting cases)");
    let ncases: u64 = args.tier.pick(6_000, 600_000);
    let nrandom: usize = args.tier.pick(1_000, 1_500);
    let seed = args.seed;
    run.parallel(args.workers, |w, n| {
        let mut acc = Acc::new();
        let per = ncases / n as u64;
        let mut rng = Rng::new(kvcore::rng::mix(seed, w as u64, 2900));
        let mut gen = match PyGen::spawn(
            "c29_totp.py",
            &[seed.to_string(), w.to_string(), n.to_string(), per.to_string()],
            false,
        ) {
            Ok(g) => g,
            Err(e) => {
                acc.inconclusive(&e);
                return acc;
            }
        };
        while let Some(line) = gen.next() {
            match line.map(parse) {
                Ok(Some(c)) => check_case(&mut acc, &mut rng, &c, nrandom),
                Ok(None) => acc.inconclusive("unparsable reference case"),
                Err(e) => acc.inconclusive(&e),
            }
        }
        if let Err(e) = gen.finish() {
            acc.inconclusive(&e);
        }
        acc
    });
    run.extra("cases_requested", json!(ncases));
    run.extra("random_codes_per_case", json!(nrandom));
    let c = run.acc.counters.clone();
    let g = |k: &str| c.get(k).copied().unwrap_or(0);
    let evals = run.acc.evaluations;
    run.require(evals >= ncases / 16 * 15, "fewer cases evaluated than requested");
    for a in ["sha1", "sha256", "sha512"] {
        for d in [6, 8] {
            run.require(g(&format!("algo.{a}.digits{d}")) >= 100, &format!("fewer than 100 cases for {a}/{d} digits"));
        }
    }
    for (k, min) in [
        ("secret.empty", 10),
        ("secret.up_to_block", 500),
        ("secret.exactly_block", 10),
        ("secret.longer_than_block", 500),
        ("time.first_second_of_step", 300),
        ("time.last_second_of_step", 300),
        ("time.exactly_one_step_after_epoch", 20),
        ("accepted.current", 500),
        ("accepted.previous", 500),
    ] {
        run.require(g(k) >= min, &format!("{k} seen {} times (< {min})", g(k)));
    }
    run.finish();
}
