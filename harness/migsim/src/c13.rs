//! C13 Backup then restore reproduces the database.
//!
//! Differential oracle, original server A vs restored server B, per random history:
//!
//!  1. at the backup point on the live original: full dump (all entries incl. recycled, tombstones,
//!     conflicts, with change state), replication state (`consumer_get_state`), domain uuid, and the
//!     answers to a batch of random searches;
//!  2. online backup exactly as `handle_online_backup` does (`qs.read().get_be_txn().backup(File, c)`),
//!     once uncompressed and once gzip;
//!  3. restore into a FRESH file backed backend following `restore_server_core`:
//!     Schema::new -> Backend::new -> be.write().restore(File, identify_file(path)) -> commit ->
//!     be.write().reindex -> commit -> QueryServer::new -> [observation X] -> initialise_helper(ct,
//!     DOMAIN_TGT_LEVEL) -> qs.write(ct).reindex -> commit.
//!     Observation X (before any server-level start-up code has run on the restored database):
//!     dump, replication state, server uuid, domain uuid, max change time must equal the original's.
//!  4. the original is shut down and started again with the same start-up procedure and the SAME
//!     simulated clock as the restored one (this build is a pre-release: every start re-applies the
//!     last migration, so "the original" that a restored server can be compared with after start-up
//!     is the original after the same start-up). Dumps and replication state must be equal again,
//!     every random search must be answered with the same uuid set, a canary write at a clock not
//!     later than the stored maximum must get the same cid on both, later than every stored change of
//!     this server, and `verify()` must be empty on the restored server.
//!  5. negative cases: backups whose version is altered or that are in an older format (no version
//!     field) must be refused (`Err`), and a refused restore must not leave backup content behind.
//!     Truncated gzip / garbage / wrong-compression inputs are expected to be refused too, but the
//!     statement does not say so: if one is accepted, it is only judged on "what was restored equals
//!     the original".
//!
//! Differences from the real restore path, all forced by the public API or by simulated time:
//! simulated `ct` instead of the wall clock; `reindex(false)` instead of `reindex(true)` (the flag
//! only switches the progress display); no `IdmServer::new` after `initialise_helper`.

use crate::content::{person_entry, World, DAY, DESCS};
use kanidm_proto::backup::BackupCompression;
use kanidm_proto::internal::FsType;
use kanidmd_lib::be::{Backend, BackendConfig, BackendTransaction};
use kanidmd_lib::prelude::*;
use kanidmd_lib::repl::proto::{ConsumerState, ReplIncrementalContext};
use kanidmd_lib::schema::Schema;
use kvcore::srv::{self, Dump, T0};
use kvcore::{Acc, Args, Rng, Run, Scratch};
use serde_json::{json, Value as Json};
use std::collections::BTreeSet;
use std::io::{Read, Write};
use std::path::{Path, PathBuf};

const UUID_CANARY: Uuid = uuid!("aaaaaaaa-0000-4000-8000-00000000ca01");

pub(crate) fn e2s(e: OperationError) -> String {
    format!("{e:?}")
}

#[derive(Clone, Debug, PartialEq)]
struct Ids {
    s_uuid: Uuid,
    d_uuid: Uuid,
    ts_max: Option<Duration>,
}

pub(crate) fn new_backend(path: &Path, arcsize: Option<usize>) -> Result<(Backend, Schema), String> {
    let schema = Schema::new().map_err(e2s)?;
    let idxmeta = {
        let w = schema.write();
        w.reload_idxmeta()
    };
    let be = Backend::new(
        BackendConfig::new(Some(path), 2, FsType::Generic, arcsize),
        idxmeta,
        false,
    )
    .map_err(e2s)?;
    Ok((be, schema))
}

/// server uuid, domain uuid, stored max change time, read straight from the backend
fn read_ids(be: &Backend) -> Result<Ids, String> {
    let mut wr = be.write().map_err(e2s)?;
    let s_uuid = wr.get_db_s_uuid().map_err(e2s)?;
    let d_uuid = wr.get_db_d_uuid().map_err(e2s)?;
    // the marker value comes back when nothing is stored
    let marker = Duration::from_nanos(7);
    let ts = wr.get_db_ts_max(marker).map_err(e2s)?;
    drop(wr); // never committed
    Ok(Ids {
        s_uuid,
        d_uuid,
        ts_max: if ts == marker { None } else { Some(ts) },
    })
}

/// The server start-up both sides go through: QueryServer::new + initialise_helper + reindex txn.
async fn start_server(be: Backend, schema: Schema, ct: Duration) -> Result<QueryServer, String> {
    let qs = QueryServer::new(be, schema, "example.com".to_string(), ct).map_err(e2s)?;
    finish_start(&qs, ct).await?;
    Ok(qs)
}

async fn finish_start(qs: &QueryServer, ct: Duration) -> Result<(), String> {
    qs.initialise_helper(ct, DOMAIN_TGT_LEVEL)
        .await
        .map_err(|e| format!("initialise_helper: {e:?}"))?;
    let mut wr = qs.write(ct).await.map_err(e2s)?;
    wr.reindex(false).map_err(|e| format!("reindex: {e:?}"))?;
    wr.commit().map_err(|e| format!("reindex commit: {e:?}"))?;
    Ok(())
}

async fn repl_state(qs: &QueryServer) -> Result<Json, String> {
    let mut rd = qs.read().await.map_err(e2s)?;
    let st = rd.consumer_get_state().map_err(e2s)?;
    serde_json::to_value(&st).map_err(|e| e.to_string())
}

// ---------------------------------------------------------------------------------------------
// random searches

#[derive(Clone, Debug)]
enum Scope {
    Live,
    Recycled,
    All,
}

#[derive(Clone, Debug)]
struct Query {
    scope: Scope,
    fc: QF,
}

/// a filter description we can rebuild for each server (FC is not Clone-friendly across macros)
#[derive(Clone, Debug)]
enum QF {
    NameEq(String),
    NameSub(String),
    ClassEq(String),
    MemberEq(Uuid),
    MemberOfEq(Uuid),
    DescEq(String),
    DescSub(String),
    Pres(&'static str),
    UuidEq(Uuid),
    And(Vec<QF>),
    Or(Vec<QF>),
    /// And(positive.., AndNot(x)) - the only supported shape of a negation
    AndNot(Vec<QF>, Box<QF>),
}

fn attr_of(s: &str) -> Attribute {
    Attribute::from(s)
}

fn to_fc(q: &QF) -> FC {
    match q {
        QF::NameEq(s) => f_eq(Attribute::Name, PartialValue::new_iname(s)),
        QF::NameSub(s) => f_sub(Attribute::Name, PartialValue::new_iname(s)),
        QF::ClassEq(s) => f_eq(Attribute::Class, PartialValue::new_iutf8(s)),
        QF::MemberEq(u) => f_eq(Attribute::Member, PartialValue::Refer(*u)),
        QF::MemberOfEq(u) => f_eq(Attribute::MemberOf, PartialValue::Refer(*u)),
        QF::DescEq(s) => f_eq(Attribute::Description, PartialValue::new_utf8s(s)),
        QF::DescSub(s) => f_sub(Attribute::Description, PartialValue::new_utf8s(s)),
        QF::Pres(a) => f_pres(attr_of(a)),
        QF::UuidEq(u) => f_eq(Attribute::Uuid, PartialValue::Uuid(*u)),
        QF::And(v) => f_and(v.iter().map(to_fc).collect()),
        QF::Or(v) => f_or(v.iter().map(to_fc).collect()),
        QF::AndNot(pos, neg) => {
            let mut v: Vec<FC> = pos.iter().map(to_fc).collect();
            v.push(f_andnot(to_fc(neg)));
            f_and(v)
        }
    }
}

struct Vocab {
    names: Vec<String>,
    uuids: Vec<Uuid>,
    groups: Vec<Uuid>,
}

const CLASSES: &[&str] = &[
    "person",
    "group",
    "account",
    "service_account",
    "oauth2_resource_server",
    "posixaccount",
    "posixgroup",
    "object",
    "recycled",
    "tombstone",
    "conflict",
    "dyngroup",
    "access_control_profile",
    "account_policy",
    "memberof",
];

const PRES: &[&str] = &[
    "name",
    "member",
    "memberof",
    "description",
    "displayname",
    "mail",
    "primary_credential",
    "user_auth_token_session",
    "api_token_session",
    "gidnumber",
    "oauth2_rs_scope_map",
    "ssh_publickey",
    "account_expire",
    "source_uuid",
];

fn gen_leaf(rng: &mut Rng, v: &Vocab) -> QF {
    match rng.below(11) {
        0 => QF::NameEq(if rng.chance(1, 6) || v.names.is_empty() {
            "nosuchname".to_string()
        } else {
            rng.pick(&v.names).clone()
        }),
        1 => QF::NameSub(
            rng.pick(&["p", "g", "s", "o", "r", "x1", "x", "adm", "idm_", "1", "zz"])
                .to_string(),
        ),
        2 | 3 => QF::ClassEq(rng.pick(CLASSES).to_string()),
        4 => QF::MemberEq(if v.uuids.is_empty() {
            UUID_ANONYMOUS
        } else {
            *rng.pick(&v.uuids)
        }),
        5 => QF::MemberOfEq(if v.groups.is_empty() {
            UUID_IDM_ALL_ACCOUNTS
        } else {
            *rng.pick(&v.groups)
        }),
        6 => QF::DescEq(rng.pick(DESCS).to_string()),
        7 => QF::DescSub(rng.pick(&["alpha", "a", "team", "ray", "omega", "harness", "zz"]).to_string()),
        8 | 9 => QF::Pres(rng.pick(PRES)),
        _ => QF::UuidEq(if v.uuids.is_empty() {
            UUID_ADMIN
        } else {
            *rng.pick(&v.uuids)
        }),
    }
}

fn gen_qf(rng: &mut Rng, v: &Vocab, depth: u32) -> QF {
    if depth == 0 || rng.chance(2, 5) {
        return gen_leaf(rng, v);
    }
    let n = 2 + rng.usize(2);
    match rng.below(5) {
        0 | 1 => QF::And((0..n).map(|_| gen_qf(rng, v, depth - 1)).collect()),
        2 | 3 => QF::Or((0..n).map(|_| gen_qf(rng, v, depth - 1)).collect()),
        // negation only as And(positive leaf.., AndNot(..)): other shapes are C01's business
        _ => QF::AndNot(
            (0..(1 + rng.usize(2))).map(|_| gen_leaf(rng, v)).collect(),
            Box::new(gen_leaf(rng, v)),
        ),
    }
}

fn gen_queries(rng: &mut Rng, v: &Vocab, n: usize) -> Vec<Query> {
    (0..n)
        .map(|_| Query {
            scope: match rng.below(6) {
                0 => Scope::Recycled,
                1 => Scope::All,
                _ => Scope::Live,
            },
            fc: gen_qf(rng, v, 2),
        })
        .collect()
}

type Answer = Result<BTreeSet<Uuid>, String>;

async fn answer_all(qs: &QueryServer, qs_list: &[Query]) -> Result<Vec<Answer>, String> {
    let mut rd = qs.read().await.map_err(e2s)?;
    let mut out = Vec::with_capacity(qs_list.len());
    for q in qs_list {
        let fc = to_fc(&q.fc);
        let r = match q.scope {
            Scope::Live => rd.internal_search(filter!(fc)),
            Scope::Recycled => rd.internal_search(filter_rec!(fc)),
            Scope::All => rd.internal_search(filter_all!(fc)),
        };
        out.push(match r {
            Ok(es) => Ok(es.iter().map(|e| e.get_uuid()).collect()),
            Err(e) => Err(format!("{e:?}")),
        });
    }
    Ok(out)
}

// ---------------------------------------------------------------------------------------------
// helpers over dumps

/// Full dump with attributes that hold an EMPTY value set removed: the live server keeps e.g.
/// `user_auth_token_session: {"AS":[]}` in its cached entry after the last session expired, the same
/// entry read back from storage has no such attribute. Zero values = no attribute; not judged here.
pub(crate) async fn dumpn(qs: &QueryServer) -> Dump {
    let mut d = srv::dump(qs).await;
    for e in d.entries.values_mut() {
        if let Some(attrs) = e
            .get_mut("ent")
            .and_then(|x| x.get_mut("V3"))
            .and_then(|x| x.get_mut("attrs"))
            .and_then(|x| x.as_object_mut())
        {
            attrs.retain(|_, v| {
                !v.as_object()
                    .map(|o| o.len() == 1 && o.values().all(|x| x.as_array().map(|a| a.is_empty()).unwrap_or(false)))
                    .unwrap_or(false)
            });
        }
    }
    d
}

/// all (secs, nanos, server) cids in the change state of an entry
fn cids_of(e: &Json) -> Vec<(u64, u32, String)> {
    let mut out = Vec::new();
    fn one(c: &Json, out: &mut Vec<(u64, u32, String)>) {
        if let (Some(t), Some(s)) = (c.get("t"), c.get("s")) {
            out.push((
                t.get("secs").and_then(|x| x.as_u64()).unwrap_or(0),
                t.get("nanos").and_then(|x| x.as_u64()).unwrap_or(0) as u32,
                s.as_str().unwrap_or("").to_string(),
            ));
        }
    }
    if let Some(cs) = srv::dump_changestate(e) {
        for (_k, v) in cs.as_object().into_iter().flatten() {
            if let Some(at) = v.get("at") {
                one(at, &mut out);
            }
            for (_a, c) in v.get("changes").and_then(|c| c.as_object()).into_iter().flatten() {
                one(c, &mut out);
            }
        }
    }
    out
}

fn created_cid(e: &Json) -> Option<(u64, u32, String)> {
    let cs = srv::dump_changestate(e)?;
    let at = cs.as_object()?.values().next()?.get("at")?;
    Some((
        at.get("t")?.get("secs")?.as_u64()?,
        at.get("t")?.get("nanos")?.as_u64()? as u32,
        at.get("s")?.as_str()?.to_string(),
    ))
}

fn kinds(d: &Dump) -> (usize, usize, usize, usize) {
    let mut k = (0, 0, 0, 0);
    for e in d.entries.values() {
        if srv::is_tombstone(e) {
            k.2 += 1;
        } else if srv::is_conflict(e) {
            k.3 += 1;
        } else if srv::is_recycled(e) {
            k.1 += 1;
        } else {
            k.0 += 1;
        }
    }
    k
}

fn diff_class(diffs: &[String]) -> &'static str {
    if diffs.iter().any(|d| d.contains("only in left")) {
        "entry-missing-after-restore"
    } else if diffs.iter().any(|d| d.contains("only in right")) {
        "extra-entry-after-restore"
    } else if diffs.iter().all(|d| d.ends_with("[changestate]") && !d.contains(" vs ")) {
        "change-state-differs"
    } else {
        "attribute-values-differ"
    }
}

// ---------------------------------------------------------------------------------------------
// replication peer (to provoke conflict entries and a second server in the RUV)

async fn refresh(from: &QueryServer, to: &QueryServer, ct: Duration) -> Result<(), String> {
    let ctx = {
        let mut rd = from.read().await.map_err(e2s)?;
        rd.supplier_provide_refresh().map_err(e2s)?
    };
    let mut wr = to.write(ct).await.map_err(e2s)?;
    wr.consumer_apply_refresh(ctx).map_err(e2s)?;
    wr.commit().map_err(e2s)
}

async fn repl(from: &QueryServer, to: &QueryServer, ct: Duration) -> Result<&'static str, String> {
    let state = {
        let mut rd = to.read().await.map_err(e2s)?;
        rd.consumer_get_state().map_err(e2s)?
    };
    let changes = {
        let mut rd = from.read().await.map_err(e2s)?;
        rd.supplier_provide_changes(state).map_err(e2s)?
    };
    let kind = match &changes {
        ReplIncrementalContext::DomainMismatch => "domain_mismatch",
        ReplIncrementalContext::NoChangesAvailable => "no_changes",
        ReplIncrementalContext::RefreshRequired => "refresh_required",
        ReplIncrementalContext::UnwillingToSupply => "unwilling",
        ReplIncrementalContext::V1 { .. } => "v1",
    };
    let mut wr = to.write(ct).await.map_err(e2s)?;
    let st = wr.consumer_apply_changes(changes).map_err(|e| format!("apply: {e:?}"))?;
    wr.commit().map_err(|e| format!("commit: {e:?}"))?;
    Ok(match st {
        ConsumerState::Ok => kind,
        ConsumerState::RefreshRequired => "consumer_refresh_required",
    })
}

// ---------------------------------------------------------------------------------------------
// one history

struct Restored {
    db: PathBuf,
    arcsize: Option<usize>,
    qs: QueryServer,
    ids: Ids,
    pre_dump: Dump,
    pre_state: Json,
}

/// steps 3 up to observation X
async fn restore_into(db: &Path, backup: &Path, arcsize: Option<usize>, ct: Duration) -> Result<Restored, (String, String)> {
    let (be, schema) = new_backend(db, arcsize).map_err(|e| ("backend".to_string(), e))?;
    {
        let mut wr = be.write().map_err(|e| ("backend".to_string(), e2s(e)))?;
        let compression = BackupCompression::identify_file(backup);
        let input = std::fs::File::open(backup).map_err(|e| ("harness-io".to_string(), e.to_string()))?;
        wr.restore(input, compression)
            .map_err(|e| ("restore".to_string(), e2s(e)))?;
        wr.commit().map_err(|e| ("restore-commit".to_string(), e2s(e)))?;
    }
    {
        let mut wr = be.write().map_err(|e| ("backend".to_string(), e2s(e)))?;
        wr.reindex(false).map_err(|e| ("reindex".to_string(), e2s(e)))?;
        wr.commit().map_err(|e| ("reindex-commit".to_string(), e2s(e)))?;
    }
    let ids = read_ids(&be).map_err(|e| ("read-ids".to_string(), e))?;
    let qs = QueryServer::new(be, schema, "example.com".to_string(), ct)
        .map_err(|e| ("queryserver-new".to_string(), e2s(e)))?;
    let pre_dump = dumpn(&qs).await;
    let pre_state = repl_state(&qs).await.map_err(|e| ("repl-state".to_string(), e))?;
    Ok(Restored {
        db: db.to_path_buf(),
        arcsize,
        qs,
        ids,
        pre_dump,
        pre_state,
    })
}

async fn canary(qs: &QueryServer, ct: Duration) -> Result<(u64, u32, String), String> {
    let mut wr = qs.write(ct).await.map_err(e2s)?;
    let mut e = person_entry(UUID_CANARY, "verifcanary");
    e.add_ava(Attribute::Description, Value::new_utf8s("canary"));
    wr.internal_create(vec![e]).map_err(e2s)?;
    wr.commit().map_err(e2s)?;
    let d = dumpn(qs).await;
    d.entries
        .get(&UUID_CANARY)
        .and_then(created_cid)
        .ok_or_else(|| "canary not found".to_string())
}

fn gunzip(p: &Path) -> Result<Vec<u8>, String> {
    // independent of kanidm's reader: the system gzip
    let out = std::process::Command::new("gzip")
        .arg("-dc")
        .arg(p)
        .output()
        .map_err(|e| e.to_string())?;
    if !out.status.success() {
        return Err(format!("gzip -dc failed: {}", String::from_utf8_lossy(&out.stderr)));
    }
    Ok(out.stdout)
}

struct NegCase {
    label: &'static str,
    /// refusal is what the statement demands (version / older format)
    version_related: bool,
    file: PathBuf,
}

fn write_file(p: &Path, data: &[u8]) -> Result<(), String> {
    let mut f = std::fs::File::create(p).map_err(|e| e.to_string())?;
    f.write_all(data).map_err(|e| e.to_string())
}

fn build_negatives(dir: &Path, plain: &Path, gz: &Path, rng: &mut Rng) -> Result<Vec<NegCase>, String> {
    let mut raw = Vec::new();
    std::fs::File::open(plain)
        .and_then(|mut f| f.read_to_end(&mut raw))
        .map_err(|e| e.to_string())?;
    let j: Json = serde_json::from_slice(&raw).map_err(|e| format!("backup is not json: {e}"))?;
    let obj = j.as_object().ok_or("backup json is not an object")?.clone();
    let version = obj
        .get("version")
        .and_then(|v| v.as_str())
        .ok_or("backup has no version string")?
        .to_string();
    let mut out = Vec::new();
    let mut put = |label: &'static str, version_related: bool, name: &str, data: Vec<u8>| -> Result<(), String> {
        let p = dir.join(name);
        write_file(&p, &data)?;
        out.push(NegCase {
            label,
            version_related,
            file: p,
        });
        Ok(())
    };
    // the version recorded in the backup, altered
    let (maj, min) = version.split_once('.').unwrap_or((&version, "0"));
    let minn: u32 = min.parse().unwrap_or(0);
    let alts = [
        format!("{maj}.{}", minn.saturating_sub(1)),
        format!("{maj}.{}", minn + 1),
        format!("{}.{min}", maj.parse::<u32>().unwrap_or(1) + 1),
        format!("{version}.0"),
        format!(" {version}"),
        String::new(),
        version.to_uppercase() + "x",
    ];
    let alt = rng.pick(&alts).clone();
    let mut o = obj.clone();
    o.insert("version".into(), json!(alt));
    put("version_altered", true, "neg-version.json", serde_json::to_vec(&Json::Object(o)).map_err(|e| e.to_string())?)?;
    // the same altered version, gzip compressed by the system gzip
    {
        let mut o = obj.clone();
        o.insert("version".into(), json!(rng.pick(&alts).clone()));
        let p = dir.join("neg-version-gz.json");
        write_file(&p, &serde_json::to_vec(&Json::Object(o)).map_err(|e| e.to_string())?)?;
        let st = std::process::Command::new("gzip").arg("-f").arg(&p).status().map_err(|e| e.to_string())?;
        if st.success() {
            out.push(NegCase {
                label: "version_altered_gzip",
                version_related: true,
                file: dir.join("neg-version-gz.json.gz"),
            });
        }
    }
    let mut put = |label: &'static str, version_related: bool, name: &str, data: Vec<u8>| -> Result<(), String> {
        let p = dir.join(name);
        write_file(&p, &data)?;
        out.push(NegCase {
            label,
            version_related,
            file: p,
        });
        Ok(())
    };
    // older formats: V4 (no version), V3 (no repl_meta), V2 (no keyhandles), V1 (bare entry list)
    let mut o = obj.clone();
    o.remove("version");
    put("format_v4_no_version", true, "neg-v4.json", serde_json::to_vec(&Json::Object(o.clone())).map_err(|e| e.to_string())?)?;
    o.remove("repl_meta");
    put("format_v3", true, "neg-v3.json", serde_json::to_vec(&Json::Object(o.clone())).map_err(|e| e.to_string())?)?;
    o.remove("keyhandles");
    put("format_v2", true, "neg-v2.json", serde_json::to_vec(&Json::Object(o.clone())).map_err(|e| e.to_string())?)?;
    let entries = obj.get("entries").cloned().unwrap_or(json!([]));
    put("format_v1", true, "neg-v1.json", serde_json::to_vec(&entries).map_err(|e| e.to_string())?)?;
    // version of a non-string type: falls back to an older format
    let mut o = obj.clone();
    o.insert("version".into(), json!(112));
    put("version_not_a_string", true, "neg-vtype.json", serde_json::to_vec(&Json::Object(o)).map_err(|e| e.to_string())?)?;
    // damaged inputs (not what the statement is about: judged only on content if accepted)
    let mut gzraw = Vec::new();
    std::fs::File::open(gz)
        .and_then(|mut f| f.read_to_end(&mut gzraw))
        .map_err(|e| e.to_string())?;
    let cut = match rng.below(4) {
        0 => gzraw.len().saturating_sub(1 + rng.usize(8)), // inside the trailer
        1 => 10 + rng.usize(10),
        _ => 20 + rng.usize(gzraw.len().saturating_sub(30).max(1)),
    };
    put("truncated_gzip", false, "neg-trunc.json.gz", gzraw[..cut.min(gzraw.len())].to_vec())?;
    let cut = rng.usize(raw.len().saturating_sub(2).max(1)) + 1;
    put("truncated_plain", false, "neg-trunc.json", raw[..cut].to_vec())?;
    let n1 = 64 + rng.usize(512);
    put("garbage", false, "neg-garbage.json", rng.bytes(n1))?;
    let n2 = 64 + rng.usize(512);
    put("garbage_gzip_name", false, "neg-garbage.json.gz", rng.bytes(n2))?;
    put("empty", false, "neg-empty.json", Vec::new())?;
    put("empty_object", false, "neg-obj.json", b"{}".to_vec())?;
    put("plain_named_gz", false, "neg-plain.json.gz", raw.clone())?;
    put("gzip_named_plain", false, "neg-gz.json", gzraw.clone())?;
    Ok(out)
}

pub struct CaseCfg {
    pub ops: usize,
    pub searches: usize,
}

async fn history(case_seed: u64, cfg: &CaseCfg, acc: &mut Acc) {
    let mut rng = Rng::new(case_seed);
    let scratch = Scratch::new("migsim-c13");
    let dir = scratch.path().to_path_buf();
    let path_a = dir.join("a.db");
    let arc_a = *rng.pick(&[Some(32usize), Some(256), Some(2048), None]);
    let witness = |what: &str, extra: Json, hist: &[String]| -> Json {
        let n = hist.len();
        json!({"case_seed": case_seed, "what": what, "detail": extra,
               "history_len": n, "history_tail": hist[n.saturating_sub(40)..].to_vec()})
    };
    macro_rules! harness_fail {
        ($msg:expr) => {{
            acc.inconclusive(&format!("case {case_seed}: harness: {}", $msg));
            return;
        }};
    }
    // ---- the original server and its history
    let qs_a = match srv::mk_server_at(Some(&path_a), 2, arc_a, T0, DOMAIN_TGT_LEVEL).await {
        Ok(q) => q,
        Err(e) => harness_fail!(format!("original server init: {e:?}")),
    };
    let mut w = match World::new(qs_a, T0 + Duration::from_secs(100)).await {
        Ok(w) => w,
        Err(e) => harness_fail!(format!("world: {e}")),
    };
    let with_peer = rng.chance(1, 2);
    let peer = if with_peer {
        let p = srv::mk_server_at(None, 1, Some(512), T0, DOMAIN_TGT_LEVEL).await;
        match p {
            Ok(p) => match refresh(&w.qs, &p, w.now).await {
                Ok(()) => Some(p),
                Err(e) => harness_fail!(format!("peer refresh: {e}")),
            },
            Err(e) => harness_fail!(format!("peer init: {e:?}")),
        }
    } else {
        None
    };
    w.now += Duration::from_secs(1);
    let n_ops = cfg.ops / 2 + rng.usize(cfg.ops);
    for i in 0..n_ops {
        w.step(&mut rng, acc).await;
        // replication traffic with the peer, including uuid clashes (conflict entries)
        if let Some(p) = peer.as_ref() {
            if rng.chance(1, 12) {
                let u = rng.uuid();
                let t1 = w.now;
                let r1 = async {
                    let mut wr = p.write(t1).await.map_err(e2s)?;
                    wr.internal_create(vec![person_entry(u, &format!("clashp{i}"))]).map_err(e2s)?;
                    wr.commit().map_err(e2s)
                }
                .await;
                w.now += Duration::from_millis(1 + rng.below(2000));
                let t2 = w.now;
                let r2 = async {
                    let mut wr = w.qs.write(t2).await.map_err(e2s)?;
                    wr.internal_create(vec![person_entry(u, &format!("clasha{i}"))]).map_err(e2s)?;
                    wr.commit().map_err(e2s)
                }
                .await;
                w.now += Duration::from_millis(1 + rng.below(2000));
                let r3 = repl(p, &w.qs, w.now).await;
                acc.count(&format!(
                    "op.uuid_clash.{}",
                    if r1.is_ok() && r2.is_ok() && r3.is_ok() { "ok" } else { "refused" }
                ));
                w.m.history.push(format!("uuid_clash {u}: peer={r1:?} orig={r2:?} repl={r3:?}"));
                w.now += Duration::from_millis(1 + rng.below(2000));
            } else if rng.chance(1, 10) {
                // a plain change on the peer, pulled by the original
                let u = rng.uuid();
                let t1 = w.now;
                let r1 = async {
                    let mut wr = p.write(t1).await.map_err(e2s)?;
                    wr.internal_create(vec![person_entry(u, &format!("peerp{i}"))]).map_err(e2s)?;
                    wr.commit().map_err(e2s)
                }
                .await;
                w.now += Duration::from_millis(1 + rng.below(2000));
                let r3 = repl(p, &w.qs, w.now).await;
                match &r3 {
                    Ok(k) => acc.count(&format!("op.pull_from_peer.{k}")),
                    Err(_) => acc.count("op.pull_from_peer.refused"),
                }
                w.m.history.push(format!("peer_create {u}: {r1:?} pull={r3:?}"));
                w.now += Duration::from_millis(1 + rng.below(2000));
            } else if rng.chance(1, 14) {
                let r = repl(&w.qs, p, w.now).await;
                match &r {
                    Ok(k) => acc.count(&format!("op.push_to_peer.{k}")),
                    Err(_) => acc.count("op.push_to_peer.refused"),
                }
                w.m.history.push(format!("push_to_peer: {r:?}"));
                w.now += Duration::from_millis(1 + rng.below(2000));
            }
        }
    }
    // make recycle-bin / tombstone / trimmed-RUV states likely: a late burst of time and purges
    if rng.chance(2, 3) {
        w.now += Duration::from_secs(rng.range(1, 9) * DAY);
        let now = w.now;
        if let Ok(mut wr) = w.qs.write(now).await {
            let r = wr.purge_recycled().and_then(|n| wr.commit().map(|_| n));
            acc.count(if r.is_ok() { "op.late_purge_recycled.ok" } else { "op.late_purge_recycled.refused" });
            w.m.history.push(format!("late purge_recycled: {r:?}"));
        }
        w.now += Duration::from_secs(1);
        if rng.chance(1, 2) {
            w.now += Duration::from_secs(rng.range(1, 9) * DAY);
            let now = w.now;
            if let Ok(mut wr) = w.qs.write(now).await {
                let r = wr.purge_tombstones().and_then(|n| wr.commit().map(|_| n));
                acc.count(if r.is_ok() { "op.late_purge_tombstones.ok" } else { "op.late_purge_tombstones.refused" });
                w.m.history.push(format!("late purge_tombstones: {r:?}"));
            }
            w.now += Duration::from_secs(1);
        }
        for _ in 0..rng.usize(6) {
            w.step(&mut rng, acc).await;
        }
    }
    drop(peer);
    let hist = w.m.history.clone();

    // ---- 1. observe the original at the backup point
    let dump_a = dumpn(&w.qs).await;
    let state_a = match repl_state(&w.qs).await {
        Ok(s) => s,
        Err(e) => harness_fail!(format!("repl state of original: {e}")),
    };
    let d_uuid_a = match w.qs.read().await {
        Ok(rd) => rd.get_domain_uuid(),
        Err(e) => harness_fail!(format!("read: {e:?}")),
    };
    let (n_live, n_rec, n_ts, n_conf) = kinds(&dump_a);
    acc.count_n("content.live", n_live as u64);
    acc.count_n("content.recycled", n_rec as u64);
    acc.count_n("content.tombstones", n_ts as u64);
    acc.count_n("content.conflicts", n_conf as u64);
    let ruv_servers = state_a
        .get("V1")
        .and_then(|v| v.get("ranges"))
        .and_then(|r| r.as_object())
        .map(|o| o.len())
        .unwrap_or(0);
    acc.count(&format!("ruv_servers.{}", ruv_servers.min(3)));
    let with_creds = dump_a.entries.values().filter(|e| srv::dump_attrs(e).map(|a| a.contains_key("primary_credential")).unwrap_or(false)).count();
    let with_sessions = dump_a.entries.values().filter(|e| srv::dump_attrs(e).map(|a| a.contains_key("user_auth_token_session")).unwrap_or(false)).count();
    let with_tokens = dump_a.entries.values().filter(|e| srv::dump_attrs(e).map(|a| a.contains_key("api_token_session")).unwrap_or(false)).count();
    acc.count_n("content.entries_with_credential", with_creds as u64);
    acc.count_n("content.entries_with_session", with_sessions as u64);
    acc.count_n("content.entries_with_api_token", with_tokens as u64);
    let vocab = Vocab {
        names: w.m.names.values().cloned().chain(["admin", "idm_admins", "anonymous"].iter().map(|s| s.to_string())).collect(),
        uuids: w.m.names.keys().copied().chain([UUID_ADMIN, UUID_IDM_ADMIN, UUID_ANONYMOUS]).collect(),
        groups: w.m.of(crate::content::Kind::Group).into_iter().chain(w.builtin_groups.iter().copied().take(12)).collect(),
    };
    let queries = gen_queries(&mut rng, &vocab, cfg.searches);
    let answers_at_backup = match answer_all(&w.qs, &queries).await {
        Ok(a) => a,
        Err(e) => harness_fail!(format!("searches on original: {e}")),
    };

    // ---- 2. online backups, both compressions
    let plain = dir.join("backup.json");
    let gz = dir.join("backup.json.gz");
    for (p, c) in [(&plain, BackupCompression::NoCompression), (&gz, BackupCompression::Gzip)] {
        let out = match std::fs::File::create(p) {
            Ok(f) => f,
            Err(e) => harness_fail!(format!("create backup file: {e}")),
        };
        let mut rd = match w.qs.read().await {
            Ok(r) => r,
            Err(e) => harness_fail!(format!("read: {e:?}")),
        };
        if let Err(e) = rd.get_be_txn().backup(out, c) {
            acc.violation(
                "c13/backup-refused",
                witness("backup of a healthy server returned Err", json!({"error": format!("{e:?}"), "compression": format!("{c}")}), &hist),
            );
            return;
        }
        acc.count(&format!("backup.{}", if c == BackupCompression::Gzip { "gzip" } else { "plain" }));
    }
    // harness self-test (never set by ./check): damage the plain backup the way a faulty backup/restore would
    let selftest = std::env::var("MIGSIM_SELFTEST").ok();
    if let Some(st) = selftest.as_deref() {
        if let Ok(raw) = std::fs::read(&plain) {
            if let Ok(mut j) = serde_json::from_slice::<Json>(&raw) {
                match st {
                    "c13-ts-max" => j["db_ts_max"] = json!({"secs": 1, "nanos": 0}),
                    "c13-ruv" => j["repl_meta"] = json!({"V1": {"ruv": []}}),
                    "c13-drop-entry" => {
                        if let Some(a) = j["entries"].as_array_mut() {
                            a.pop();
                        }
                    }
                    "c13-s-uuid" => j["db_s_uuid"] = json!(rng.uuid().to_string()),
                    "c13-d-uuid" => j["db_d_uuid"] = json!(rng.uuid().to_string()),
                    _ => {}
                }
                let _ = write_file(&plain, &serde_json::to_vec(&j).unwrap_or_default());
            }
        }
    }
    // the two files must carry the same document (checked with the system gzip, not kanidm's reader)
    match (std::fs::read(&plain), gunzip(&gz)) {
        (Ok(a), Ok(b)) => {
            if a != b && selftest.is_none() {
                acc.violation(
                    "c13/compressed-and-plain-backup-differ",
                    witness("gzip backup does not decompress to the plain backup taken from the same state", json!({"plain_len": a.len(), "gunzip_len": b.len()}), &hist),
                );
            }
        }
        (a, b) => harness_fail!(format!("reading backups: {:?} {:?}", a.err(), b.err())),
    }

    // ---- shut the original down, read its identifiers from the backend
    let World { qs: qs_a, m: model, .. } = w;
    drop(qs_a);
    let ct_start = match rng.below(3) {
        0 => T0 + Duration::from_secs(1 + rng.below(50)), // before everything stored
        1 => Duration::from_secs(model_last(&dump_a)),     // around the stored maximum
        _ => Duration::from_secs(model_last(&dump_a)) + Duration::from_secs(3600 + rng.below(10 * DAY)),
    };
    acc.count(match ct_start {
        c if c < T0 + Duration::from_secs(100) => "restart_clock.before_stored_max",
        c if c <= Duration::from_secs(model_last(&dump_a)) => "restart_clock.at_stored_max",
        _ => "restart_clock.after_stored_max",
    });
    let (be_a, schema_a) = match new_backend(&path_a, arc_a) {
        Ok(x) => x,
        Err(e) => harness_fail!(format!("reopen original backend: {e}")),
    };
    let ids_a = match read_ids(&be_a) {
        Ok(i) => i,
        Err(e) => harness_fail!(format!("ids of original: {e}")),
    };
    if ids_a.d_uuid != d_uuid_a {
        harness_fail!("domain uuid of original changed across reopen");
    }

    // ---- 5. negative cases (on their own fresh backend)
    let negs = match build_negatives(&dir, &plain, &gz, &mut rng) {
        Ok(n) => n,
        Err(e) => harness_fail!(format!("building negative cases: {e}")),
    };
    {
        let path_n = dir.join("neg.db");
        let (be_n, schema_n) = match new_backend(&path_n, Some(256)) {
            Ok(x) => x,
            Err(e) => harness_fail!(format!("negative backend: {e}")),
        };
        let ids_n0 = match read_ids(&be_n) {
            Ok(i) => i,
            Err(e) => harness_fail!(format!("ids: {e}")),
        };
        // ids are generated lazily and only persist on commit: commit them first
        {
            let mut wr = match be_n.write() {
                Ok(w) => w,
                Err(e) => harness_fail!(format!("{e:?}")),
            };
            let _ = wr.get_db_s_uuid();
            let _ = wr.get_db_d_uuid();
            if let Err(e) = wr.commit() {
                harness_fail!(format!("{e:?}"));
            }
        }
        let ids_n0 = read_ids(&be_n).unwrap_or(ids_n0);
        let mut any_accepted = false;
        for n in &negs {
            acc.eval();
            let r = {
                let mut wr = match be_n.write() {
                    Ok(w) => w,
                    Err(e) => harness_fail!(format!("{e:?}")),
                };
                let input = match std::fs::File::open(&n.file) {
                    Ok(f) => f,
                    Err(e) => harness_fail!(format!("open negative: {e}")),
                };
                let c = BackupCompression::identify_file(&n.file);
                let r = std::panic::catch_unwind(std::panic::AssertUnwindSafe(|| wr.restore(input, c)));
                match r {
                    Ok(Ok(())) => {
                        // the real tool would commit now
                        let c = wr.commit();
                        Ok(c)
                    }
                    Ok(Err(e)) => Err(format!("{e:?}")),
                    Err(_) => {
                        acc.count("panic_in_kanidm.restore_negative");
                        Err("panic".to_string())
                    }
                }
            };
            match r {
                Err(e) => {
                    acc.count(&format!("neg.{}.refused", n.label));
                    acc.observe("negative_refusal_errors", &format!("{}: {}", n.label, e.chars().take(60).collect::<String>()));
                }
                Ok(commit) => {
                    any_accepted = true;
                    acc.count(&format!("neg.{}.ACCEPTED", n.label));
                    if n.version_related {
                        acc.violation(
                            &format!("c13/foreign-version-backup-accepted:{}", n.label),
                            witness(
                                "a backup with an altered version / in an older format was restored without error",
                                json!({"negative_case": n.label, "commit": format!("{commit:?}"), "file_head": std::fs::read(&n.file).ok().map(|b| String::from_utf8_lossy(&b[..b.len().min(200)]).to_string())}),
                                &hist,
                            ),
                        );
                    } else if commit.is_ok() {
                        // damaged input accepted: judged on content only
                        let qs_n = QueryServer::new(be_n.clone(), Schema::new().expect("schema"), "example.com".into(), ct_start);
                        if let Ok(qs_n) = qs_n {
                            let d = dumpn(&qs_n).await;
                            let diffs = dump_a.diff(&d);
                            if !diffs.is_empty() {
                                acc.violation(
                                    &format!("c13/damaged-backup-accepted-with-different-content:{}", n.label),
                                    witness("a damaged backup file was restored without error and the result differs from the original", json!({"negative_case": n.label, "diffs": diffs.iter().take(10).collect::<Vec<_>>()}), &hist),
                                );
                            }
                        }
                    }
                }
            }
        }
        // refused restores never committed: the target must be what it was
        if !any_accepted {
            match read_ids(&be_n) {
                Ok(ids_n1) => {
                    if ids_n1 != ids_n0 {
                        acc.violation(
                            "c13/refused-restore-changed-target",
                            witness("after refused restores (never committed) the target backend's identifiers changed", json!({"before": format!("{ids_n0:?}"), "after": format!("{ids_n1:?}")}), &hist),
                        );
                    }
                }
                Err(e) => harness_fail!(format!("ids after negatives: {e}")),
            }
            // and it still comes up as a clean fresh server holding nothing from the backup
            if rng.chance(1, 3) {
                match start_server(be_n, schema_n, T0).await {
                    Ok(qs_n) => {
                        acc.count("neg.target_starts_fresh_afterwards");
                        let d = dumpn(&qs_n).await;
                        let leaked: Vec<String> = model
                            .names
                            .keys()
                            .filter(|u| d.entries.contains_key(u))
                            .map(|u| u.to_string())
                            .collect();
                        if !leaked.is_empty() {
                            acc.violation(
                                "c13/refused-restore-left-content",
                                witness("after refused restores the target holds entries from the backup", json!({"leaked": leaked}), &hist),
                            );
                        }
                    }
                    Err(_) => acc.count("neg.target_unusable_afterwards"),
                }
            }
        }
    }

    // ---- 3. restore both backups into fresh backends
    let mut restored: Vec<(&'static str, Restored)> = Vec::new();
    for (label, file, db) in [("plain", &plain, dir.join("b-plain.db")), ("gzip", &gz, dir.join("b-gzip.db"))] {
        acc.eval();
        let arc_b = *rng.pick(&[Some(32usize), Some(256), Some(2048), None]);
        match restore_into(&db, file, arc_b, ct_start).await {
            Ok(r) => {
                acc.count(&format!("restore.{label}.ok"));
                restored.push((label, r));
            }
            Err((stage, e)) => {
                if stage == "harness-io" || stage == "backend" {
                    harness_fail!(format!("{stage}: {e}"));
                }
                acc.violation(
                    &format!("c13/restore-of-own-backup-failed:{stage}"),
                    witness("restoring a backup just taken from a healthy server of the same version failed", json!({"compression": label, "stage": stage, "error": e}), &hist),
                );
            }
        }
    }
    if restored.is_empty() {
        return;
    }

    // observation X: before any start-up code ran on the restored database
    for (label, r) in &restored {
        let diffs = dump_a.diff(&r.pre_dump);
        if !diffs.is_empty() {
            acc.violation(
                &format!("c13/restored-entries-differ:{}", diff_class(&diffs)),
                witness("entries of the restored database differ from the original at the backup point", json!({"compression": label, "n_diffs": diffs.len(), "diffs": diffs.iter().take(8).collect::<Vec<_>>()}), &hist),
            );
        }
        if r.ids.s_uuid != ids_a.s_uuid {
            acc.violation("c13/server-uuid-differs", witness("server uuid differs after restore", json!({"compression": label, "original": ids_a.s_uuid.to_string(), "restored": r.ids.s_uuid.to_string()}), &hist));
        }
        if r.ids.d_uuid != ids_a.d_uuid {
            acc.violation("c13/domain-uuid-differs", witness("domain uuid differs after restore", json!({"compression": label, "original": ids_a.d_uuid.to_string(), "restored": r.ids.d_uuid.to_string()}), &hist));
        }
        if r.ids.ts_max != ids_a.ts_max {
            acc.violation("c13/max-change-time-differs", witness("stored maximum change time differs after restore", json!({"compression": label, "original": format!("{:?}", ids_a.ts_max), "restored": format!("{:?}", r.ids.ts_max)}), &hist));
        }
        if r.pre_state != state_a {
            acc.violation("c13/replication-state-differs", witness("replication update vector ranges differ after restore", json!({"compression": label, "original": state_a, "restored": r.pre_state}), &hist));
        }
    }

    // ---- 4. same start-up on both sides, same clock
    // The restore tool brings the database up once (initialise_helper + reindex) and exits; the
    // server is then started by a new process. The original goes through the same two start-ups.
    let ct_start2 = ct_start + Duration::from_millis(rng.below(5000));
    match start_server(be_a, schema_a, ct_start).await {
        Ok(q) => drop(q),
        Err(e) => harness_fail!(format!("first restart of original: {e}")),
    };
    let qs_a = match new_backend(&path_a, arc_a) {
        Ok((be, schema)) => match start_server(be, schema, ct_start2).await {
            Ok(q) => q,
            Err(e) => harness_fail!(format!("second restart of original: {e}")),
        },
        Err(e) => harness_fail!(format!("reopen original backend: {e}")),
    };
    let dump_a2 = dumpn(&qs_a).await;
    let state_a2 = match repl_state(&qs_a).await {
        Ok(s) => s,
        Err(e) => harness_fail!(format!("repl state of restarted original: {e}")),
    };
    let answers_a2 = match answer_all(&qs_a, &queries).await {
        Ok(a) => a,
        Err(e) => harness_fail!(format!("searches on restarted original: {e}")),
    };
    let changed_by_restart = answers_at_backup.iter().zip(answers_a2.iter()).filter(|(x, y)| x != y).count();
    acc.count_n("info.searches_answered_differently_by_original_after_its_own_restart", changed_by_restart as u64);
    for (i, (x, y)) in answers_at_backup.iter().zip(answers_a2.iter()).enumerate() {
        if x != y {
            acc.observe("info.search_changed_by_restart_of_original", &format!("{:?}: {} -> {} results", queries[i], x.as_ref().map(|s| s.len()).unwrap_or(0), y.as_ref().map(|s| s.len()).unwrap_or(0)).chars().take(300).collect::<String>());
        }
    }
    let restart_touched = dump_a.diff(&dump_a2).len();
    acc.count_n("info.entries_touched_by_startup_remigration", restart_touched as u64);
    // the canary clock: not later than the stored maximum (unless the start clock already was)
    let ct_canary = T0 + Duration::from_secs(60);
    let own_max = dump_a2
        .entries
        .values()
        .flat_map(cids_of)
        .filter(|(_, _, s)| *s == ids_a.s_uuid.to_string())
        .map(|(s, n, _)| (s, n))
        .max()
        .unwrap_or((0, 0));
    let canary_a = match canary(&qs_a, ct_canary).await {
        Ok(c) => c,
        Err(e) => harness_fail!(format!("canary on original: {e}")),
    };
    if (canary_a.0, canary_a.1) <= own_max {
        // the original itself does not order its next change after its stored ones: not C13's
        acc.count("info.original_canary_not_after_own_max");
    }
    let same_process_probe = rng.chance(1, 6);
    let mut nontrivial_key = format!(
        "{case_seed}|live={n_live}|rec={n_rec}|ts={n_ts}|conf={n_conf}|ruv={ruv_servers}|creds={with_creds}|sess={with_sessions}"
    );
    for (label, r) in restored.into_iter() {
        let Restored { qs: qs_tool, db: db_b, arcsize: arc_b, .. } = r;
        if let Err(e) = finish_start(&qs_tool, ct_start).await {
            acc.violation(
                "c13/restored-server-does-not-start",
                witness("the start-up procedure that works on the original fails on the restored database", json!({"compression": label, "error": e}), &hist),
            );
            continue;
        }
        // informational only: keep using the restore tool's process for a write (the real tool exits here)
        if same_process_probe && label == "gzip" {
            if canary(&qs_tool, ct_canary).await.is_ok() {
                let d = dumpn(&qs_tool).await;
                let lost: Vec<String> = dump_a2.entries.keys().filter(|u| !d.entries.contains_key(u)).map(|u| u.to_string()).collect();
                acc.count("info.same_process_write_after_restore.probes");
                if !lost.is_empty() {
                    acc.count("info.same_process_write_after_restore.existing_entry_overwritten");
                    acc.observe("info.same_process_write_after_restore.lost_entry", &lost[0]);
                }
            }
            continue;
        }
        // the tool's process ends here; the server process opens the database anew
        drop(qs_tool);
        let qs_b = match new_backend(&db_b, arc_b) {
            Ok((be, schema)) => match start_server(be, schema, ct_start2).await {
                Ok(q) => q,
                Err(e) => {
                    acc.violation(
                        "c13/restored-server-does-not-start",
                        witness("the server start that works on the original fails on the restored database", json!({"compression": label, "error": e}), &hist),
                    );
                    continue;
                }
            },
            Err(e) => harness_fail!(format!("reopen restored backend: {e}")),
        };
        let dump_b2 = dumpn(&qs_b).await;
        let diffs = dump_a2.diff(&dump_b2);
        if !diffs.is_empty() {
            acc.violation(
                &format!("c13/restored-diverges-after-identical-startup:{}", diff_class(&diffs)),
                witness("after the same start-up at the same clock the restored database differs from the original", json!({"compression": label, "n_diffs": diffs.len(), "diffs": diffs.iter().take(8).collect::<Vec<_>>(), "ct_start": format!("{ct_start:?}")}), &hist),
            );
        }
        match repl_state(&qs_b).await {
            Ok(s) => {
                if s != state_a2 {
                    acc.violation("c13/replication-state-differs-after-startup", witness("replication update vector ranges differ after identical start-up", json!({"compression": label, "original": state_a2, "restored": s}), &hist));
                }
            }
            Err(e) => harness_fail!(format!("repl state of restored: {e}")),
        }
        match answer_all(&qs_b, &queries).await {
            Ok(ans) => {
                let mut bad = Vec::new();
                for (i, (x, y)) in answers_a2.iter().zip(ans.iter()).enumerate() {
                    acc.count("searches_compared");
                    match x {
                        Ok(s) if !s.is_empty() => acc.count("searches_with_nonempty_answer"),
                        Ok(_) => acc.count("searches_with_empty_answer"),
                        Err(_) => acc.count("searches_refused_by_both"),
                    }
                    if x != y {
                        bad.push(json!({"query": format!("{:?}", queries[i]), "original": format!("{x:?}"), "restored": format!("{y:?}")}));
                    }
                }
                if !bad.is_empty() {
                    acc.violation(
                        "c13/search-answer-differs",
                        witness("a search is answered differently by the restored server", json!({"compression": label, "n": bad.len(), "first": bad.into_iter().take(3).collect::<Vec<_>>()}), &hist),
                    );
                }
            }
            Err(e) => harness_fail!(format!("searches on restored: {e}")),
        }
        match canary(&qs_b, ct_canary).await {
            Ok(c) => {
                acc.count("canary_writes_compared");
                if (c.0, c.1) <= own_max {
                    if (canary_a.0, canary_a.1) > own_max {
                        acc.violation(
                            "c13/next-change-not-after-stored-changes",
                            witness("the first write on the restored server got a change id not later than changes it already stores", json!({"compression": label, "canary_cid": format!("{c:?}"), "latest_own_stored": format!("{own_max:?}"), "original_canary_cid": format!("{canary_a:?}")}), &hist),
                        );
                    }
                } else if c != canary_a {
                    acc.violation(
                        "c13/next-change-id-differs",
                        witness("the same write at the same clock gets a different change id on the restored server", json!({"compression": label, "restored": format!("{c:?}"), "original": format!("{canary_a:?}")}), &hist),
                    );
                }
            }
            Err(e) => acc.violation(
                "c13/write-fails-on-restored",
                witness("a write accepted by the original is refused by the restored server", json!({"compression": label, "error": e}), &hist),
            ),
        }
        // verify() last: it commits at the wall clock
        let v = qs_b.verify().await;
        acc.count("verify_runs");
        if !v.is_empty() {
            let va = qs_a.verify().await;
            if va.is_empty() {
                acc.violation(
                    "c13/verify-fails-on-restored",
                    witness("verify() reports inconsistencies on the restored server but none on the original", json!({"compression": label, "errors": format!("{v:?}").chars().take(1500).collect::<String>()}), &hist),
                );
            } else {
                acc.count("info.verify_nonempty_on_original_too");
                acc.observe("info.verify_errors_on_original", &format!("case_seed={case_seed} {va:?}").chars().take(200).collect::<String>());
            }
        }
        nontrivial_key.push_str(&format!("|{label}"));
    }
    if n_rec + n_ts + n_conf > 0 && with_creds > 0 && n_live > 100 {
        acc.nontrivial(&nontrivial_key);
    }
    if acc.samples.len() < 3 {
        acc.sample(json!({"case_seed": case_seed, "ops": n_ops, "live": n_live, "recycled": n_rec, "tombstones": n_ts, "conflicts": n_conf,
            "ruv_servers": ruv_servers, "entries_with_credential": with_creds, "entries_with_session": with_sessions,
            "ct_start_secs": ct_start.as_secs(), "searches": queries.len(), "history_head": hist.iter().take(12).collect::<Vec<_>>()}));
    }
    drop(qs_a);
    drop(scratch);
}

/// seconds of the latest change stored in the dump
fn model_last(d: &Dump) -> u64 {
    d.entries
        .values()
        .flat_map(cids_of)
        .map(|(s, _, _)| s)
        .max()
        .unwrap_or(T0.as_secs())
}

pub fn run(args: Args) {
    let mut run = Run::new(
        args.clone(),
        "exploration",
        "random server histories (people, groups, service accounts, OAuth2 clients, memberships incl. built-in groups, password credentials, sessions, API tokens, POSIX, deletes, revives, purges over simulated days, optional replication peer with uuid clashes) on a file backed server; each history is backed up online uncompressed and gzip, restored into fresh backends by the real restore procedure and compared with the original; plus mutated backup files that must be refused; a history is non-trivial when the database holds recycled/tombstone/conflict entries, credentials and > 100 live entries; distinct by seed and content shape",
    );
    run.assume("kanidm is deterministic given the same database, server uuid and clock: the original and the restored server run the same start-up (initialise_helper + reindex) at the same simulated clock before search answers, later dumps and the next change id are compared");
    run.assume("the start-up of this pre-release build re-applies the last migration on every start; what start-up changes on the original is not attributed to restore");
    run.assume("searches use negation only as And(positive.., AndNot(x)); other negation shapes are index-plan dependent in this tree (C01) and are left to C01");
    let histories_per_worker: u64 = args.tier.pick(2, 19) * 16 / (args.workers.max(1) as u64).min(16);
    let cfg = CaseCfg {
        ops: args.tier.pick(70, 90),
        searches: args.tier.pick(120, 200),
    };
    let seed = args.seed;
    if let Some(p) = &args.replay {
        if let Some(w) = kvcore::run::load_replay(p) {
            let cs = w["case_seed"].as_u64().unwrap_or(0);
            let mut acc = Acc::new();
            srv::rt().block_on(history(cs, &cfg, &mut acc));
            run.acc.merge(acc);
            run.finish();
        }
    }
    run.parallel(args.workers, |w, _n| {
        let mut acc = Acc::new();
        let rt = srv::rt();
        for i in 0..histories_per_worker {
            let cs = kvcore::rng::mix(seed, w as u64, 1300 + i);
            let r = std::panic::catch_unwind(std::panic::AssertUnwindSafe(|| {
                let mut a = Acc::new();
                rt.block_on(history(cs, &cfg, &mut a));
                a
            }));
            match r {
                Ok(a) => {
                    acc.merge(a);
                    acc.count("histories");
                }
                Err(e) => {
                    let msg = e
                        .downcast_ref::<String>()
                        .cloned()
                        .or_else(|| e.downcast_ref::<&str>().map(|s| s.to_string()))
                        .unwrap_or_else(|| "panic".into());
                    acc.count("panic_in_case");
                    acc.inconclusive(&format!("case {cs}: panic: {}", msg.chars().take(300).collect::<String>()));
                }
            }
        }
        acc
    });
    let c = run.acc.counters.clone();
    let g = |k: &str| c.get(k).copied().unwrap_or(0);
    let nh = g("histories");
    run.require(nh >= args.tier.pick(24, 250), "too few histories completed");
    run.require(g("restore.plain.ok") >= nh * 9 / 10 && g("restore.gzip.ok") >= nh * 9 / 10, "too few successful restores (positive control)");
    run.require(g("searches_compared") >= 100 * nh, "fewer than 100 searches compared per history");
    run.require(g("searches_with_nonempty_answer") * 5 >= g("searches_compared"), "too few searches with a non-empty answer");
    run.require(g("canary_writes_compared") >= nh, "canary writes missing");
    run.require(g("verify_runs") >= nh, "verify() missing");
    run.require(g("content.recycled") > 0 && g("content.tombstones") > 0, "no recycled entries or tombstones in any backed-up database");
    run.require(g("content.conflicts") > 0, "no conflict entry in any backed-up database");
    run.require(g("content.entries_with_credential") > 0 && g("content.entries_with_session") > 0 && g("content.entries_with_api_token") > 0, "credentials / sessions / api tokens missing from the content");
    run.require(g("ruv_servers.2") + g("ruv_servers.3") > 0, "no backed-up database with more than one server in its RUV");
    run.require(g("restart_clock.before_stored_max") > 0, "no restored server was started with a clock earlier than the stored maximum change time");
    for n in ["version_altered", "version_altered_gzip", "format_v4_no_version", "format_v3", "format_v2", "format_v1", "version_not_a_string", "truncated_gzip", "garbage"] {
        run.require(g(&format!("neg.{n}.refused")) + g(&format!("neg.{n}.ACCEPTED")) >= nh * 9 / 10, &format!("negative case {n} not exercised"));
    }
    for k in ["create_person", "create_group", "create_service", "create_oauth2", "add_member", "set_password", "add_session", "add_api_token", "delete", "revive", "purge_recycled", "purge_tombstones", "uuid_clash"] {
        run.require(g(&format!("op.{k}.ok")) > 0, &format!("operation {k} never accepted"));
    }
    run.finish();
}
