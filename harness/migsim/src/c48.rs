//! C48 Upgrading the domain level preserves data and consistency.
//!
//! Per case: a file backed server is created at the PREVIOUS supported domain level
//! (`initialise_helper(ct, DOMAIN_PREVIOUS_TGT_LEVEL)`, as the upstream migration tests do), random
//! user content is created on it (content.rs), then it is upgraded to `DOMAIN_TGT_LEVEL` by one of the
//! two real paths: `domain_raise` + commit on the running server, or shut down and start again with
//! `initialise_helper(ct, DOMAIN_TGT_LEVEL)` (what a new server binary does with an old database).
//!
//! Oracle: the upgrade returns Ok (no panic); the domain version is the target; `verify()` is empty;
//! every user-created entry that existed before (live or recycled) still exists and every attribute the
//! workload set on it still holds every value it held before; every entry of a FRESH target-level
//! server exists (live) and holds a superset of the fresh server's values for every attribute whose
//! fresh value is deterministic (equal on two fresh servers created at different clocks - this drops
//! keys, secrets, cids, timestamps); members the workload added to built-in groups are still members.
//! Not judged (counted): other values added to built-in multi-valued attributes (badlist, denied
//! names), attributes of built-in entries the workload replaced.

use crate::c13::{dumpn, e2s, new_backend};
use crate::content::{Kind, World};
use kanidmd_lib::prelude::*;
use kvcore::srv::{self, T0};
use kvcore::{Acc, Args, Rng, Run, Scratch};
use serde_json::{json, Value as Json};
use std::collections::{BTreeMap, BTreeSet};

/// the values of a stored value set as a set of strings ({Tag: [v..]} -> {"Tag:v"..})
fn elems(vs: &Json) -> BTreeSet<String> {
    let mut out = BTreeSet::new();
    match vs.as_object() {
        Some(o) if o.len() == 1 => {
            for (tag, payload) in o {
                match payload.as_array() {
                    Some(a) => {
                        for x in a {
                            out.insert(format!("{tag}:{x}"));
                        }
                    }
                    None => {
                        out.insert(format!("{tag}:{payload}"));
                    }
                }
            }
        }
        _ => {
            out.insert(vs.to_string());
        }
    }
    out
}

type Expect = BTreeMap<Uuid, BTreeMap<String, BTreeSet<String>>>;

/// attribute values of a fresh target-level server that are the same on two fresh servers
async fn fresh_reference() -> Result<(Expect, usize, usize), String> {
    let f1 = srv::mk_server_at(None, 1, Some(2048), T0, DOMAIN_TGT_LEVEL).await.map_err(e2s)?;
    let f2 = srv::mk_server_at(None, 1, Some(2048), T0 + Duration::from_secs(7_777_777), DOMAIN_TGT_LEVEL)
        .await
        .map_err(e2s)?;
    let d1 = dumpn(&f1).await;
    let d2 = dumpn(&f2).await;
    let mut exp = Expect::new();
    let (mut kept, mut dropped) = (0, 0);
    for (u, e1) in &d1.entries {
        let Some(e2) = d2.entries.get(u) else { continue };
        if !srv::is_live(e1) {
            continue;
        }
        let (Some(a1), Some(a2)) = (srv::dump_attrs(e1), srv::dump_attrs(e2)) else { continue };
        let m = exp.entry(*u).or_default();
        for (k, v) in a1 {
            if a2.get(k) == Some(v) {
                m.insert(k.clone(), elems(v));
                kept += 1;
            } else {
                dropped += 1;
            }
        }
    }
    Ok((exp, kept, dropped))
}

pub struct CaseCfg {
    pub ops: usize,
}

enum Mode {
    RaiseLive,
    Restart,
}

async fn build(case_seed: u64, cfg: &CaseCfg, path: &std::path::Path, acc: &mut Acc) -> Result<(World, Rng), String> {
    let mut rng = Rng::new(case_seed);
    let arc = *rng.pick(&[Some(64usize), Some(2048), None]);
    let qs = srv::mk_server_at(Some(path), 2, arc, T0, DOMAIN_PREVIOUS_TGT_LEVEL)
        .await
        .map_err(|e| format!("previous-level server init: {e:?}"))?;
    let mut w = World::new(qs, T0 + Duration::from_secs(100)).await?;
    let n_ops = cfg.ops / 2 + rng.usize(cfg.ops);
    for _ in 0..n_ops {
        w.step(&mut rng, acc).await;
    }
    Ok((w, rng))
}

async fn case(case_seed: u64, cfg: &CaseCfg, exp: &Expect, acc: &mut Acc) {
    let scratch = Scratch::new("migsim-c48");
    let path = scratch.path().join("u.db");
    macro_rules! harness_fail {
        ($msg:expr) => {{
            acc.inconclusive(&format!("case {case_seed}: harness: {}", $msg));
            return;
        }};
    }
    let (w, mut rng) = match build(case_seed, cfg, &path, acc).await {
        Ok(x) => x,
        Err(e) => harness_fail!(e),
    };
    acc.eval();
    let hist = w.m.history.clone();
    let witness = |what: &str, extra: Json| -> Json {
        let n = hist.len();
        json!({"case_seed": case_seed, "what": what, "detail": extra, "history_len": n,
               "history_tail": hist[n.saturating_sub(40)..].to_vec()})
    };
    let before = dumpn(&w.qs).await;
    let v0 = match w.qs.read().await {
        Ok(rd) => rd.get_domain_version(),
        Err(e) => harness_fail!(format!("{e:?}")),
    };
    if v0 != DOMAIN_PREVIOUS_TGT_LEVEL {
        harness_fail!(format!("server is at level {v0}, not the previous level"));
    }
    let World { qs, m: model, now, .. } = w;
    let ct = now + Duration::from_secs(rng.below(3 * 86_400));
    let mode = if rng.bool() { Mode::RaiseLive } else { Mode::Restart };
    let mode_s = match mode {
        Mode::RaiseLive => "domain_raise_on_running_server",
        Mode::Restart => "restart_with_new_target_level",
    };
    acc.count(&format!("upgrade_mode.{mode_s}"));
    // ---- the upgrade
    let up = std::panic::AssertUnwindSafe(async {
        match mode {
            Mode::RaiseLive => {
                let mut wr = qs.write(ct).await.map_err(e2s)?;
                wr.domain_raise(DOMAIN_TGT_LEVEL).map_err(|e| format!("domain_raise: {e:?}"))?;
                wr.commit().map_err(|e| format!("commit: {e:?}"))?;
                Ok::<QueryServer, String>(qs)
            }
            Mode::Restart => {
                drop(qs);
                let (be, schema) = new_backend(&path, Some(2048))?;
                let qs = QueryServer::new(be, schema, "example.com".to_string(), ct).map_err(e2s)?;
                qs.initialise_helper(ct, DOMAIN_TGT_LEVEL)
                    .await
                    .map_err(|e| format!("initialise_helper: {e:?}"))?;
                Ok(qs)
            }
        }
    });
    let r = {
        use futures::FutureExt;
        up.catch_unwind().await
    };
    let qs = match r {
        Ok(Ok(qs)) => qs,
        Ok(Err(e)) => {
            acc.violation(
                &format!("c48/upgrade-failed:{mode_s}"),
                witness("upgrading the previous level database with user content returned an error", json!({"error": e})),
            );
            return;
        }
        Err(p) => {
            let msg = p
                .downcast_ref::<String>()
                .cloned()
                .or_else(|| p.downcast_ref::<&str>().map(|s| s.to_string()))
                .unwrap_or_else(|| "panic".into());
            acc.violation(
                &format!("c48/upgrade-panicked:{mode_s}"),
                witness("upgrading the previous level database with user content panicked (debug assertion in the migration)", json!({"panic": msg.chars().take(500).collect::<String>()})),
            );
            return;
        }
    };
    acc.count("upgrade.ok");
    let v1 = match qs.read().await {
        Ok(rd) => rd.get_domain_version(),
        Err(e) => harness_fail!(format!("{e:?}")),
    };
    if v1 != DOMAIN_TGT_LEVEL {
        acc.violation("c48/level-not-raised", witness("after the upgrade the domain version is not the target level", json!({"version": v1, "mode": mode_s})));
    }
    // harness self-test (never set by ./check): damage the upgraded server the way a faulty migration would
    if let Ok(st) = std::env::var("MIGSIM_SELFTEST") {
        let mut wr = qs.write(ct + Duration::from_secs(1)).await.expect("selftest write");
        match st.as_str() {
            "c48-drop-member" => {
                if let Some((g, mem)) = model.builtin_members.iter().find(|(_, m)| model.live.contains_key(m)) {
                    let _ = wr.internal_modify_uuid(*g, &ModifyList::new_list(vec![Modify::Removed(Attribute::Member, PartialValue::Refer(*mem))]));
                }
            }
            "c48-drop-new-builtin" => {
                if let Some(u) = exp.keys().find(|u| !before.entries.contains_key(u)) {
                    let _ = wr.internal_delete_uuid(*u);
                }
            }
            "c48-drop-builtin-value" => {
                let _ = wr.internal_modify_uuid(UUID_IDM_ADMINS, &ModifyList::new_purge(Attribute::Member));
            }
            "c48-drop-user-value" => {
                if let Some(u) = model.set_attrs.iter().find(|(u, a)| a.contains("description") && model.live.contains_key(u)).map(|(u, _)| *u) {
                    let _ = wr.internal_modify_uuid(u, &ModifyList::new_purge(Attribute::Description));
                }
            }
            _ => {}
        }
        wr.commit().expect("selftest commit");
    }
    let after = dumpn(&qs).await;

    // ---- user-created entries keep what was set on them
    let mut n_user = 0;
    for (u, attrs) in &model.set_attrs {
        let Some(b) = before.entries.get(u) else { continue };
        if srv::is_tombstone(b) {
            continue;
        }
        n_user += 1;
        let state = if srv::is_recycled(b) { "recycled" } else { "live" };
        acc.count(&format!("user_entries_checked.{state}"));
        let Some(a) = after.entries.get(u) else {
            acc.violation(&format!("c48/user-entry-lost:{state}"), witness("a user-created entry does not exist after the upgrade", json!({"uuid": u.to_string(), "name": model.names.get(u), "mode": mode_s})));
            continue;
        };
        if srv::is_tombstone(a) || (state == "live" && !srv::is_live(a)) {
            acc.violation(&format!("c48/user-entry-lost:{state}"), witness("a user-created entry is no longer live after the upgrade", json!({"uuid": u.to_string(), "classes": srv::dump_classes(a), "mode": mode_s})));
            continue;
        }
        let (Some(ba), Some(aa)) = (srv::dump_attrs(b), srv::dump_attrs(a)) else { continue };
        let mut names: Vec<&str> = attrs.iter().map(|s| s.as_str()).collect();
        names.push("class");
        names.push("uuid");
        for k in names {
            let Some(bv) = ba.get(k) else { continue };
            acc.count("user_values_checked");
            let mut want = elems(bv);
            // sessions and tokens that expire, and revoked-session records, are removed by the passage
            // of time whenever their entry is written: only never-expiring ones are judged
            let n0 = want.len();
            match k {
                "user_auth_token_session" | "oauth2_session" => want.retain(|e| e.contains("\"e\":\"nv\"")),
                "api_token_session" => want.retain(|e| e.contains("\"e\":null")),
                _ => {}
            }
            acc.count_n("info.expiring_session_values_not_judged", (n0 - want.len()) as u64);
            let have = aa.get(k).map(elems).unwrap_or_default();
            let missing: Vec<&String> = want.difference(&have).collect();
            if !missing.is_empty() {
                acc.violation(
                    &format!("c48/user-value-lost:{k}"),
                    witness("a value set by the user on a user-created entry is gone after the upgrade", json!({"uuid": u.to_string(), "attr": k, "missing": missing.iter().take(4).map(|s| s.chars().take(200).collect::<String>()).collect::<Vec<_>>(), "before": bv.to_string().chars().take(300).collect::<String>(), "after": aa.get(k).map(|v| v.to_string().chars().take(300).collect::<String>()), "mode": mode_s})),
                );
            }
        }
    }
    // ---- every built-in entry of a fresh target-level server, with its defined values
    for (u, attrs) in exp {
        acc.count("builtin_entries_checked");
        let existed = before.entries.contains_key(u);
        let tag = if existed { "existing-entry" } else { "new-entry" };
        let Some(a) = after.entries.get(u) else {
            acc.violation(&format!("c48/builtin-entry-missing:{tag}"), witness("an entry of a fresh target-level server does not exist after the upgrade", json!({"uuid": u.to_string(), "fresh_name": attrs.get("name"), "mode": mode_s})));
            continue;
        };
        if !srv::is_live(a) {
            acc.violation(&format!("c48/builtin-entry-missing:{tag}"), witness("an entry of a fresh target-level server is not live after the upgrade", json!({"uuid": u.to_string(), "classes": srv::dump_classes(a), "mode": mode_s})));
            continue;
        }
        if !existed {
            acc.count("builtin_entries_new_at_target_level");
        }
        let Some(aa) = srv::dump_attrs(a) else { continue };
        for (k, want) in attrs {
            if model.builtin_touched.contains(&(*u, k.clone())) {
                acc.count("info.builtin_attr_replaced_by_user_not_judged");
                continue;
            }
            acc.count("builtin_values_checked");
            let have = aa.get(k).map(elems).unwrap_or_default();
            let missing: Vec<&String> = want.difference(&have).collect();
            if !missing.is_empty() {
                acc.violation(
                    &format!("c48/builtin-value-missing:{tag}:{k}"),
                    witness("a built-in entry lacks a value that a fresh target-level server defines for it", json!({"uuid": u.to_string(), "name": aa.get("name"), "attr": k, "missing": missing.iter().take(4).map(|s| s.chars().take(200).collect::<String>()).collect::<Vec<_>>(), "after": aa.get(k).map(|v| v.to_string().chars().take(300).collect::<String>()), "mode": mode_s})),
                );
            }
        }
    }
    // ---- memberships added to built-in groups
    for (g, mem) in &model.builtin_members {
        if !model.live.contains_key(mem) {
            continue;
        }
        // only if it really was there before the upgrade
        let was = before.entries.get(g).map(|e| srv::dump_strs(e, "member").contains(&mem.to_string())).unwrap_or(false);
        if !was {
            continue;
        }
        acc.count("user_added_builtin_members_checked");
        let is = after.entries.get(g).map(|e| srv::dump_strs(e, "member").contains(&mem.to_string())).unwrap_or(false);
        if !is {
            acc.violation("c48/user-added-builtin-member-lost", witness("a member the user added to a built-in group is gone after the upgrade", json!({"group": g.to_string(), "member": mem.to_string(), "mode": mode_s})));
        }
    }
    for (u, attr, key) in &model.builtin_values {
        let was = before.entries.get(u).map(|e| srv::dump_strs(e, attr).iter().any(|s| s == key)).unwrap_or(false);
        if !was {
            continue;
        }
        acc.count("info.user_added_builtin_values_observed");
        let is = after.entries.get(u).map(|e| srv::dump_strs(e, attr).iter().any(|s| s == key)).unwrap_or(false);
        if !is {
            acc.count(&format!("info.user_added_builtin_value_lost.{attr}"));
        }
    }
    // ---- consistency check (last: it commits at the wall clock)
    let v = qs.verify().await;
    acc.count("verify_runs");
    if !v.is_empty() {
        // attributable to the upgrade only if the same history verifies clean without it
        drop(qs);
        let scratch2 = Scratch::new("migsim-c48v");
        let mut scrap = Acc::new();
        let clean_before = match build(case_seed, cfg, &scratch2.path().join("u.db"), &mut scrap).await {
            Ok((w2, _)) => w2.qs.verify().await.is_empty(),
            Err(_) => false,
        };
        if clean_before {
            acc.violation("c48/verify-fails-after-upgrade", witness("verify() is clean before the upgrade and reports inconsistencies after it", json!({"errors": format!("{v:?}").chars().take(1500).collect::<String>(), "mode": mode_s})));
        } else {
            acc.count("info.verify_nonempty_before_upgrade_too");
            acc.observe("info.verify_errors_before_upgrade", &format!("case_seed={case_seed} {v:?}").chars().take(200).collect::<String>());
        }
    }
    let kinds: Vec<usize> = [Kind::Person, Kind::Group, Kind::Service, Kind::OAuth2].iter().map(|k| model.of(*k).len()).collect();
    let live_bm = model.builtin_members.iter().filter(|(_, m)| model.live.contains_key(m)).count();
    if kinds.iter().all(|n| *n > 0) && live_bm > 1 {
        acc.nontrivial(&format!("{case_seed}|{kinds:?}|bm={live_bm}|{mode_s}"));
    }
    if acc.samples.len() < 3 {
        acc.sample(json!({"case_seed": case_seed, "mode": mode_s, "user_entries": n_user, "persons_groups_services_oauth2": kinds,
            "memberships_in_builtin_groups": live_bm, "history_head": hist.iter().take(12).collect::<Vec<_>>()}));
    }
}

pub fn run(args: Args) {
    let mut run = Run::new(
        args.clone(),
        "exploration",
        "random user content (people, groups, service accounts, OAuth2 clients with scope maps, memberships incl. built-in groups, credentials, sessions, API tokens, POSIX, badlist / denied-name additions, deletes and revives) on a server created at the previous domain level, then upgraded by domain_raise on the running server or by a restart with the new target level; non-trivial = at least one live person, group, service account and OAuth2 client and >= 2 memberships added to built-in groups; distinct by seed, content shape and upgrade path",
    );
    run.assume("the reference for built-in entries is a fresh target-level server; only attributes whose stored value is identical on two fresh servers created at different clocks are judged");
    run.assume("initialise_helper(ct, DOMAIN_PREVIOUS_TGT_LEVEL) on an empty database yields what the previous release's database looks like (as the upstream migration tests assume)");
    let cases_per_worker: u64 = args.tier.pick(4, 60) * 16 / (args.workers.max(1) as u64).min(16);
    let cfg = CaseCfg { ops: args.tier.pick(70, 90) };
    let seed = args.seed;
    let (exp, kept, dropped) = match srv::rt().block_on(fresh_reference()) {
        Ok(x) => x,
        Err(e) => {
            run.acc.inconclusive(&format!("harness: fresh reference servers: {e}"));
            run.finish();
        }
    };
    run.extra("fresh_reference", json!({"entries": exp.len(), "deterministic_attributes_judged": kept, "nondeterministic_attributes_ignored": dropped}));
    run.extra("levels", json!({"previous": DOMAIN_PREVIOUS_TGT_LEVEL, "target": DOMAIN_TGT_LEVEL}));
    if let Some(p) = &args.replay {
        if let Some(w) = kvcore::run::load_replay(p) {
            let cs = w["case_seed"].as_u64().unwrap_or(0);
            let mut acc = Acc::new();
            srv::rt().block_on(case(cs, &cfg, &exp, &mut acc));
            run.acc.merge(acc);
            run.finish();
        }
    }
    let exp_ref = &exp;
    let cfg_ref = &cfg;
    run.parallel(args.workers, |w, _n| {
        let mut acc = Acc::new();
        let rt = srv::rt();
        for i in 0..cases_per_worker {
            let cs = kvcore::rng::mix(seed, w as u64, 4800 + i);
            let r = std::panic::catch_unwind(std::panic::AssertUnwindSafe(|| {
                let mut a = Acc::new();
                rt.block_on(case(cs, cfg_ref, exp_ref, &mut a));
                a
            }));
            match r {
                Ok(a) => {
                    acc.merge(a);
                    acc.count("cases");
                }
                Err(e) => {
                    let msg = e
                        .downcast_ref::<String>()
                        .cloned()
                        .or_else(|| e.downcast_ref::<&str>().map(|s| s.to_string()))
                        .unwrap_or_else(|| "panic".into());
                    acc.count("panic_in_case");
                    acc.inconclusive(&format!("case {cs}: panic outside the upgrade: {}", msg.chars().take(300).collect::<String>()));
                }
            }
        }
        acc
    });
    let c = run.acc.counters.clone();
    let g = |k: &str| c.get(k).copied().unwrap_or(0);
    let n = g("cases");
    run.require(n >= args.tier.pick(40, 800), "too few cases completed");
    run.require(g("upgrade.ok") >= n * 9 / 10, "too few successful upgrades");
    run.require(g("upgrade_mode.domain_raise_on_running_server") > 0 && g("upgrade_mode.restart_with_new_target_level") > 0, "an upgrade path was never taken");
    run.require(g("user_entries_checked.live") >= 8 * n && g("user_entries_checked.recycled") > 0, "too few user entries checked");
    run.require(g("user_values_checked") >= 40 * n, "too few user-set values checked");
    run.require(g("builtin_entries_checked") >= 50 * n && g("builtin_values_checked") >= 400 * n, "too few built-in entries / values checked");
    run.require(g("user_added_builtin_members_checked") >= n, "too few memberships in built-in groups checked");
    run.require(g("verify_runs") >= n * 9 / 10, "verify() missing");
    for k in ["create_person", "create_group", "create_service", "create_oauth2", "add_member", "set_password", "add_session", "add_api_token", "scope_map", "builtin_value", "delete"] {
        run.require(g(&format!("op.{k}.ok")) > 0, &format!("operation {k} never accepted at the previous level"));
    }
    run.finish();
}
