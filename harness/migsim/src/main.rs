//! migsim engine: backup/restore (C13) and domain-level upgrade (C48) of random server content.
//! See /verif/DESIGN.md section 2 and /verif/harness/AGENT_GUIDE.md.
#[macro_use]
extern crate kanidmd_lib;

mod c13;
mod c48;
mod content;

fn main() {
    let args = kvcore::parse_args();
    // debugging aid for replays only: MIGSIM_TRACE=1 RUST_LOG=... shows kanidm's own log
    if std::env::var("MIGSIM_TRACE").is_ok() {
        sketching::test_init();
    }
    match args.prop.as_str() {
        "C13" => c13::run(args),
        "C48" => c48::run(args),
        p => {
            println!("INCONCLUSIVE property={p} reason=migsim does not serve this property");
            std::process::exit(2);
        }
    }
}
