//! Random server-level content for the migsim properties (C13 backup/restore, C48 domain upgrade):
//! people, groups, service accounts, OAuth2 clients, memberships (also in built-in groups),
//! credentials, sessions, API tokens, POSIX extensions, deletes / revives / purges, with simulated time.
//!
//! Everything goes through the public `internal_*` write API of the real server. Every operation may
//! be refused (`Err`): refusals are counted, never judged here.

use kanidm_lib_crypto::CryptoPolicy;
use kanidmd_lib::credential::Credential;
use kanidmd_lib::entry::{Entry, EntryInit, EntryNew};
use kanidmd_lib::event::ReviveRecycledEvent;
use kanidmd_lib::prelude::*;
use kanidmd_lib::value::{
    ApiToken, ApiTokenScope, AuthType, Session, SessionExtMetadata, SessionScope, SessionState,
};
use kvcore::{Acc, Rng};
use std::collections::{BTreeMap, BTreeSet};

pub const DAY: u64 = 86_400;
pub const UUID_RBADMIN: Uuid = uuid!("aaaaaaaa-0000-4000-8000-00000000ad01");

#[derive(Clone, Copy, Debug, PartialEq, Eq, PartialOrd, Ord)]
pub enum Kind {
    Person,
    Group,
    Service,
    OAuth2,
}

#[derive(Default, Clone, Debug)]
pub struct Model {
    /// live user-created entries
    pub live: BTreeMap<Uuid, Kind>,
    /// user-created entries sent to the recycle bin (may have been purged since)
    pub deleted: BTreeMap<Uuid, Kind>,
    pub names: BTreeMap<Uuid, String>,
    /// attributes the workload set on user-created entries
    pub set_attrs: BTreeMap<Uuid, BTreeSet<String>>,
    /// members the workload added to built-in groups: (group, member)
    pub builtin_members: BTreeSet<(Uuid, Uuid)>,
    /// other values added (additively) to multi-valued attributes of built-in entries
    pub builtin_values: BTreeSet<(Uuid, String, String)>,
    /// (built-in entry, attribute) pairs the workload replaced or purged (not additive)
    pub builtin_touched: BTreeSet<(Uuid, String)>,
    /// persons that hold a primary credential: person -> credential uuid
    pub creds: BTreeMap<Uuid, Uuid>,
    pub history: Vec<String>,
    name_seq: u32,
}

impl Model {
    pub fn of(&self, k: Kind) -> Vec<Uuid> {
        self.live
            .iter()
            .filter(|(_, v)| **v == k)
            .map(|(u, _)| *u)
            .collect()
    }
    pub fn any_live(&self) -> Vec<Uuid> {
        self.live.keys().copied().collect()
    }
    fn note(&mut self, u: Uuid, attr: Attribute) {
        self.set_attrs
            .entry(u)
            .or_default()
            .insert(attr.as_str().to_string());
    }
    fn fresh_name(&mut self, rng: &mut Rng, prefix: &str) -> String {
        self.name_seq += 1;
        format!("{prefix}{}x{:03}", self.name_seq, rng.below(1000))
    }
}

pub struct World {
    pub qs: QueryServer,
    pub now: Duration,
    pub m: Model,
    /// built-in (non dynamic) groups found at start-up
    pub builtin_groups: Vec<Uuid>,
}

fn e2s(e: OperationError) -> String {
    format!("{e:?}")
}

fn pick<T: Copy>(rng: &mut Rng, v: &[T]) -> Option<T> {
    if v.is_empty() {
        None
    } else {
        Some(v[rng.usize(v.len())])
    }
}

pub const DESCS: &[&str] = &["alpha team", "beta group", "gamma ray", "delta", "omega alpha"];
const SCOPES: &[&str] = &["openid", "email", "profile", "groups", "read", "write"];
const SSH_KEY: &str = "ssh-ed25519 AAAAC3NzaC1lZDI1NTE5AAAAIFFQ+V/aZK7GsS/S6zlyIwR2zUTKzC0iFXV1Zu9x4m5u verif@harness";

/// first value of key `k` anywhere below `j` that parses as a uuid
pub fn find_key(j: &serde_json::Value, k: &str) -> Option<Uuid> {
    match j {
        serde_json::Value::Object(m) => {
            if let Some(v) = m.get(k).and_then(|v| v.as_str()).and_then(|s| Uuid::parse_str(s).ok()) {
                return Some(v);
            }
            m.values().find_map(|v| find_key(v, k))
        }
        serde_json::Value::Array(a) => a.iter().find_map(|v| find_key(v, k)),
        _ => None,
    }
}

pub fn person_entry(u: Uuid, name: &str) -> Entry<EntryInit, EntryNew> {
    entry_init!(
        (Attribute::Class, EntryClass::Object.to_value()),
        (Attribute::Class, EntryClass::Account.to_value()),
        (Attribute::Class, EntryClass::Person.to_value()),
        (Attribute::Name, Value::new_iname(name)),
        (Attribute::Uuid, Value::Uuid(u)),
        (Attribute::DisplayName, Value::new_utf8s(name))
    )
}

impl World {
    pub async fn new(qs: QueryServer, start: Duration) -> Result<World, String> {
        let mut w = World {
            qs,
            now: start,
            m: Model::default(),
            builtin_groups: Vec::new(),
        };
        // built-in plain groups, and the recycle-bin admin used for revive
        {
            let mut wr = w.qs.write(w.now).await.map_err(e2s)?;
            let gs = wr
                .internal_search(filter!(f_and!([
                    f_eq(Attribute::Class, EntryClass::Group.into()),
                    f_andnot(f_eq(Attribute::Class, EntryClass::DynGroup.into()))
                ])))
                .map_err(e2s)?;
            w.builtin_groups = gs.iter().map(|e| e.get_uuid()).collect();
            w.builtin_groups.sort();
            let mut e = person_entry(UUID_RBADMIN, "rbadmin");
            e.add_ava(
                Attribute::Description,
                Value::new_utf8s("harness recycle bin admin"),
            );
            wr.internal_create(vec![e]).map_err(e2s)?;
            wr.internal_modify_uuid(
                UUID_IDM_RECYCLE_BIN_ADMINS,
                &ModifyList::new_list(vec![Modify::Present(
                    Attribute::Member,
                    Value::Refer(UUID_RBADMIN),
                )]),
            )
            .map_err(e2s)?;
            wr.commit().map_err(e2s)?;
        }
        w.m.live.insert(UUID_RBADMIN, Kind::Person);
        w.m.names.insert(UUID_RBADMIN, "rbadmin".into());
        for a in [Attribute::Name, Attribute::DisplayName, Attribute::Description] {
            w.m.note(UUID_RBADMIN, a);
        }
        w.m.builtin_members
            .insert((UUID_IDM_RECYCLE_BIN_ADMINS, UUID_RBADMIN));
        w.now += Duration::from_secs(1);
        Ok(w)
    }

    fn tick(&mut self, rng: &mut Rng) {
        let d = match rng.below(10) {
            0..=5 => Duration::from_millis(1 + rng.below(5000)),
            6..=7 => Duration::from_nanos(1 + rng.below(3)),
            _ => Duration::from_secs(60 + rng.below(7200)),
        };
        self.now += d;
    }

    /// One random operation in its own write transaction. Returns the kind label.
    pub async fn step(&mut self, rng: &mut Rng, acc: &mut Acc) -> &'static str {
        let w: &[u32] = &[
            12, // create person
            8,  // create group
            5,  // create service
            4,  // create oauth2
            12, // add member
            4,  // remove member
            8,  // text attr
            3,  // rename
            6,  // password
            6,  // session
            4,  // api token
            4,  // posix
            3,  // validity
            7,  // delete
            3,  // revive
            4,  // builtin value
            3,  // advance days
            2,  // purge recycled
            2,  // purge tombstones
            3,  // scope map
            2,  // ssh key / radius
            2,  // policy on group
        ];
        let k = rng.weighted(w);
        let (label, r) = self.do_op(k, rng).await;
        match &r {
            Ok(s) => {
                acc.count(&format!("op.{label}.ok"));
                self.m.history.push(format!("{label}: {s}"));
            }
            Err(e) => {
                acc.count(&format!("op.{label}.refused"));
                let mut e = e.clone();
                e.truncate(160);
                self.m.history.push(format!("{label}: REFUSED {e}"));
            }
        }
        self.tick(rng);
        label
    }

    async fn do_op(&mut self, k: usize, rng: &mut Rng) -> (&'static str, Result<String, String>) {
        let now = self.now;
        let mut wr = match self.qs.write(now).await {
            Ok(w) => w,
            Err(e) => return ("write_txn", Err(e2s(e))),
        };
        // the model is only updated after a successful commit
        let mut m = self.m.clone();
        let (label, r): (&'static str, Result<String, String>) = match k {
            0 => ("create_person", {
                let u = rng.uuid();
                let name = m.fresh_name(rng, "p");
                let mut e = person_entry(u, &name);
                m.note(u, Attribute::Name);
                m.note(u, Attribute::DisplayName);
                if rng.chance(2, 3) {
                    e.add_ava(
                        Attribute::Description,
                        Value::new_utf8s(rng.pick(DESCS)),
                    );
                    m.note(u, Attribute::Description);
                }
                if rng.chance(1, 2) {
                    if let Some(v) = Value::new_email_address_primary_s(&format!("{name}@example.com")) {
                        e.add_ava(Attribute::Mail, v);
                        m.note(u, Attribute::Mail);
                    }
                }
                if rng.chance(1, 3) {
                    e.add_ava(Attribute::LegalName, Value::new_utf8s(&format!("Legal {name}")));
                    m.note(u, Attribute::LegalName);
                }
                wr.internal_create(vec![e]).map_err(e2s).map(|_| {
                    m.live.insert(u, Kind::Person);
                    m.names.insert(u, name.clone());
                    format!("{name} {u}")
                })
            }),
            1 => ("create_group", {
                let u = rng.uuid();
                let name = m.fresh_name(rng, "g");
                let mut e = entry_init!(
                    (Attribute::Class, EntryClass::Object.to_value()),
                    (Attribute::Class, EntryClass::Group.to_value()),
                    (Attribute::Name, Value::new_iname(&name)),
                    (Attribute::Uuid, Value::Uuid(u))
                );
                m.note(u, Attribute::Name);
                if rng.chance(1, 2) {
                    e.add_ava(Attribute::Description, Value::new_utf8s(rng.pick(DESCS)));
                    m.note(u, Attribute::Description);
                }
                let cands = m.any_live();
                let n = rng.usize(4);
                for _ in 0..n {
                    if let Some(mem) = pick(rng, &cands) {
                        e.add_ava(Attribute::Member, Value::Refer(mem));
                        m.note(u, Attribute::Member);
                    }
                }
                wr.internal_create(vec![e]).map_err(e2s).map(|_| {
                    m.live.insert(u, Kind::Group);
                    m.names.insert(u, name.clone());
                    format!("{name} {u}")
                })
            }),
            2 => ("create_service", {
                let u = rng.uuid();
                let name = m.fresh_name(rng, "s");
                let mut e = entry_init!(
                    (Attribute::Class, EntryClass::Object.to_value()),
                    (Attribute::Class, EntryClass::Account.to_value()),
                    (Attribute::Class, EntryClass::ServiceAccount.to_value()),
                    (Attribute::Name, Value::new_iname(&name)),
                    (Attribute::Uuid, Value::Uuid(u)),
                    (Attribute::DisplayName, Value::new_utf8s(&name))
                );
                m.note(u, Attribute::Name);
                m.note(u, Attribute::DisplayName);
                if rng.chance(1, 2) {
                    e.add_ava(Attribute::Description, Value::new_utf8s(rng.pick(DESCS)));
                    m.note(u, Attribute::Description);
                }
                if rng.chance(1, 3) {
                    if let Some(g) = pick(rng, &m.of(Kind::Group)) {
                        e.add_ava(Attribute::EntryManagedBy, Value::Refer(g));
                        m.note(u, Attribute::EntryManagedBy);
                    }
                }
                wr.internal_create(vec![e]).map_err(e2s).map(|_| {
                    m.live.insert(u, Kind::Service);
                    m.names.insert(u, name.clone());
                    format!("{name} {u}")
                })
            }),
            3 => ("create_oauth2", {
                let u = rng.uuid();
                let name = m.fresh_name(rng, "o");
                let public = rng.chance(1, 3);
                let mut e = entry_init!(
                    (Attribute::Class, EntryClass::Object.to_value()),
                    (Attribute::Class, EntryClass::Account.to_value()),
                    (Attribute::Class, EntryClass::OAuth2ResourceServer.to_value()),
                    (Attribute::Name, Value::new_iname(&name)),
                    (Attribute::Uuid, Value::Uuid(u)),
                    (Attribute::DisplayName, Value::new_utf8s(&name))
                );
                e.add_ava(
                    Attribute::Class,
                    if public {
                        EntryClass::OAuth2ResourceServerPublic.to_value()
                    } else {
                        EntryClass::OAuth2ResourceServerBasic.to_value()
                    },
                );
                if let Some(v) = Value::new_url_s(&format!("https://{name}.example.com/landing")) {
                    e.add_ava(Attribute::OAuth2RsOriginLanding, v);
                    m.note(u, Attribute::OAuth2RsOriginLanding);
                }
                if let Some(v) = Value::new_url_s(&format!("https://{name}.example.com/cb")) {
                    e.add_ava(Attribute::OAuth2RsOrigin, v);
                    m.note(u, Attribute::OAuth2RsOrigin);
                }
                m.note(u, Attribute::Name);
                m.note(u, Attribute::DisplayName);
                let groups = m.of(Kind::Group);
                for _ in 0..rng.usize(3) {
                    if let Some(g) = pick(rng, &groups) {
                        let mut sc = BTreeSet::new();
                        for _ in 0..(1 + rng.usize(3)) {
                            sc.insert(rng.pick(SCOPES).to_string());
                        }
                        if let Some(v) = Value::new_oauthscopemap(g, sc) {
                            e.add_ava(Attribute::OAuth2RsScopeMap, v);
                            m.note(u, Attribute::OAuth2RsScopeMap);
                        }
                    }
                }
                wr.internal_create(vec![e]).map_err(e2s).map(|_| {
                    m.live.insert(u, Kind::OAuth2);
                    m.names.insert(u, name.clone());
                    format!("{name} {u} public={public}")
                })
            }),
            4 => ("add_member", {
                let builtin = rng.chance(1, 3);
                let g = if builtin {
                    pick(rng, &self.builtin_groups)
                } else {
                    pick(rng, &m.of(Kind::Group))
                };
                let mut cands = m.of(Kind::Person);
                cands.extend(m.of(Kind::Service));
                if !builtin {
                    cands.extend(m.of(Kind::Group));
                }
                match (g, pick(rng, &cands)) {
                    (Some(g), Some(mem)) if g != mem => wr
                        .internal_modify_uuid(
                            g,
                            &ModifyList::new_list(vec![Modify::Present(
                                Attribute::Member,
                                Value::Refer(mem),
                            )]),
                        )
                        .map_err(e2s)
                        .map(|_| {
                            if builtin {
                                m.builtin_members.insert((g, mem));
                            } else {
                                m.note(g, Attribute::Member);
                            }
                            format!("{g} += {mem} builtin={builtin}")
                        }),
                    _ => Err("nothing to do".into()),
                }
            }),
            5 => ("remove_member", {
                match (pick(rng, &m.of(Kind::Group)), pick(rng, &m.any_live())) {
                    (Some(g), Some(mem)) => wr
                        .internal_modify_uuid(
                            g,
                            &ModifyList::new_list(vec![Modify::Removed(
                                Attribute::Member,
                                PartialValue::Refer(mem),
                            )]),
                        )
                        .map_err(e2s)
                        .map(|_| format!("{g} -= {mem}")),
                    _ => Err("nothing to do".into()),
                }
            }),
            6 => ("set_text", {
                match pick(rng, &m.any_live()) {
                    Some(u) => {
                        let kind = m.live[&u];
                        let (attr, val) = match (kind, rng.below(3)) {
                            (Kind::Group, _) | (_, 0) => (
                                Attribute::Description,
                                Value::new_utf8s(&format!("{} {}", rng.pick(DESCS), rng.below(50))),
                            ),
                            (_, 1) => (
                                Attribute::DisplayName,
                                Value::new_utf8s(&format!("Display {}", rng.below(1000))),
                            ),
                            _ => (
                                Attribute::Description,
                                Value::new_utf8s(rng.pick(DESCS)),
                            ),
                        };
                        wr.internal_modify_uuid(
                            u,
                            &ModifyList::new_purge_and_set(attr.clone(), val),
                        )
                        .map_err(e2s)
                        .map(|_| {
                            m.note(u, attr.clone());
                            format!("{u} {attr}")
                        })
                    }
                    None => Err("nothing to do".into()),
                }
            }),
            7 => ("rename", {
                match pick(rng, &m.any_live()) {
                    Some(u) if u != UUID_RBADMIN => {
                        let name = m.fresh_name(rng, "r");
                        wr.internal_modify_uuid(
                            u,
                            &ModifyList::new_purge_and_set(Attribute::Name, Value::new_iname(&name)),
                        )
                        .map_err(e2s)
                        .map(|_| {
                            m.names.insert(u, name.clone());
                            format!("{u} -> {name}")
                        })
                    }
                    _ => Err("nothing to do".into()),
                }
            }),
            8 => ("set_password", {
                match pick(rng, &m.of(Kind::Person)) {
                    Some(u) => {
                        let ts = time::OffsetDateTime::UNIX_EPOCH + now;
                        match Credential::new_password_only(
                            &CryptoPolicy::danger_test_minimum(),
                            &format!("correct horse {}", rng.below(100000)),
                            ts,
                        ) {
                            Ok(c) => {
                                let cu = rng.uuid(); // placeholder: the real id is read back when needed
                                wr.internal_modify_uuid(
                                    u,
                                    &ModifyList::new_purge_and_set(
                                        Attribute::PrimaryCredential,
                                        Value::new_credential("primary", c),
                                    ),
                                )
                                .map_err(e2s)
                                .map(|_| {
                                    m.note(u, Attribute::PrimaryCredential);
                                    m.creds.insert(u, cu);
                                    format!("{u} cred")
                                })
                            }
                            Err(e) => Err(e2s(e)),
                        }
                    }
                    None => Err("nothing to do".into()),
                }
            }),
            9 => ("add_session", {
                let holders: Vec<Uuid> = m
                    .creds
                    .keys()
                    .copied()
                    .filter(|u| m.live.contains_key(u))
                    .collect();
                match pick(rng, &holders) {
                    Some(u) => {
                        let sid = rng.uuid();
                        // the credential's uuid is crate-private: read it from the stored form
                        let cred_id = wr
                            .internal_search_uuid(u)
                            .ok()
                            .and_then(|e| serde_json::to_value(e.to_dbentry()).ok())
                            .and_then(|j| {
                                kvcore::srv::dump_attrs(&j)
                                    .and_then(|a| a.get("primary_credential"))
                                    .and_then(|c| find_key(c, "uuid"))
                            })
                            .unwrap_or_else(|| rng.uuid());
                        let issued_at = time::OffsetDateTime::UNIX_EPOCH + now;
                        let state = match rng.below(3) {
                            0 => SessionState::NeverExpires,
                            _ => SessionState::ExpiresAt(
                                issued_at + Duration::from_secs(3600 + rng.below(30 * DAY)),
                            ),
                        };
                        let sess = Value::Session(
                            sid,
                            Session {
                                label: format!("sess{}", rng.below(100)),
                                state,
                                issued_at,
                                issued_by: IdentityId::User(u),
                                cred_id,
                                scope: if rng.bool() {
                                    SessionScope::ReadOnly
                                } else {
                                    SessionScope::PrivilegeCapable
                                },
                                type_: AuthType::Password,
                                ext_metadata: SessionExtMetadata::default(),
                            },
                        );
                        wr.internal_modify_uuid(
                            u,
                            &ModifyList::new_append(Attribute::UserAuthTokenSession, sess),
                        )
                        .map_err(e2s)
                        .map(|_| {
                            m.note(u, Attribute::UserAuthTokenSession);
                            format!("{u} session {sid}")
                        })
                    }
                    None => Err("nothing to do".into()),
                }
            }),
            10 => ("add_api_token", {
                match pick(rng, &m.of(Kind::Service)) {
                    Some(u) => {
                        let tid = rng.uuid();
                        let issued_at = time::OffsetDateTime::UNIX_EPOCH + now;
                        let tok = Value::ApiToken(
                            tid,
                            ApiToken {
                                label: format!("tok{}", rng.below(100)),
                                expiry: if rng.bool() {
                                    None
                                } else {
                                    Some(issued_at + Duration::from_secs(rng.below(60 * DAY)))
                                },
                                issued_at,
                                issued_by: IdentityId::User(UUID_RBADMIN),
                                scope: if rng.bool() {
                                    ApiTokenScope::ReadOnly
                                } else {
                                    ApiTokenScope::ReadWrite
                                },
                            },
                        );
                        wr.internal_modify_uuid(
                            u,
                            &ModifyList::new_append(Attribute::ApiTokenSession, tok),
                        )
                        .map_err(e2s)
                        .map(|_| {
                            m.note(u, Attribute::ApiTokenSession);
                            format!("{u} token {tid}")
                        })
                    }
                    None => Err("nothing to do".into()),
                }
            }),
            11 => ("posix_extend", {
                let mut cands = m.of(Kind::Person);
                cands.extend(m.of(Kind::Group));
                match pick(rng, &cands) {
                    Some(u) => {
                        let gid = 70_000 + rng.below(500_000) as u32;
                        let mut ml = vec![Modify::Present(
                            Attribute::GidNumber,
                            Value::new_uint32(gid),
                        )];
                        if m.live[&u] == Kind::Person {
                            ml.insert(
                                0,
                                Modify::Present(Attribute::Class, EntryClass::PosixAccount.to_value()),
                            );
                            if rng.bool() {
                                ml.push(Modify::Present(
                                    Attribute::LoginShell,
                                    Value::new_iutf8("/bin/zsh"),
                                ));
                            }
                        } else {
                            ml.insert(
                                0,
                                Modify::Present(Attribute::Class, EntryClass::PosixGroup.to_value()),
                            );
                        }
                        let shell = ml.len() == 3;
                        wr.internal_modify_uuid(u, &ModifyList::new_list(ml))
                            .map_err(e2s)
                            .map(|_| {
                                m.note(u, Attribute::GidNumber);
                                if shell {
                                    m.note(u, Attribute::LoginShell);
                                }
                                format!("{u} gid {gid}")
                            })
                    }
                    None => Err("nothing to do".into()),
                }
            }),
            12 => ("validity", {
                let mut cands = m.of(Kind::Person);
                cands.extend(m.of(Kind::Service));
                match pick(rng, &cands) {
                    Some(u) => {
                        let (attr, t) = if rng.bool() {
                            (Attribute::AccountExpire, now + Duration::from_secs(rng.below(400 * DAY)))
                        } else {
                            (Attribute::AccountValidFrom, now - Duration::from_secs(rng.below(40 * DAY)))
                        };
                        let t = Duration::from_secs(t.as_secs());
                        wr.internal_modify_uuid(
                            u,
                            &ModifyList::new_purge_and_set(attr.clone(), Value::new_datetime_epoch(t)),
                        )
                        .map_err(e2s)
                        .map(|_| {
                            m.note(u, attr.clone());
                            format!("{u} {attr}")
                        })
                    }
                    None => Err("nothing to do".into()),
                }
            }),
            13 => ("delete", {
                match pick(rng, &m.any_live()) {
                    Some(u) if u != UUID_RBADMIN => {
                        wr.internal_delete_uuid(u).map_err(e2s).map(|_| {
                            if let Some(k) = m.live.remove(&u) {
                                m.deleted.insert(u, k);
                            }
                            m.builtin_members.retain(|(_, mem)| *mem != u);
                            format!("{u}")
                        })
                    }
                    _ => Err("nothing to do".into()),
                }
            }),
            14 => ("revive", {
                let cands: Vec<Uuid> = m.deleted.keys().copied().collect();
                match pick(rng, &cands) {
                    Some(u) => (|| {
                        let admin = wr
                            .internal_search_uuid(UUID_RBADMIN)
                            .map_err(|e| format!("no rbadmin: {e:?}"))?;
                        let ident = Identity::from_impersonate_entry_readwrite(admin);
                        let filter = filter_all!(f_eq(Attribute::Uuid, PartialValue::Uuid(u)))
                            .validate(wr.get_schema())
                            .map_err(|e| format!("{e:?}"))?;
                        let re = ReviveRecycledEvent { ident, filter };
                        wr.revive_recycled(&re).map_err(e2s)?;
                        if let Some(k) = m.deleted.remove(&u) {
                            m.live.insert(u, k);
                        }
                        // memberships are not restored by a revive: nothing about member is
                        // asserted for this entry any more
                        Ok(format!("{u}"))
                    })(),
                    None => Err("nothing to do".into()),
                }
            }),
            15 => ("builtin_value", {
                let which = rng.below(4);
                let tag = rng.below(10_000);
                let (u, attr, val, key): (Uuid, Attribute, Value, String) = match which {
                    0 => {
                        let s = format!("verif-bad-password-{tag}");
                        (UUID_SYSTEM_CONFIG, Attribute::BadlistPassword, Value::new_iutf8(&s), s)
                    }
                    1 => {
                        let s = format!("deniedname{tag}");
                        (UUID_SYSTEM_CONFIG, Attribute::DeniedName, Value::new_iname(&s), s)
                    }
                    2 => {
                        let s = format!("Verif Domain {tag}");
                        (UUID_DOMAIN_INFO, Attribute::DomainDisplayName, Value::new_utf8s(&s), s)
                    }
                    _ => {
                        let s = format!("anonymous-extra-{tag}");
                        (UUID_ANONYMOUS, Attribute::Description, Value::new_utf8s(&s), s)
                    }
                };
                let additive = which < 2;
                let ml = if additive {
                    ModifyList::new_list(vec![Modify::Present(attr.clone(), val)])
                } else {
                    ModifyList::new_purge_and_set(attr.clone(), val)
                };
                wr.internal_modify_uuid(u, &ml).map_err(e2s).map(|_| {
                    if additive {
                        m.builtin_values.insert((u, attr.as_str().to_string(), key.clone()));
                    } else {
                        m.builtin_touched.insert((u, attr.as_str().to_string()));
                    }
                    format!("{u} {attr} {key}")
                })
            }),
            16 => ("advance_days", {
                let d = 1 + rng.below(5);
                self.now += Duration::from_secs(d * DAY + rng.below(DAY));
                Ok(format!("{d}d"))
            }),
            17 => ("purge_recycled", wr.purge_recycled().map_err(e2s).map(|n| format!("{n}"))),
            18 => ("purge_tombstones", wr.purge_tombstones().map_err(e2s).map(|n| format!("{n}"))),
            19 => ("scope_map", {
                match (pick(rng, &m.of(Kind::OAuth2)), pick(rng, &m.of(Kind::Group))) {
                    (Some(o), Some(g)) => {
                        let mut sc = BTreeSet::new();
                        for _ in 0..(1 + rng.usize(3)) {
                            sc.insert(rng.pick(SCOPES).to_string());
                        }
                        let sup = rng.chance(1, 3);
                        let attr = if sup {
                            Attribute::OAuth2RsSupScopeMap
                        } else {
                            Attribute::OAuth2RsScopeMap
                        };
                        match Value::new_oauthscopemap(g, sc) {
                            Some(v) => wr
                                .internal_modify_uuid(
                                    o,
                                    &ModifyList::new_list(vec![Modify::Present(attr.clone(), v)]),
                                )
                                .map_err(e2s)
                                .map(|_| {
                                    m.note(o, attr.clone());
                                    format!("{o} {attr} {g}")
                                }),
                            None => Err("bad scope map".into()),
                        }
                    }
                    _ => Err("nothing to do".into()),
                }
            }),
            20 => ("ssh_or_radius", {
                match pick(rng, &m.of(Kind::Person)) {
                    Some(u) => {
                        if rng.bool() {
                            match Value::new_sshkey_str(&format!("key{}", rng.below(5)), SSH_KEY) {
                                Ok(v) => wr
                                    .internal_modify_uuid(
                                        u,
                                        &ModifyList::new_list(vec![Modify::Present(
                                            Attribute::SshPublicKey,
                                            v,
                                        )]),
                                    )
                                    .map_err(e2s)
                                    .map(|_| {
                                        m.note(u, Attribute::SshPublicKey);
                                        format!("{u} sshkey")
                                    }),
                                Err(e) => Err(e2s(e)),
                            }
                        } else {
                            wr.internal_modify_uuid(
                                u,
                                &ModifyList::new_purge_and_set(
                                    Attribute::RadiusSecret,
                                    Value::new_secret_str(&format!("radius-secret-{}", rng.below(1_000_000))),
                                ),
                            )
                            .map_err(e2s)
                            .map(|_| {
                                m.note(u, Attribute::RadiusSecret);
                                format!("{u} radius")
                            })
                        }
                    }
                    None => Err("nothing to do".into()),
                }
            }),
            _ => ("group_policy", {
                match pick(rng, &m.of(Kind::Group)) {
                    Some(g) => wr
                        .internal_modify_uuid(
                            g,
                            &ModifyList::new_list(vec![
                                Modify::Present(Attribute::Class, EntryClass::AccountPolicy.to_value()),
                                Modify::Purged(Attribute::AuthSessionExpiry),
                                Modify::Present(
                                    Attribute::AuthSessionExpiry,
                                    Value::new_uint32(600 + rng.below(86_400) as u32),
                                ),
                            ]),
                        )
                        .map_err(e2s)
                        .map(|_| {
                            m.note(g, Attribute::AuthSessionExpiry);
                            format!("{g} policy")
                        }),
                    None => Err("nothing to do".into()),
                }
            }),
        };
        match r {
            Ok(s) => match wr.commit() {
                Ok(()) => {
                    self.m = m;
                    (label, Ok(s))
                }
                Err(e) => (label, Err(format!("commit: {e:?}"))),
            },
            Err(e) => {
                drop(wr);
                // the name sequence moves on even when refused (keeps names unique)
                self.m.name_seq = m.name_seq;
                (label, Err(e))
            }
        }
    }
}
