//! Shared simulation layer of the idmsim2 engine: one real `IdmServer` over a real `QueryServer`,
//! accounts created through the directory API, passwords set through real credential update
//! sessions, logins through the real auth state machine, OAuth2 clients created as entries, and an
//! event log with simulated timestamps. Nothing in here judges anything.

use kanidmd_lib::value::CredentialType;
use kanidm_proto::v1::{AuthCredential, AuthIssueSession, AuthMech, AuthStep};
use kanidmd_lib::entry::{Entry, EntryInit, EntryNew};
use kanidmd_lib::idm::authentication::AuthState;
use kanidmd_lib::idm::credupdatesession::InitCredentialUpdateEvent;
use kanidmd_lib::idm::delayed::DelayedAction;
use kanidm_proto::oauth2::{
    AccessTokenIntrospectRequest, AccessTokenIntrospectResponse, AccessTokenRequest,
    AccessTokenResponse, AuthorisationRequest, ClientPostAuth, GrantTypeReq, TokenRevokeRequest,
};
use kanidmd_lib::idm::account::DestroySessionTokenEvent;
use kanidmd_lib::idm::event::AuthEvent;
use kanidmd_lib::idm::oauth2::{
    AuthorisationRequestContext, AuthoriseResponse, Oauth2Error, OidcToken,
};
use kanidmd_lib::idm::server::IdmServerTransaction;
use kanidmd_lib::prelude::*;
use kvcore::Rng;
use serde_json::{json, Value as Json};
use std::collections::{BTreeMap, BTreeSet};
use std::str::FromStr;

pub use compact_jwt::JwsCompact;

/// One line of the event log.
#[derive(Clone, Debug)]
pub struct Event {
    pub t: u64,
    pub call: &'static str,
    pub args: Json,
    pub result: String,
}

pub struct Sim {
    pub qs: QueryServer,
    pub idms: IdmServer,
    pub delayed: IdmServerDelayed,
    pub _audit: IdmServerAudit,
    /// simulated clock, seconds since epoch; never decreases
    pub now: u64,
    pub log: Vec<Event>,
    /// delayed actions that could not be applied even on their own
    pub delayed_failures: u64,
}

pub fn origin() -> Url {
    Url::parse("https://idm.example.com").expect("origin")
}

/// A password that passes the quality checks and is distinct per index.
pub fn password_for(i: u64) -> String {
    format!("eiYee7ohghohp5wei-{i}-Quoh9ohsh6chae")
}

#[derive(Clone, Debug)]
pub struct Login {
    pub token: String,
}

/// Our own copy of an OAuth2 client configuration: what we wrote, not what kanidm loaded.
#[derive(Clone, Debug)]
pub struct ClientCfg {
    pub name: String,
    pub uuid: Uuid,
    pub public: bool,
    /// only meaningful for public clients
    pub allow_localhost: bool,
    /// only meaningful for basic clients: `oauth2_allow_insecure_client_disable_pkce`
    pub disable_pkce: bool,
    /// only meaningful for basic clients
    pub consent_prompt: Option<bool>,
    pub landing: String,
    /// extra redirect URIs / opaque app URIs (`oauth2_rs_origin`)
    pub origins: Vec<String>,
    pub scope_maps: BTreeMap<Uuid, BTreeSet<String>>,
    pub sup_scope_maps: BTreeMap<Uuid, BTreeSet<String>>,
    pub refresh_expiry: Option<u32>,
    /// `oauth2_jwt_legacy_crypto_enable`: sign with RS256 instead of ES256
    pub legacy_crypto: bool,
    /// filled after creation for basic clients
    pub secret: Option<String>,
}

impl ClientCfg {
    pub fn requires_pkce(&self) -> bool {
        self.public || !self.disable_pkce
    }
    pub fn to_json(&self) -> Json {
        json!({
            "name": self.name, "public": self.public, "allow_localhost": self.allow_localhost,
            "disable_pkce": self.disable_pkce, "consent_prompt": self.consent_prompt,
            "landing": self.landing, "origins": self.origins,
            "scope_maps": self.scope_maps.iter().map(|(k, v)| (k.to_string(), v.clone())).collect::<BTreeMap<_, _>>(),
            "sup_scope_maps": self.sup_scope_maps.iter().map(|(k, v)| (k.to_string(), v.clone())).collect::<BTreeMap<_, _>>(),
        })
    }
}

fn err_class<E: std::fmt::Debug>(e: &E) -> String {
    let s = format!("{e:?}");
    // keep the variant name only
    let end = s
        .find(|c: char| !(c.is_alphanumeric() || c == '_'))
        .unwrap_or(s.len());
    format!("Err({})", &s[..end])
}

impl Sim {
    pub async fn new(qs: QueryServer, start: u64) -> Result<Sim, String> {
        let (idms, delayed, audit) =
            IdmServer::new(qs.clone(), &origin(), true, Duration::from_secs(start))
                .await
                .map_err(|e| format!("IdmServer::new: {e:?}"))?;
        Ok(Sim {
            qs,
            idms,
            delayed,
            _audit: audit,
            now: start,
            log: Vec::new(),
            delayed_failures: 0,
        })
    }

    pub async fn new_mem(start: u64) -> Result<Sim, String> {
        let qs = kvcore::srv::mk_server_at(
            None,
            1,
            Some(2048),
            Duration::from_secs(start),
            DOMAIN_TGT_LEVEL,
        )
        .await
        .map_err(|e| format!("server init: {e:?}"))?;
        Sim::new(qs, start).await
    }

    /// A file-backed server at `path` (created when absent, re-opened when present).
    pub async fn open_file(path: &std::path::Path, now: u64) -> Result<Sim, String> {
        let qs = kvcore::srv::mk_server_at(
            Some(path),
            4,
            Some(2048),
            Duration::from_secs(now),
            DOMAIN_TGT_LEVEL,
        )
        .await
        .map_err(|e| format!("server open: {e:?}"))?;
        Sim::new(qs, now).await
    }

    pub fn ct(&self) -> Duration {
        Duration::from_secs(self.now)
    }

    pub fn advance(&mut self, secs: u64) {
        self.now += secs;
    }

    pub fn record<T, E: std::fmt::Debug>(
        &mut self,
        call: &'static str,
        args: Json,
        r: &Result<T, E>,
    ) {
        let result = match r {
            Ok(_) => "Ok".to_string(),
            Err(e) => err_class(e),
        };
        self.log.push(Event {
            t: self.now,
            call,
            args,
            result,
        });
    }

    pub fn log_tail(&self, n: usize) -> Vec<Json> {
        let s = self.log.len().saturating_sub(n);
        self.log[s..]
            .iter()
            .map(|e| json!({"t": e.t, "call": e.call, "args": e.args, "result": e.result}))
            .collect()
    }

    /// Let password-only credentials exist and authenticate: the default policy of idm_all_persons
    /// demands MFA. Written like an administrator would (a modify of the policy attribute).
    pub async fn relax_credential_policy(&mut self) -> Result<(), String> {
        let ct = self.ct();
        let mut w = self.idms.proxy_write(ct).await.map_err(|e| format!("{e:?}"))?;
        w.qs_write
            .internal_modify_uuid(
                UUID_IDM_ALL_PERSONS,
                &ModifyList::new_purge_and_set(
                    Attribute::CredentialTypeMinimum,
                    CredentialType::Any.into(),
                ),
            )
            .map_err(|e| format!("relax policy: {e:?}"))?;
        w.commit().map_err(|e| format!("{e:?}"))
    }

    /// Create entries through the directory API inside an IDM write transaction (so that the IDM
    /// layer reloads what it caches, exactly like the server's request handlers do).
    pub async fn create(&mut self, entries: Vec<Entry<EntryInit, EntryNew>>) -> Result<(), String> {
        let ct = self.ct();
        let mut w = self.idms.proxy_write(ct).await.map_err(|e| format!("{e:?}"))?;
        w.qs_write
            .internal_create(entries)
            .map_err(|e| format!("create: {e:?}"))?;
        w.commit().map_err(|e| format!("commit: {e:?}"))
    }

    pub async fn modify_uuid(
        &mut self,
        uuid: Uuid,
        ml: &ModifyList<ModifyInvalid>,
    ) -> Result<(), OperationError> {
        let ct = self.ct();
        let mut w = self.idms.proxy_write(ct).await?;
        w.qs_write.internal_modify_uuid(uuid, ml)?;
        w.commit()
    }

    /// Several modifications of the same entry, one after the other, in ONE write transaction.
    pub async fn modify_uuid_seq(
        &mut self,
        uuid: Uuid,
        mls: &[ModifyList<ModifyInvalid>],
    ) -> Result<(), OperationError> {
        let ct = self.ct();
        let mut w = self.idms.proxy_write(ct).await?;
        for ml in mls {
            w.qs_write.internal_modify_uuid(uuid, ml)?;
        }
        w.commit()
    }

    pub fn person_entry(name: &str, uuid: Uuid) -> Entry<EntryInit, EntryNew> {
        entry_init!(
            (Attribute::Class, EntryClass::Object.to_value()),
            (Attribute::Class, EntryClass::Account.to_value()),
            (Attribute::Class, EntryClass::Person.to_value()),
            (Attribute::Name, Value::new_iname(name)),
            (Attribute::Uuid, Value::Uuid(uuid)),
            (Attribute::Description, Value::new_utf8s(name)),
            (Attribute::DisplayName, Value::new_utf8s(name))
        )
    }

    pub fn group_entry(name: &str, uuid: Uuid, members: &[Uuid]) -> Entry<EntryInit, EntryNew> {
        let mut e: Entry<EntryInit, EntryNew> = entry_init!(
            (Attribute::Class, EntryClass::Object.to_value()),
            (Attribute::Class, EntryClass::Group.to_value()),
            (Attribute::Name, Value::new_iname(name)),
            (Attribute::Uuid, Value::Uuid(uuid))
        );
        for m in members {
            e.add_ava(Attribute::Member, Value::Refer(*m));
        }
        e
    }

    /// Set the primary password through a real credential update session.
    pub async fn set_password(&mut self, target: Uuid, pw: &str) -> Result<(), String> {
        let ct = self.ct();
        let cust = {
            let mut w = self.idms.proxy_write(ct).await.map_err(|e| format!("{e:?}"))?;
            let entry = w
                .qs_write
                .internal_search_uuid(target)
                .map_err(|e| format!("{e:?}"))?;
            let ident = Identity::from_impersonate_entry_readwrite(entry);
            let (cust, _st) = w
                .init_credential_update(&InitCredentialUpdateEvent::new(ident, target), ct)
                .map_err(|e| format!("init_credential_update: {e:?}"))?;
            w.commit().map_err(|e| format!("{e:?}"))?;
            cust
        };
        {
            let cutxn = self
                .idms
                .cred_update_transaction()
                .await
                .map_err(|e| format!("{e:?}"))?;
            cutxn
                .credential_primary_set_password(&cust, ct, pw)
                .map_err(|e| format!("set_password: {e:?}"))?;
        }
        let mut w = self.idms.proxy_write(ct).await.map_err(|e| format!("{e:?}"))?;
        w.commit_credential_update(&cust, ct)
            .map_err(|e| format!("commit_credential_update: {e:?}"))?;
        w.commit().map_err(|e| format!("{e:?}"))
    }

    /// Drain delayed actions (session records etc) into the database the way the server's task
    /// does: the batch in one transaction; when any action fails, each action again on its own.
    pub async fn drain_delayed(&mut self) -> usize {
        use futures::FutureExt;
        let mut n = 0;
        loop {
            let mut buf: Vec<DelayedAction> = Vec::with_capacity(16);
            // unconstrained: tokio's cooperative budget must not make a ready queue look empty
            let got = tokio::task::unconstrained(self.delayed.recv_many(&mut buf)).now_or_never();
            match got {
                Some(k) if k > 0 => {
                    let ct = self.ct();
                    let mut retry = false;
                    let mut notes: Vec<(&'static str, OperationError)> = Vec::new();
                    match self.idms.proxy_write(ct).await {
                        Ok(mut w) => {
                            for da in &buf {
                                if let Err(e) = w.process_delayedaction(da, ct) {
                                    retry = true;
                                    notes.push(("delayed_action_batch", e));
                                    break;
                                }
                            }
                            if let Err(e) = w.commit() {
                                retry = true;
                                notes.push(("delayed_action_commit", e));
                            }
                        }
                        Err(_) => retry = true,
                    }
                    for (call, e) in notes {
                        self.record::<(), _>(call, json!({}), &Err(e));
                    }
                    if retry {
                        for da in &buf {
                            let r = match self.idms.proxy_write(ct).await {
                                Ok(mut w) => w.process_delayedaction(da, ct).and_then(|_| w.commit()),
                                Err(e) => Err(e),
                            };
                            if r.is_err() {
                                self.delayed_failures += 1;
                                self.record("delayed_action_retry", json!({"action": format!("{da:?}").chars().take(60).collect::<String>()}), &r);
                            }
                        }
                    }
                    n += k;
                }
                _ => break,
            }
        }
        n
    }

    async fn auth_flow(
        &mut self,
        username: &str,
        mech: AuthMech,
        cred: AuthCredential,
    ) -> Result<Login, String> {
        let ct = self.ct();
        let r: Result<Login, String> = async {
            let mut a = self.idms.auth().await.map_err(|e| format!("{e:?}"))?;
            let init = AuthEvent::from_message(
                None,
                AuthStep::Init2 {
                    username: username.to_string(),
                    issue: AuthIssueSession::Token,
                    privileged: false,
                }
                .into(),
            )
            .map_err(|e| format!("{e:?}"))?;
            let r1 = a
                .auth(&init, ct, ClientAuthInfo::new(Source::Internal, None, None, None))
                .await
                .map_err(|e| format!("init: {e:?}"))?;
            let sid = r1.sessionid;
            if !matches!(r1.state, AuthState::Choose(_)) {
                return Err(format!("init state {:?}", r1.state));
            }
            let begin = AuthEvent::from_message(Some(sid), AuthStep::Begin(mech).into())
                .map_err(|e| format!("{e:?}"))?;
            let r2 = a
                .auth(&begin, ct, ClientAuthInfo::new(Source::Internal, None, None, None))
                .await
                .map_err(|e| format!("begin: {e:?}"))?;
            if !matches!(r2.state, AuthState::Continue(_)) {
                return Err(format!("begin state {:?}", r2.state));
            }
            let step = AuthEvent::from_message(Some(sid), AuthStep::Cred(cred).into())
                .map_err(|e| format!("{e:?}"))?;
            let r3 = a
                .auth(&step, ct, ClientAuthInfo::new(Source::Internal, None, None, None))
                .await
                .map_err(|e| format!("cred: {e:?}"))?;
            match r3.state {
                AuthState::Success(jws, _) => {
                    let token = jws.to_string();
                    Ok(Login { token })
                }
                s => Err(format!("cred state {s:?}")),
            }
        }
        .await;
        self.record("login", json!({"user": username}), &r);
        self.drain_delayed().await;
        r
    }

    pub async fn login(&mut self, username: &str, pw: &str) -> Result<Login, String> {
        self.auth_flow(
            username,
            AuthMech::Password,
            AuthCredential::Password(pw.to_string()),
        )
        .await
    }

    pub async fn login_anonymous(&mut self) -> Result<Login, String> {
        self.auth_flow("anonymous", AuthMech::Anonymous, AuthCredential::Anonymous)
            .await
    }

    /// Present a bearer token; the real validation path of every authenticated request.
    pub async fn ident_of(&mut self, token: &str) -> Result<Identity, OperationError> {
        let ct = self.ct();
        let jws = JwsCompact::from_str(token).map_err(|_| OperationError::InvalidState)?;
        let mut r = self.idms.proxy_read().await?;
        r.validate_client_auth_info_to_ident(
            ClientAuthInfo::new(Source::Internal, None, Some(jws), None),
            ct,
        )
    }

    /// Create an OAuth2 client entry from our configuration; returns the basic secret if any.
    pub async fn create_client(&mut self, cfg: &mut ClientCfg) -> Result<(), String> {
        let mut e: Entry<EntryInit, EntryNew> = entry_init!(
            (Attribute::Class, EntryClass::Object.to_value()),
            (Attribute::Class, EntryClass::Account.to_value()),
            (
                Attribute::Class,
                EntryClass::OAuth2ResourceServer.to_value()
            ),
            (Attribute::Uuid, Value::Uuid(cfg.uuid)),
            (Attribute::Name, Value::new_iname(&cfg.name)),
            (Attribute::DisplayName, Value::new_utf8s(&cfg.name))
        );
        if cfg.public {
            e.add_ava(
                Attribute::Class,
                EntryClass::OAuth2ResourceServerPublic.to_value(),
            );
            if cfg.allow_localhost {
                e.add_ava(Attribute::OAuth2AllowLocalhostRedirect, Value::new_bool(true));
            }
        } else {
            e.add_ava(
                Attribute::Class,
                EntryClass::OAuth2ResourceServerBasic.to_value(),
            );
            if cfg.disable_pkce {
                e.add_ava(
                    Attribute::OAuth2AllowInsecureClientDisablePkce,
                    Value::new_bool(true),
                );
            }
            if let Some(cp) = cfg.consent_prompt {
                e.add_ava(Attribute::OAuth2ConsentPromptEnable, Value::new_bool(cp));
            }
        }
        e.add_ava(
            Attribute::OAuth2RsOriginLanding,
            Value::new_url_s(&cfg.landing).ok_or("landing url")?,
        );
        for o in &cfg.origins {
            e.add_ava(
                Attribute::OAuth2RsOrigin,
                Value::new_url_s(o).ok_or_else(|| format!("origin url {o}"))?,
            );
        }
        for (g, s) in &cfg.scope_maps {
            e.add_ava(
                Attribute::OAuth2RsScopeMap,
                Value::new_oauthscopemap(*g, s.clone()).ok_or("scope map")?,
            );
        }
        for (g, s) in &cfg.sup_scope_maps {
            e.add_ava(
                Attribute::OAuth2RsSupScopeMap,
                Value::new_oauthscopemap(*g, s.clone()).ok_or("sup scope map")?,
            );
        }
        if let Some(x) = cfg.refresh_expiry {
            e.add_ava(Attribute::OAuth2RefreshTokenExpiry, Value::Uint32(x));
        }
        if cfg.legacy_crypto {
            e.add_ava(Attribute::OAuth2JwtLegacyCryptoEnable, Value::new_bool(true));
        }
        self.create(vec![e]).await?;
        if !cfg.public {
            let mut r = self.qs.read().await.map_err(|e| format!("{e:?}"))?;
            let ent = r
                .internal_search_uuid(cfg.uuid)
                .map_err(|e| format!("{e:?}"))?;
            cfg.secret = ent
                .get_ava_single_secret(Attribute::OAuth2RsBasicSecret)
                .map(str::to_string);
            if cfg.secret.is_none() {
                return Err("no basic secret generated".into());
            }
        }
        Ok(())
    }

    /// The token endpoint, driven like the server's request handler drives it: commit on success
    /// and on `InvalidGrant` (a detected refresh token reuse revokes inside the failed request).
    pub async fn token_endpoint(
        &mut self,
        client_id: Option<&str>,
        secret: Option<&str>,
        grant: GrantTypeReq,
    ) -> Result<AccessTokenResponse, Oauth2Error> {
        let ct = self.ct();
        let req = AccessTokenRequest {
            grant_type: grant,
            client_post_auth: ClientPostAuth {
                client_id: client_id.map(str::to_string),
                client_secret: secret.map(str::to_string),
            },
        };
        let mut w = self
            .idms
            .proxy_write(ct)
            .await
            .map_err(Oauth2Error::ServerError)?;
        let r = w.check_oauth2_token_exchange(
            &ClientAuthInfo::new(Source::Internal, None, None, None),
            &req,
            ct,
        );
        match &r {
            Ok(_) | Err(Oauth2Error::InvalidGrant) => {
                w.commit().map_err(Oauth2Error::ServerError)?;
            }
            _ => {}
        }
        r
    }

    pub async fn introspect(
        &mut self,
        token: &str,
    ) -> Result<AccessTokenIntrospectResponse, Oauth2Error> {
        let ct = self.ct();
        let mut r = self
            .idms
            .proxy_read()
            .await
            .map_err(Oauth2Error::ServerError)?;
        r.check_oauth2_token_introspect(
            &AccessTokenIntrospectRequest {
                token: token.to_string(),
                token_type_hint: None,
                client_post_auth: ClientPostAuth::default(),
            },
            ct,
        )
    }

    pub async fn userinfo(&mut self, client_id: &str, token: &str) -> Result<OidcToken, Oauth2Error> {
        let ct = self.ct();
        let jws = JwsCompact::from_str(token).map_err(|_| Oauth2Error::InvalidRequest)?;
        let mut r = self
            .idms
            .proxy_read()
            .await
            .map_err(Oauth2Error::ServerError)?;
        r.oauth2_openid_userinfo(client_id, &jws, ct)
    }

    pub async fn revoke_token(&mut self, token: &str) -> Result<(), Oauth2Error> {
        let ct = self.ct();
        let mut w = self
            .idms
            .proxy_write(ct)
            .await
            .map_err(Oauth2Error::ServerError)?;
        w.oauth2_token_revoke(
            &TokenRevokeRequest {
                token: token.to_string(),
                token_type_hint: None,
                client_post_auth: ClientPostAuth::default(),
            },
            ct,
        )?;
        w.commit().map_err(Oauth2Error::ServerError)
    }

    /// Log a login session out: the real self-service call with the user's identity when one
    /// can still be derived, else the same attribute removal done internally (administrator).
    pub async fn destroy_login_session(
        &mut self,
        target: Uuid,
        session_id: Uuid,
        bearer: Option<&str>,
    ) -> Result<&'static str, OperationError> {
        let ct = self.ct();
        let ident = match bearer {
            Some(t) => self.ident_of(t).await.ok(),
            None => None,
        };
        let mut w = self.idms.proxy_write(ct).await?;
        if let Some(ident) = ident {
            let r = w.account_destroy_session_token(&DestroySessionTokenEvent {
                ident,
                target,
                token_id: session_id,
            });
            if r.is_ok() {
                w.commit()?;
                return Ok("self");
            }
        }
        w.qs_write.internal_modify_uuid(
            target,
            &ModifyList::new_list(vec![Modify::Removed(
                Attribute::UserAuthTokenSession,
                PartialValue::Refer(session_id),
            )]),
        )?;
        w.commit()?;
        Ok("internal")
    }

    /// The whole front half of the code flow for a well-formed request: authorise, and when
    /// consent is asked for, permit it (committed, like the server does). Returns the code.
    pub async fn authorise_to_code(
        &mut self,
        bearer: &str,
        req: &AuthorisationRequest,
    ) -> Result<String, String> {
        let ident = self.ident_of(bearer).await.map_err(|e| format!("ident: {e:?}"))?;
        let ct = self.ct();
        let resp = {
            let r = self.idms.proxy_read().await.map_err(|e| format!("{e:?}"))?;
            r.check_oauth2_authorisation(
                Some(&ident),
                req,
                &AuthorisationRequestContext::default(),
                ct,
            )
        };
        match resp {
            Ok(AuthoriseResponse::Permitted(p)) => Ok(p.code),
            Ok(AuthoriseResponse::ConsentRequested { consent_token, .. }) => {
                let mut w = self.idms.proxy_write(ct).await.map_err(|e| format!("{e:?}"))?;
                let p = w
                    .check_oauth2_authorise_permit(&ident, &consent_token, ct)
                    .map_err(|e| format!("permit: {e:?}"))?;
                w.commit().map_err(|e| format!("{e:?}"))?;
                Ok(p.code)
            }
            Ok(other) => Err(format!("authorise: {other:?}")),
            Err(e) => Err(format!("authorise: {e:?}")),
        }
    }

    /// Storage JSON of one entry (same shape as the entries of `dump()`).
    pub async fn dump_entry(&self, uuid: Uuid) -> Option<Json> {
        let mut r = self.qs.read().await.ok()?;
        let e = r.internal_search_uuid(uuid).ok()?;
        serde_json::to_value(e.to_dbentry()).ok()
    }

    pub async fn dump(&self) -> kvcore::srv::Dump {
        kvcore::srv::dump(&self.qs).await
    }
}

/// base64url without padding
pub fn b64url(data: &[u8]) -> String {
    use base64::{engine::general_purpose::URL_SAFE_NO_PAD, Engine as _};
    URL_SAFE_NO_PAD.encode(data)
}

pub fn b64url_decode(s: &str) -> Option<Vec<u8>> {
    use base64::{engine::general_purpose::URL_SAFE_NO_PAD, Engine as _};
    URL_SAFE_NO_PAD.decode(s.trim_end_matches('=')).ok()
}

/// The protected header of a compact JWS / JWE, parsed by us (first dot-separated segment).
pub fn jose_header(token: &str) -> Option<Json> {
    let seg = token.split('.').next()?;
    let raw = b64url_decode(seg)?;
    serde_json::from_slice(&raw).ok()
}

pub fn jose_kid(token: &str) -> Option<String> {
    jose_header(token)?.get("kid")?.as_str().map(str::to_string)
}

/// The payload of a compact JWS, parsed by us WITHOUT verification (for bookkeeping only).
pub fn jws_payload(token: &str) -> Option<Json> {
    let seg = token.split('.').nth(1)?;
    let raw = b64url_decode(seg)?;
    serde_json::from_slice(&raw).ok()
}

/// Independent SHA-256 (FIPS 180-4), so that the PKCE reference does not reuse kanidm's digest.
pub fn sha256(msg: &[u8]) -> [u8; 32] {
    const K: [u32; 64] = [
        0x428a2f98, 0x71374491, 0xb5c0fbcf, 0xe9b5dba5, 0x3956c25b, 0x59f111f1, 0x923f82a4,
        0xab1c5ed5, 0xd807aa98, 0x12835b01, 0x243185be, 0x550c7dc3, 0x72be5d74, 0x80deb1fe,
        0x9bdc06a7, 0xc19bf174, 0xe49b69c1, 0xefbe4786, 0x0fc19dc6, 0x240ca1cc, 0x2de92c6f,
        0x4a7484aa, 0x5cb0a9dc, 0x76f988da, 0x983e5152, 0xa831c66d, 0xb00327c8, 0xbf597fc7,
        0xc6e00bf3, 0xd5a79147, 0x06ca6351, 0x14292967, 0x27b70a85, 0x2e1b2138, 0x4d2c6dfc,
        0x53380d13, 0x650a7354, 0x766a0abb, 0x81c2c92e, 0x92722c85, 0xa2bfe8a1, 0xa81a664b,
        0xc24b8b70, 0xc76c51a3, 0xd192e819, 0xd6990624, 0xf40e3585, 0x106aa070, 0x19a4c116,
        0x1e376c08, 0x2748774c, 0x34b0bcb5, 0x391c0cb3, 0x4ed8aa4a, 0x5b9cca4f, 0x682e6ff3,
        0x748f82ee, 0x78a5636f, 0x84c87814, 0x8cc70208, 0x90befffa, 0xa4506ceb, 0xbef9a3f7,
        0xc67178f2,
    ];
    let mut h: [u32; 8] = [
        0x6a09e667, 0xbb67ae85, 0x3c6ef372, 0xa54ff53a, 0x510e527f, 0x9b05688c, 0x1f83d9ab,
        0x5be0cd19,
    ];
    let mut data = msg.to_vec();
    let bitlen = (msg.len() as u64).wrapping_mul(8);
    data.push(0x80);
    while data.len() % 64 != 56 {
        data.push(0);
    }
    data.extend_from_slice(&bitlen.to_be_bytes());
    for chunk in data.chunks(64) {
        let mut w = [0u32; 64];
        for i in 0..16 {
            w[i] = u32::from_be_bytes([
                chunk[4 * i],
                chunk[4 * i + 1],
                chunk[4 * i + 2],
                chunk[4 * i + 3],
            ]);
        }
        for i in 16..64 {
            let s0 = w[i - 15].rotate_right(7) ^ w[i - 15].rotate_right(18) ^ (w[i - 15] >> 3);
            let s1 = w[i - 2].rotate_right(17) ^ w[i - 2].rotate_right(19) ^ (w[i - 2] >> 10);
            w[i] = w[i - 16]
                .wrapping_add(s0)
                .wrapping_add(w[i - 7])
                .wrapping_add(s1);
        }
        let mut v = h;
        for i in 0..64 {
            let s1 = v[4].rotate_right(6) ^ v[4].rotate_right(11) ^ v[4].rotate_right(25);
            let ch = (v[4] & v[5]) ^ (!v[4] & v[6]);
            let t1 = v[7]
                .wrapping_add(s1)
                .wrapping_add(ch)
                .wrapping_add(K[i])
                .wrapping_add(w[i]);
            let s0 = v[0].rotate_right(2) ^ v[0].rotate_right(13) ^ v[0].rotate_right(22);
            let maj = (v[0] & v[1]) ^ (v[0] & v[2]) ^ (v[1] & v[2]);
            let t2 = s0.wrapping_add(maj);
            v[7] = v[6];
            v[6] = v[5];
            v[5] = v[4];
            v[4] = v[3].wrapping_add(t1);
            v[3] = v[2];
            v[2] = v[1];
            v[1] = v[0];
            v[0] = t1.wrapping_add(t2);
        }
        for i in 0..8 {
            h[i] = h[i].wrapping_add(v[i]);
        }
    }
    let mut out = [0u8; 32];
    for i in 0..8 {
        out[4 * i..4 * i + 4].copy_from_slice(&h[i].to_be_bytes());
    }
    out
}

/// Self-test of the independent digest against the FIPS vectors; false = harness bug.
pub fn sha256_selftest() -> bool {
    hex::encode(sha256(b"abc"))
        == "ba7816bf8f01cfea414140de5dae2223b00361a396177a9cb410ff61f20015ad"
        && hex::encode(sha256(b""))
            == "e3b0c44298fc1c149afbf4c8996fb92427ae41e4649b934ca495991b7852b855"
        && hex::encode(sha256(
            b"abcdbcdecdefdefgefghfghighijhijkijkljklmklmnlmnomnopnopq",
        )) == "248d6a61d20638b8e5c026930c3e6039a33ce45964ff2167f6ecedd419db06c1"
}

/// PKCE S256 challenge text for a verifier: base64url(sha256(verifier)), computed independently.
pub fn pkce_challenge(verifier: &str) -> String {
    b64url(&sha256(verifier.as_bytes()))
}

pub fn random_verifier(rng: &mut Rng) -> String {
    const CS: &[u8] = b"ABCDEFGHIJKLMNOPQRSTUVWXYZabcdefghijklmnopqrstuvwxyz0123456789-._~";
    let n = rng.range(43, 64) as usize;
    (0..n).map(|_| CS[rng.usize(CS.len())] as char).collect()
}

pub fn run_case<F: FnOnce() -> R, R>(f: F) -> Result<R, String> {
    std::panic::catch_unwind(std::panic::AssertUnwindSafe(f)).map_err(|e| {
        e.downcast_ref::<String>()
            .cloned()
            .or_else(|| e.downcast_ref::<&str>().map(|s| s.to_string()))
            .unwrap_or_else(|| "panic".into())
    })
}

/// Replay support: `--replay <file>` (a witness written by an earlier run) or `only=<worker>:<n>`
/// restricts a run to the one history / batch the witness came from, under the same seed and tier.
pub fn replay_target(args: &mut kvcore::Args) -> Option<String> {
    if let Some(p) = args.replay.clone() {
        if let Ok(txt) = std::fs::read_to_string(&p) {
            if let Ok(v) = serde_json::from_str::<Json>(&txt) {
                if let Some(s) = v.get("seed").and_then(|s| s.as_u64()) {
                    args.seed = s;
                }
                match v.get("tier").and_then(|s| s.as_str()) {
                    Some("thorough") => args.tier = kvcore::Tier::Thorough,
                    Some("quick") => args.tier = kvcore::Tier::Quick,
                    _ => {}
                }
                if let Some(h) = v.get("witness").and_then(|w| w.get("history")).and_then(|h| h.as_str()) {
                    return Some(h.to_string());
                }
            }
        }
    }
    args.rest
        .iter()
        .find_map(|a| a.strip_prefix("only=").map(str::to_string))
}
