//! C38 OAuth2 authorisation happens only on registered terms.
//!
//! Necessary-condition monitor: whenever `check_oauth2_authorisation` answers ConsentRequested or
//! Permitted (and whenever `check_oauth2_authorise_permit` turns a consent into a code), the
//! conditions of the statement are recomputed from the *raw request*, from *our own copy* of the
//! client configuration and from *our own* membership model (cross-checked against the directory
//! dump), never from anything the OAuth2 layer loaded. Refusals are only counted.

use crate::sim::*;
use kanidm_proto::oauth2::{
    AccessTokenRequest, AuthorisationRequest, ClientPostAuth, GrantTypeReq,
};
use kanidmd_lib::idm::oauth2::{AuthorisationRequestContext, AuthoriseResponse, Oauth2Error};
use kanidmd_lib::prelude::*;
use kvcore::{Acc, Args, Rng, Run};
use serde_json::{json, Map, Value as Json};
use std::collections::{BTreeMap, BTreeSet};

const N_PERSONS: usize = 4;
const N_GROUPS: usize = 6;

pub fn uuid_n(kind: u16, n: u64) -> Uuid {
    Uuid::from_u128(0x5eed_0000_0000_4000_8000_0000_0000_0000u128 | ((kind as u128) << 32) | n as u128)
}

#[derive(Clone, Copy, Debug, PartialEq, Eq, PartialOrd, Ord)]
pub enum Who {
    Nobody,
    Anonymous,
    Person(usize),
}

pub struct World {
    /// "<worker>:<batch>" under the run's seed (see `replay_target`)
    pub id: String,
    pub sim: Sim,
    pub persons: Vec<(String, Uuid)>,
    /// our groups: uuid -> (account members, nested group members)
    pub groups: Vec<(Uuid, BTreeSet<Uuid>, BTreeSet<Uuid>)>,
    pub clients: Vec<ClientCfg>,
    pub logins: BTreeMap<Who, Login>,
}

impl World {
    /// Our membership model: every group (ours + the two built-in dynamic groups we use as scope
    /// map targets) an account is a member of, directly or through nesting.
    pub fn memberof(&self, acct: Uuid) -> BTreeSet<Uuid> {
        let mut out = BTreeSet::new();
        let mut frontier: Vec<Uuid> = vec![acct];
        while let Some(x) = frontier.pop() {
            for (g, accts, nested) in &self.groups {
                if (accts.contains(&x) || nested.contains(&x)) && out.insert(*g) {
                    frontier.push(*g);
                }
            }
        }
        out.insert(UUID_IDM_ALL_ACCOUNTS);
        if self.persons.iter().any(|(_, u)| *u == acct) {
            out.insert(UUID_IDM_ALL_PERSONS);
        }
        out
    }

    pub fn acct_of(&self, who: Who) -> Option<Uuid> {
        match who {
            Who::Nobody => None,
            Who::Anonymous => Some(UUID_ANONYMOUS),
            Who::Person(i) => Some(self.persons[i].1),
        }
    }

    /// Compare the model with the directory (memberof attribute) for the groups we model.
    pub async fn membership_model_agrees(&self) -> Result<(), String> {
        let d = self.sim.dump().await;
        let mut modelled: BTreeSet<Uuid> = self.groups.iter().map(|g| g.0).collect();
        modelled.insert(UUID_IDM_ALL_ACCOUNTS);
        modelled.insert(UUID_IDM_ALL_PERSONS);
        let mut accts: Vec<Uuid> = self.persons.iter().map(|p| p.1).collect();
        accts.push(UUID_ANONYMOUS);
        for a in accts {
            let e = d.entries.get(&a).ok_or("account missing in dump")?;
            let got: BTreeSet<Uuid> = kvcore::srv::dump_strs(e, "memberof")
                .iter()
                .filter_map(|s| Uuid::parse_str(s).ok())
                .filter(|u| modelled.contains(u))
                .collect();
            let want = self.memberof(a);
            if got != want {
                return Err(format!("memberof of {a}: directory {got:?} vs model {want:?}"));
            }
        }
        Ok(())
    }
}

const SCOPES: &[&str] = &[
    "openid", "email", "profile", "groups", "read", "write", "admin", "api:v1", "sup_a", "sup_b",
];

const HTTPS_URIS: &[&str] = &[
    "https://app.example.com/oauth2/cb",
    "https://app.example.com/",
    "https://portal.example.org/login/callback?tenant=a",
    "https://sso.example.net:8443/cb",
    "https://a.b.example.com/x/y/z",
];
const HTTP_URIS: &[&str] = &[
    "http://intranet.example.com/cb",
    "http://localhost:8080/cb",
    "http://127.0.0.1:9000/callback",
];
const APP_URIS: &[&str] = &[
    "app://cheese",
    "com.example.app:/oauth2redirect",
    "myapp://callback/x",
    "org.example.mobile://auth",
];

fn gen_client(rng: &mut Rng, idx: usize, world: &World) -> ClientCfg {
    let public = rng.chance(1, 2);
    let mut uris: Vec<String> = Vec::new();
    let n = rng.range(1, 3) as usize;
    let secure_only = rng.chance(2, 3);
    while uris.len() < n {
        let u = match rng.weighted(&[5, if secure_only { 0 } else { 2 }, 3]) {
            0 => *rng.pick(HTTPS_URIS),
            1 => *rng.pick(HTTP_URIS),
            _ => *rng.pick(APP_URIS),
        };
        if !uris.iter().any(|x| x == u) {
            uris.push(u.to_string());
        }
    }
    // the landing must be http(s) for a sane client; pick the first http(s) one or a default
    let landing = uris
        .iter()
        .position(|u| u.starts_with("http"))
        .map(|i| uris.remove(i))
        .unwrap_or_else(|| "https://landing.example.com/".to_string());
    let mut targets: Vec<Uuid> = world.groups.iter().map(|g| g.0).collect();
    targets.push(UUID_IDM_ALL_ACCOUNTS);
    targets.push(UUID_IDM_ALL_PERSONS);
    let mut scope_maps = BTreeMap::new();
    for _ in 0..rng.range(1, 3) {
        let g = *rng.pick(&targets);
        let mut s = BTreeSet::new();
        for _ in 0..rng.range(1, 3) {
            s.insert(rng.pick(&SCOPES[..8]).to_string());
        }
        scope_maps.insert(g, s);
    }
    let mut sup_scope_maps = BTreeMap::new();
    for _ in 0..rng.below(3) {
        let g = *rng.pick(&targets);
        let mut s = BTreeSet::new();
        for _ in 0..rng.range(1, 2) {
            s.insert(rng.pick(&SCOPES[4..]).to_string());
        }
        sup_scope_maps.insert(g, s);
    }
    ClientCfg {
        name: format!("client{idx}"),
        uuid: uuid_n(3, idx as u64),
        public,
        allow_localhost: public && rng.chance(1, 2),
        disable_pkce: !public && rng.chance(1, 2),
        consent_prompt: if !public && rng.chance(1, 3) {
            Some(rng.bool())
        } else {
            None
        },
        landing,
        origins: uris,
        scope_maps,
        sup_scope_maps,
        refresh_expiry: None,
        legacy_crypto: false,
        secret: None,
    }
}

pub async fn build_world(rng: &mut Rng, start: u64, n_clients: usize) -> Result<World, String> {
    let mut sim = Sim::new_mem(start).await?;
    sim.relax_credential_policy().await?;
    let persons: Vec<(String, Uuid)> = (0..N_PERSONS)
        .map(|i| (format!("person{i}"), uuid_n(1, i as u64)))
        .collect();
    let mut groups = Vec::new();
    for g in 0..N_GROUPS {
        let mut accts = BTreeSet::new();
        for p in &persons {
            if rng.chance(2, 5) {
                accts.insert(p.1);
            }
        }
        if rng.chance(1, 3) {
            accts.insert(UUID_ANONYMOUS);
        }
        groups.push((uuid_n(2, g as u64), accts, BTreeSet::new()));
    }
    // one level of nesting: the last group contains the first (and sometimes the second) group
    let g0 = groups[0].0;
    let g1 = groups[1].0;
    if let Some(last) = groups.last_mut() {
        last.2.insert(g0);
        if rng.bool() {
            last.2.insert(g1);
        }
    }
    let mut entries = Vec::new();
    for (n, u) in &persons {
        entries.push(Sim::person_entry(n, *u));
    }
    for (i, (u, accts, nested)) in groups.iter().enumerate() {
        let members: Vec<Uuid> = accts.iter().chain(nested.iter()).copied().collect();
        entries.push(Sim::group_entry(&format!("grp{i}"), *u, &members));
    }
    sim.create(entries).await?;
    for (i, (_, u)) in persons.iter().enumerate() {
        sim.set_password(*u, &password_for(i as u64)).await?;
    }
    let mut world = World {
        id: String::new(),
        sim,
        persons,
        groups,
        clients: Vec::new(),
        logins: BTreeMap::new(),
    };
    for c in 0..n_clients {
        let mut cfg = gen_client(rng, c, &world);
        world.sim.create_client(&mut cfg).await?;
        world.clients.push(cfg);
    }
    world.sim.advance(1);
    for i in 0..N_PERSONS {
        let name = world.persons[i].0.clone();
        let l = world.sim.login(&name, &password_for(i as u64)).await?;
        world.logins.insert(Who::Person(i), l);
    }
    let l = world.sim.login_anonymous().await?;
    world.logins.insert(Who::Anonymous, l);
    world.membership_model_agrees().await?;
    Ok(world)
}

/// Our own loopback test on the parsed host text: IPv4 127/8, IPv6 ::1, or the name "localhost".
pub fn is_loopback(u: &Url) -> bool {
    let Some(h) = u.host_str() else { return false };
    let h = h.trim_start_matches('[').trim_end_matches(']');
    if let Ok(v4) = h.parse::<std::net::Ipv4Addr>() {
        return v4.octets()[0] == 127;
    }
    if let Ok(v6) = h.parse::<std::net::Ipv6Addr>() {
        return v6.segments() == [0, 0, 0, 0, 0, 0, 0, 1];
    }
    h == "localhost"
}

/// The registered redirect targets of a client as normalised URL texts (what an exact match means
/// once both sides went through the same WHATWG parser).
pub fn registered_texts(cfg: &ClientCfg) -> BTreeSet<String> {
    std::iter::once(&cfg.landing)
        .chain(cfg.origins.iter())
        .filter_map(|s| Url::parse(s).ok())
        .map(|u| u.as_str().to_string())
        .collect()
}

#[derive(Clone, Debug)]
pub struct ReqMeta {
    pub who: Who,
    pub client_idx: Option<usize>,
    pub raw: Map<String, Json>,
    pub verifier: Option<String>,
    pub mutations: Vec<&'static str>,
}

fn mutate_uri(rng: &mut Rng, base: &str, kinds: &mut Vec<&'static str>) -> String {
    let parsed = Url::parse(base).ok();
    let port = rng.range(1024, 65535);
    let (kind, s): (&'static str, String) = match rng.below(30) {
        0 => ("uri.case_scheme_host", {
            // upper-case scheme and host: normalises back to the registered text
            if let Some(p) = base.find("://") {
                let rest = &base[p + 3..];
                let end = rest.find('/').unwrap_or(rest.len());
                format!(
                    "{}://{}{}",
                    base[..p].to_uppercase(),
                    rest[..end].to_uppercase(),
                    &rest[end..]
                )
            } else {
                base.to_uppercase()
            }
        }),
        1 => ("uri.case_path", {
            match parsed.as_ref().filter(|u| u.path().len() > 1) {
                Some(u) => {
                    let mut v = u.clone();
                    v.set_path(&u.path().to_uppercase());
                    v.to_string()
                }
                None => format!("{base}X"),
            }
        }),
        2 => ("uri.port_default", {
            match parsed.as_ref() {
                Some(u) if u.scheme() == "https" && u.port().is_none() => {
                    base.replacen(u.host_str().unwrap_or(""), &format!("{}:443", u.host_str().unwrap_or("")), 1)
                }
                Some(u) if u.scheme() == "http" && u.port().is_none() => {
                    base.replacen(u.host_str().unwrap_or(""), &format!("{}:80", u.host_str().unwrap_or("")), 1)
                }
                _ => base.to_string(),
            }
        }),
        3 => ("uri.port_other", {
            let mut out = format!("{base}:{port}");
            if let Some(mut u) = parsed.clone() {
                if u.set_port(Some(port as u16)).is_ok() {
                    out = u.to_string();
                }
            }
            out
        }),
        4 => ("uri.trailing_slash", {
            if base.ends_with('/') {
                base.trim_end_matches('/').to_string()
            } else if base.contains('?') {
                base.replacen('?', "/?", 1)
            } else {
                format!("{base}/")
            }
        }),
        5 => ("uri.userinfo", {
            match base.find("://") {
                Some(p) => format!("{}://user:pw@{}", &base[..p], &base[p + 3..]),
                None => format!("user@{base}"),
            }
        }),
        6 => ("uri.userinfo_confusion", {
            match (base.find("://"), parsed.as_ref().and_then(|u| u.host_str().map(str::to_string))) {
                (Some(p), Some(h)) => format!("{}://{}@evil.example.net/cb", &base[..p], h),
                _ => format!("{base}@evil.example.net"),
            }
        }),
        7 => ("uri.dotdot_neutral", {
            match parsed.as_ref() {
                Some(u) if u.path().len() > 1 && !u.cannot_be_a_base() && base.contains(u.path()) => {
                    // written out unnormalised on purpose; the parser folds it back
                    base.replacen(u.path(), &format!("/zz/..{}", u.path()), 1)
                }
                _ => format!("{base}/./"),
            }
        }),
        8 => ("uri.dotdot_escape", format!("{}/../../evil", base.trim_end_matches('/'))),
        9 => ("uri.query_added", {
            if base.contains('?') {
                format!("{base}&x=1")
            } else {
                format!("{base}?x=1")
            }
        }),
        10 => ("uri.query_removed", base.split('?').next().unwrap_or(base).to_string()),
        11 => ("uri.fragment", format!("{base}#frag")),
        12 => ("uri.host_suffix", {
            match parsed.as_ref().and_then(|u| u.host_str().map(str::to_string)) {
                Some(h) => base.replacen(&h, &format!("{h}.evil.example.net"), 1),
                None => format!("{base}.evil"),
            }
        }),
        13 => ("uri.host_prefix", {
            match parsed.as_ref().and_then(|u| u.host_str().map(str::to_string)) {
                Some(h) => base.replacen(&h, &format!("evil{h}"), 1),
                None => format!("evil{base}"),
            }
        }),
        14 => ("uri.scheme_swap", {
            if base.starts_with("https://") {
                base.replacen("https://", "http://", 1)
            } else if base.starts_with("http://") {
                base.replacen("http://", "https://", 1)
            } else {
                base.replacen(':', "x:", 1)
            }
        }),
        15 => ("uri.path_extended", format!("{}/extra", base.trim_end_matches('/'))),
        16 => ("uri.percent_encoded", {
            match parsed.as_ref().filter(|u| u.path().len() > 1) {
                Some(u) => {
                    let p = u.path();
                    let last = p.chars().last().unwrap_or('a');
                    let enc = format!("{}%{:02X}", &p[..p.len() - last.len_utf8()], last as u32 & 0xff);
                    base.replacen(p, &enc, 1)
                }
                None => format!("{base}%2f"),
            }
        }),
        17 => ("uri.loopback_localhost", format!("http://localhost:{port}/cb")),
        18 => ("uri.loopback_v4", format!("http://127.0.0.1:{port}/")),
        19 => ("uri.loopback_v6", format!("http://[::1]:{port}/callback")),
        20 => ("uri.loopback_v4_odd", {
            let forms = [
                format!("http://127.1:{port}/"),
                "http://2130706433/".to_string(),
                format!("http://127.{}.{}.{}:{port}/x", rng.below(256), rng.below(256), rng.below(256)),
                "http://0x7f.0.0.1/".to_string(),
                format!("http://LOCALHOST:{port}/cb"),
                format!("https://localhost:{port}/cb"),
            ];
            rng.pick(&forms).clone()
        }),
        21 => ("uri.loopback_lookalike", {
            let forms = [
                format!("http://localhost.evil.example.net:{port}/cb"),
                format!("http://127.0.0.1.evil.example.net:{port}/"),
                format!("http://[::ffff:127.0.0.1]:{port}/"),
                format!("http://0.0.0.0:{port}/"),
                format!("http://[::]:{port}/"),
                format!("http://localhost.:{port}/cb"),
                format!("http://128.0.0.1:{port}/"),
                format!("http://localhost@evil.example.net:{port}/"),
            ];
            rng.pick(&forms).clone()
        }),
        22 => ("uri.app_variant", {
            let forms = [
                "app://cheese/", "app://cheesey", "APP://cheese", "app://Cheese", "app:cheese",
                "com.example.app:/oauth2redirect/x", "com.example.app://oauth2redirect",
                "myapp://callback/x?y=1", "myapp://callback", "org.example.mobile://auth#x",
                "app://localhost/cb",
            ];
            rng.pick(&forms).to_string()
        }),
        23 => ("uri.unrelated", {
            let forms = [
                "https://evil.example.net/cb", "http://evil.example.net/", "javascript:alert(1)",
                "data:text/html,hi", "file:///etc/passwd", "https://idm.example.com/ui/oauth2",
            ];
            rng.pick(&forms).to_string()
        }),
        24 => ("uri.unparseable", {
            let forms = ["", "not a url", "https://", "http://[::1", "//app.example.com/cb", "/oauth2/cb"];
            rng.pick(&forms).to_string()
        }),
        _ => ("uri.exact", base.to_string()),
    };
    if kind != "uri.exact" {
        kinds.push(kind);
    }
    s
}

fn gen_request(rng: &mut Rng, w: &World) -> ReqMeta {
    let mut muts: Vec<&'static str> = Vec::new();
    // baseline: a client, a person holding at least one mapped scope if one exists
    let ci = rng.usize(w.clients.len());
    let cfg = &w.clients[ci];
    let holders: Vec<usize> = (0..w.persons.len())
        .filter(|i| {
            let mo = w.memberof(w.persons[*i].1);
            cfg.scope_maps.keys().any(|g| mo.contains(g))
        })
        .collect();
    let mut who = if holders.is_empty() || rng.chance(1, 8) {
        Who::Person(rng.usize(w.persons.len()))
    } else {
        Who::Person(*rng.pick(&holders))
    };
    let held: BTreeSet<String> = w
        .acct_of(who)
        .map(|a| {
            let mo = w.memberof(a);
            cfg.scope_maps
                .iter()
                .filter(|(g, _)| mo.contains(g))
                .flat_map(|(_, s)| s.iter().cloned())
                .collect()
        })
        .unwrap_or_default();
    let mut scopes: BTreeSet<String> = BTreeSet::new();
    let held_v: Vec<&String> = held.iter().collect();
    if !held_v.is_empty() {
        for _ in 0..rng.range(1, 3) {
            scopes.insert((*rng.pick(&held_v)).clone());
        }
    } else {
        scopes.insert(rng.pick(SCOPES).to_string());
    }
    let mut regs: Vec<String> = vec![cfg.landing.clone()];
    regs.extend(cfg.origins.iter().cloned());
    let mut uri = rng.pick(&regs).clone();
    let verifier = random_verifier(rng);
    let mut pkce: u8 = if cfg.requires_pkce() || rng.bool() { 1 } else { 0 }; // 1 = proper S256
    let mut client_id = cfg.name.clone();
    let mut response_type = "code".to_string();
    let mut response_mode: Option<String> = None;
    let mut prompt: Option<String> = None;
    let mut max_age: Option<i64> = None;

    // defects: 0, 1 or 2 of them
    let n_defects = rng.weighted(&[4, 6, 3]);
    for _ in 0..n_defects {
        match rng.below(14) {
            0..=4 => {
                uri = mutate_uri(rng, &uri, &mut muts);
            }
            5 => {
                who = Who::Anonymous;
                muts.push("who.anonymous");
            }
            6 => {
                who = Who::Nobody;
                muts.push("who.nobody");
            }
            7 => {
                // a scope the user does not hold: mapped elsewhere, supplementary only, or unknown
                let s = match rng.below(4) {
                    0 => {
                        muts.push("scope.unknown");
                        "nope".to_string()
                    }
                    1 => {
                        muts.push("scope.bad_syntax");
                        "bad scope!".to_string()
                    }
                    2 => {
                        muts.push("scope.sup_only");
                        cfg.sup_scope_maps
                            .values()
                            .flat_map(|s| s.iter())
                            .next()
                            .cloned()
                            .unwrap_or_else(|| "sup_a".to_string())
                    }
                    _ => {
                        muts.push("scope.other");
                        rng.pick(SCOPES).to_string()
                    }
                };
                scopes.insert(s);
            }
            8 => {
                pkce = rng.range(0, 5) as u8;
                muts.push(match pkce {
                    0 => "pkce.none",
                    1 => "pkce.s256",
                    2 => "pkce.plain",
                    3 => "pkce.method_missing",
                    4 => "pkce.challenge_missing",
                    _ => "pkce.challenge_garbage",
                });
            }
            9 => {
                who = Who::Person(rng.usize(w.persons.len()));
                muts.push("who.other_person");
            }
            10 => {
                match rng.below(3) {
                    0 => {
                        client_id = cfg.name.to_uppercase();
                        muts.push("client.case");
                    }
                    1 => {
                        client_id = format!("{}x", cfg.name);
                        muts.push("client.unknown");
                    }
                    _ => {
                        // another client's id with this client's redirect URI
                        let other = rng.usize(w.clients.len());
                        client_id = w.clients[other].name.clone();
                        muts.push("client.other");
                    }
                }
            }
            11 => {
                response_type = rng.pick(&["token", "id_token", "bogus"]).to_string();
                muts.push("response_type.other");
            }
            12 => {
                response_mode = Some(
                    rng.pick(&["query", "fragment", "form_post", "bogus"])
                        .to_string(),
                );
                muts.push("response_mode.set");
            }
            _ => {
                match rng.below(4) {
                    0 => prompt = Some("none".into()),
                    1 => prompt = Some("login".into()),
                    2 => prompt = Some("consent".into()),
                    _ => max_age = Some(rng.range(0, 4000) as i64),
                }
                muts.push("prompt.set");
            }
        }
    }
    if scopes.len() > 1 && rng.chance(1, 6) {
        // drop one to vary
        let first = scopes.iter().next().cloned();
        if let Some(f) = first {
            scopes.remove(&f);
        }
    }
    if rng.chance(1, 40) {
        scopes.clear();
        muts.push("scope.empty");
    }

    let mut raw = Map::new();
    raw.insert("response_type".into(), json!(response_type));
    if let Some(m) = &response_mode {
        raw.insert("response_mode".into(), json!(m));
    }
    raw.insert("client_id".into(), json!(client_id));
    if rng.chance(3, 4) {
        raw.insert("state".into(), json!(format!("st{}", rng.below(1000))));
    }
    let challenge = pkce_challenge(&verifier);
    match pkce {
        0 => {}
        1 => {
            raw.insert("code_challenge".into(), json!(challenge));
            raw.insert("code_challenge_method".into(), json!("S256"));
        }
        2 => {
            raw.insert("code_challenge".into(), json!(verifier));
            raw.insert("code_challenge_method".into(), json!("plain"));
        }
        3 => {
            raw.insert("code_challenge".into(), json!(challenge));
        }
        4 => {
            raw.insert("code_challenge_method".into(), json!("S256"));
        }
        _ => {
            raw.insert("code_challenge".into(), json!("***not base64***"));
            raw.insert("code_challenge_method".into(), json!("S256"));
        }
    }
    raw.insert("redirect_uri".into(), json!(uri));
    raw.insert(
        "scope".into(),
        json!(scopes.iter().cloned().collect::<Vec<_>>().join(" ")),
    );
    if rng.bool() {
        raw.insert("nonce".into(), json!("n0nce"));
    }
    if let Some(p) = &prompt {
        raw.insert("prompt".into(), json!(p));
    }
    if let Some(m) = max_age {
        raw.insert("max_age".into(), json!(m));
    }
    // which of OUR clients does the client_id text name (case-insensitively)?
    let client_idx = w
        .clients
        .iter()
        .position(|c| c.name.eq_ignore_ascii_case(&client_id));
    ReqMeta {
        who,
        client_idx,
        raw,
        verifier: if pkce == 1 { Some(verifier) } else { None },
        mutations: muts,
    }
}

/// The statement's conditions, recomputed. Returns the list of violated conditions (signatures)
/// and the expected granted scope set.
pub fn judge(
    w: &World,
    m: &ReqMeta,
    parsed_uri: &Url,
    granted: Option<&BTreeSet<String>>,
) -> (Vec<(String, String)>, BTreeSet<String>, &'static str) {
    let mut bad: Vec<(String, String)> = Vec::new();
    let Some(ci) = m.client_idx else {
        bad.push(("c38/unknown-client".into(), "client_id names no client we created".into()));
        return (bad, BTreeSet::new(), "none");
    };
    let cfg = &w.clients[ci];
    // 1. redirect URI
    let text = parsed_uri.as_str().to_string();
    let regs = registered_texts(cfg);
    let exact = regs.contains(&text);
    let loop_ok = cfg.public && cfg.allow_localhost && is_loopback(parsed_uri);
    let how = if exact {
        if parsed_uri.scheme() == "http" || parsed_uri.scheme() == "https" {
            "exact"
        } else {
            "app-uri"
        }
    } else if loop_ok {
        "loopback"
    } else {
        "none"
    };
    if !exact && !loop_ok {
        let sig = if is_loopback(parsed_uri) {
            "c38/redirect-loopback-for-ineligible-client"
        } else if regs.iter().any(|r| text.starts_with(r.as_str()) || r.starts_with(&text)) {
            "c38/redirect-extends-registered"
        } else {
            "c38/redirect-unregistered"
        };
        bad.push((sig.into(), format!("redirect {text} not in {regs:?}; public={} allow_localhost={}", cfg.public, cfg.allow_localhost)));
    }
    // 2. user
    match m.who {
        Who::Nobody => bad.push(("c38/unauthenticated-authorised".into(), "no identity".into())),
        Who::Anonymous => bad.push(("c38/anonymous-authorised".into(), "anonymous identity".into())),
        Who::Person(_) => {}
    }
    // 3. scopes held
    let requested: BTreeSet<String> = m
        .raw
        .get("scope")
        .and_then(|s| s.as_str())
        .unwrap_or("")
        .split(' ')
        .filter(|s| !s.is_empty())
        .map(str::to_string)
        .collect();
    let mo = w.acct_of(m.who).map(|a| w.memberof(a)).unwrap_or_default();
    let held: BTreeSet<String> = cfg
        .scope_maps
        .iter()
        .filter(|(g, _)| mo.contains(g))
        .flat_map(|(_, s)| s.iter().cloned())
        .collect();
    let all_mapped: BTreeSet<String> = cfg
        .scope_maps
        .values()
        .flat_map(|s| s.iter().cloned())
        .collect();
    let missing: Vec<&String> = requested.difference(&held).collect();
    if !missing.is_empty() {
        let sig = if missing.iter().any(|s| !all_mapped.contains(*s)) {
            "c38/scope-unmapped-granted"
        } else {
            "c38/scope-not-held-granted"
        };
        bad.push((sig.into(), format!("requested {requested:?} held {held:?}")));
    }
    // 4. PKCE
    if cfg.requires_pkce() {
        let method = m.raw.get("code_challenge_method").and_then(|s| s.as_str());
        let chal = m.raw.get("code_challenge").and_then(|s| s.as_str());
        let ok = method == Some("S256") && chal.and_then(b64url_decode).is_some();
        if !ok {
            let sig = if chal.is_some() && method.is_some() && method != Some("S256") {
                "c38/pkce-non-s256-accepted"
            } else {
                "c38/pkce-required-but-absent"
            };
            bad.push((sig.into(), format!("method {method:?} challenge {chal:?}")));
        }
    }
    // 5. granted = requested ∪ held supplementary
    let sup: BTreeSet<String> = cfg
        .sup_scope_maps
        .iter()
        .filter(|(g, _)| mo.contains(g))
        .flat_map(|(_, s)| s.iter().cloned())
        .collect();
    let expected: BTreeSet<String> = requested.union(&sup).cloned().collect();
    if let Some(g) = granted {
        if g != &expected {
            let extra: Vec<&String> = g.difference(&expected).collect();
            let sig = if !extra.is_empty() {
                "c38/granted-extra-scopes"
            } else {
                "c38/granted-missing-scopes"
            };
            bad.push((sig.into(), format!("granted {g:?} expected {expected:?}")));
        }
    }
    (bad, expected, how)
}

async fn exchange_peek(
    w: &mut World,
    ci: usize,
    code: &str,
    redirect: &Url,
    verifier: Option<&str>,
) -> Result<BTreeSet<String>, Oauth2Error> {
    let cfg = &w.clients[ci];
    let req = AccessTokenRequest {
        grant_type: GrantTypeReq::AuthorizationCode {
            code: code.to_string(),
            redirect_uri: redirect.clone(),
            code_verifier: verifier.map(str::to_string),
        },
        client_post_auth: ClientPostAuth {
            client_id: Some(cfg.name.clone()),
            client_secret: cfg.secret.clone(),
        },
    };
    let ct = w.sim.ct();
    let mut wr = w
        .sim
        .idms
        .proxy_write(ct)
        .await
        .map_err(Oauth2Error::ServerError)?;
    let r = wr.check_oauth2_token_exchange(
        &ClientAuthInfo::new(Source::Internal, None, None, None),
        &req,
        ct,
    );
    // not committed on purpose: we only look at what the code carries
    drop(wr);
    r.map(|t| t.scope)
}

fn report(acc: &mut Acc, w: &World, m: &ReqMeta, stage: &str, bad: Vec<(String, String)>, outcome: &str) {
    for (sig, why) in bad {
        let cfgj = m.client_idx.map(|i| w.clients[i].to_json());
        acc.violation(
            &sig,
            json!({
                "stage": stage, "outcome": outcome, "why": why, "history": w.id,
                "request": m.raw, "who": format!("{:?}", m.who), "mutations": m.mutations,
                "client": cfgj,
                "memberof_model": w.acct_of(m.who).map(|a| w.memberof(a).iter().map(|u| u.to_string()).collect::<Vec<_>>()),
            }),
        );
    }
}

async fn one_request(acc: &mut Acc, rng: &mut Rng, w: &mut World) {
    let m = gen_request(rng, w);
    acc.eval();
    for k in &m.mutations {
        acc.count(&format!("tried.{k}"));
    }
    if m.mutations.is_empty() {
        acc.count("tried.clean");
    }
    let single = if m.mutations.len() == 1 { Some(m.mutations[0]) } else { None };
    // 1. the HTTP layer's deserialisation of the request
    let req: AuthorisationRequest = match serde_json::from_value(Json::Object(m.raw.clone())) {
        Ok(r) => r,
        Err(_) => {
            acc.count("outcome.rejected_at_deserialise");
            if let Some(s) = single {
                acc.count(&format!("single_defect_rejected.{s}"));
            }
            return;
        }
    };
    // 2. identity from the presented bearer token
    let ident = match m.who {
        Who::Nobody => None,
        who => {
            let tok = w.logins.get(&who).map(|l| l.token.clone());
            match tok {
                Some(t) => match w.sim.ident_of(&t).await {
                    Ok(i) => Some(i),
                    Err(_) => {
                        acc.count("ident_failed");
                        return;
                    }
                },
                None => None,
            }
        }
    };
    let ct = w.sim.ct();
    let ctx = if rng.chance(1, 10) {
        AuthorisationRequestContext::resumed_session()
    } else {
        AuthorisationRequestContext::default()
    };
    let resp = {
        let r = match w.sim.idms.proxy_read().await {
            Ok(r) => r,
            Err(_) => {
                acc.inconclusive("proxy_read failed");
                return;
            }
        };
        r.check_oauth2_authorisation(ident.as_ref(), &req, &ctx, ct)
    };
    w.sim.record(
        "oauth2_authorise",
        json!({"who": format!("{:?}", m.who), "client_id": m.raw.get("client_id"), "redirect_uri": m.raw.get("redirect_uri"), "scope": m.raw.get("scope")}),
        &resp,
    );
    let key = format!(
        "{:?}|{:?}|{}",
        m.client_idx.map(|i| w.clients[i].to_json().to_string()),
        m.who,
        Json::Object(m.raw.clone())
    );
    match resp {
        Err(e) => {
            let k = format!("{e:?}");
            let k = k.split('(').next().unwrap_or("").to_string();
            acc.count(&format!("outcome.err.{k}"));
            if let Some(s) = single {
                acc.count(&format!("single_defect_rejected.{s}"));
            }
        }
        Ok(AuthoriseResponse::AuthenticationRequired { .. }) => {
            acc.count("outcome.authentication_required");
            if let Some(s) = single {
                acc.count(&format!("single_defect_rejected.{s}"));
            }
        }
        Ok(AuthoriseResponse::ReauthenticationRequired { .. }) => {
            acc.count("outcome.reauthentication_required");
        }
        Ok(AuthoriseResponse::ConsentRequested {
            scopes,
            consent_token,
            ..
        }) => {
            acc.count("outcome.consent_requested");
            acc.nontrivial(&key);
            if let Some(s) = single {
                acc.count(&format!("single_defect_accepted.{s}"));
            }
            let (bad, _expected, how) = judge(w, &m, &req.redirect_uri, Some(&scopes));
            acc.count(&format!("accepted_by.{how}"));
            let had_bad = !bad.is_empty();
            report(acc, w, &m, "consent_requested", bad, "ConsentRequested");
            if !had_bad {
                let req_n = m.raw.get("scope").and_then(|s| s.as_str()).map(|s| s.split(' ').count()).unwrap_or(0);
                if scopes.len() > req_n {
                    acc.count("granted_with_supplementary");
                }
                if acc.samples.len() < 3 {
                    acc.sample(json!({"request": m.raw, "who": format!("{:?}", m.who), "outcome": "ConsentRequested", "granted": scopes, "matched_by": how}));
                }
            }
            // follow the consent through permit -> code -> what the code carries
            if rng.chance(2, 3) {
                if let Some(ident) = ident.as_ref() {
                    let commit = rng.bool();
                    let permit = {
                        let mut wr = match w.sim.idms.proxy_write(ct).await {
                            Ok(x) => x,
                            Err(_) => return,
                        };
                        let p = wr.check_oauth2_authorise_permit(ident, &consent_token, ct);
                        if p.is_ok() && commit {
                            let _ = wr.commit();
                        }
                        p
                    };
                    w.sim.record("oauth2_permit", json!({"who": format!("{:?}", m.who)}), &permit);
                    match permit {
                        Ok(ps) => {
                            acc.count("permit.ok");
                            if ps.redirect_uri != req.redirect_uri {
                                acc.violation("c38/permit-redirect-differs", json!({"request": m.raw, "permit_redirect": ps.redirect_uri.as_str()}));
                            }
                            if let Some(ci) = m.client_idx {
                                match exchange_peek(w, ci, &ps.code, &req.redirect_uri, m.verifier.as_deref()).await {
                                    Ok(carried) => {
                                        acc.count("code_scopes_observed");
                                        let (bad, _, _) = judge(w, &m, &req.redirect_uri, Some(&carried));
                                        report(acc, w, &m, "code_after_permit", bad, "code");
                                    }
                                    Err(_) => acc.count("exchange_peek_failed"),
                                }
                            }
                        }
                        Err(_) => acc.count("permit.err"),
                    }
                }
            }
        }
        Ok(AuthoriseResponse::Permitted(ps)) => {
            acc.count("outcome.permitted");
            acc.nontrivial(&key);
            if let Some(s) = single {
                acc.count(&format!("single_defect_accepted.{s}"));
            }
            let (bad, _, how) = judge(w, &m, &req.redirect_uri, None);
            acc.count(&format!("accepted_by.{how}"));
            report(acc, w, &m, "permitted", bad, "Permitted");
            if ps.redirect_uri != req.redirect_uri {
                acc.violation("c38/permit-redirect-differs", json!({"request": m.raw, "permit_redirect": ps.redirect_uri.as_str()}));
            }
            if let Some(ci) = m.client_idx {
                match exchange_peek(w, ci, &ps.code, &req.redirect_uri, m.verifier.as_deref()).await {
                    Ok(carried) => {
                        acc.count("code_scopes_observed");
                        let (bad, _, _) = judge(w, &m, &req.redirect_uri, Some(&carried));
                        // only the granted-set conditions are new here
                        let bad = bad.into_iter().filter(|(s, _)| s.starts_with("c38/granted")).collect();
                        report(acc, w, &m, "code_direct", bad, "code");
                    }
                    Err(_) => acc.count("exchange_peek_failed"),
                }
            }
        }
    }
}

async fn membership_change(acc: &mut Acc, rng: &mut Rng, w: &mut World) {
    let gi = rng.usize(w.groups.len());
    let mut cands: Vec<Uuid> = w.persons.iter().map(|p| p.1).collect();
    cands.push(UUID_ANONYMOUS);
    let a = *rng.pick(&cands);
    let g = w.groups[gi].0;
    let present = w.groups[gi].1.contains(&a);
    let ml = if present {
        ModifyList::new_list(vec![Modify::Removed(Attribute::Member, PartialValue::Refer(a))])
    } else {
        ModifyList::new_list(vec![Modify::Present(Attribute::Member, Value::Refer(a))])
    };
    w.sim.advance(1);
    let r = w.sim.modify_uuid(g, &ml).await;
    w.sim.record("member_change", json!({"group": g.to_string(), "acct": a.to_string(), "add": !present}), &r);
    if r.is_ok() {
        if present {
            w.groups[gi].1.remove(&a);
        } else {
            w.groups[gi].1.insert(a);
        }
        acc.count("membership_changes");
    }
    if let Err(e) = w.membership_model_agrees().await {
        acc.inconclusive(&format!("membership model disagrees with directory: {e}"));
    }
}

pub fn run(mut args: Args) {
    let only = replay_target(&mut args);
    let mut run = Run::new(
        args.clone(),
        "exploration",
        "random OAuth2 client configurations (basic/public, 1-3 redirect or app URIs, localhost flag, PKCE required/disabled, consent prompt, scope maps and supplementary scope maps on nested/dynamic groups) x random authorisation requests built as raw JSON from a valid baseline plus 0-2 defects (30 redirect URI mutations, anonymous/unauthenticated/other user, unheld/unknown/supplementary-only scopes, PKCE none/plain/garbage, client id case/unknown/other, response type/mode, prompt), interleaved with membership changes; non-trivial = the request was answered with a consent request or a code; distinct by client configuration + identity + full raw request",
    );
    run.assume("the url crate's WHATWG parser defines what an 'exact match' of two URI texts is (both sides are parsed by it before comparison)");
    run.assume("the harness membership model (BFS over the member edges it wrote, plus idm_all_accounts / idm_all_persons) is checked against the directory's memberof after every membership change");
    if !sha256_selftest() {
        run.acc.inconclusive("harness sha256 self-test failed");
        run.finish();
    }
    let batches: u64 = args.tier.pick(4, 14);
    let per_batch: u64 = args.tier.pick(450, 1500);
    let seed = args.seed;
    run.parallel(args.workers, |w, _n| {
        let mut acc = Acc::new();
        let rt = kvcore::srv::rt();
        for b in 0..batches {
            let id = format!("{w}:{b}");
            if only.as_ref().map(|o| *o != id).unwrap_or(false) {
                continue;
            }
            let mut rng = Rng::new(kvcore::rng::mix(seed, w as u64, 3800 + b));
            let start = kvcore::srv::T0.as_secs() + rng.below(1_000_000);
            let res = run_case(|| {
                rt.block_on(async {
                    let mut world = match build_world(&mut rng, start, 8).await {
                        Ok(w) => w,
                        Err(e) => {
                            acc.inconclusive(&format!("world setup failed: {e}"));
                            return;
                        }
                    };
                    world.id = id.clone();
                    acc.count_n("clients_created", world.clients.len() as u64);
                    for c in &world.clients {
                        acc.observe(
                            "client_kinds",
                            &format!(
                                "public={} localhost={} pkce_required={} consent={:?}",
                                c.public,
                                c.allow_localhost,
                                c.requires_pkce(),
                                c.consent_prompt
                            ),
                        );
                    }
                    for i in 0..per_batch {
                        world.sim.advance(rng.below(3));
                        one_request(&mut acc, &mut rng, &mut world).await;
                        if i % 60 == 59 {
                            membership_change(&mut acc, &mut rng, &mut world).await;
                        }
                    }
                })
            });
            if let Err(p) = res {
                acc.count("panic_in_case");
                acc.inconclusive(&format!("panic during a C38 batch: {p}"));
            }
        }
        acc
    });
    let a = &run.acc;
    let accepted = a.get("outcome.consent_requested") + a.get("outcome.permitted");
    let checks: Vec<(bool, String)> = vec![
        (accepted >= args.tier.pick(500, 5000), format!("too few authorisations granted ({accepted})")),
        (a.get("outcome.permitted") > 0, "no code was ever issued directly (Permitted)".into()),
        (a.get("permit.ok") > 0, "no consent was ever turned into a code".into()),
        (a.get("code_scopes_observed") > 50, "scopes carried by codes were observed too rarely".into()),
        (a.get("accepted_by.exact") > 0, "no exact-match redirect accepted".into()),
        (a.get("accepted_by.loopback") > 0, "no loopback redirect accepted for an eligible public client".into()),
        (a.get("accepted_by.app-uri") > 0, "no registered app URI accepted".into()),
        (a.get("granted_with_supplementary") > 0, "supplementary scopes never granted".into()),
        (a.get("outcome.err.InvalidOrigin") > 0, "redirect URI refusal never seen".into()),
        (a.get("outcome.err.AccessDenied") > 0, "scope / anonymous refusal never seen".into()),
        (a.get("outcome.err.InvalidRequest") > 0, "PKCE refusal never seen".into()),
        (a.get("single_defect_rejected.who.anonymous") > 0, "anonymous as the only defect never refused".into()),
        (a.get("single_defect_rejected.pkce.plain") + a.get("single_defect_rejected.pkce.none") > 0, "missing/plain PKCE as the only defect never refused".into()),
        (a.get("single_defect_rejected.uri.loopback_v4") + a.get("single_defect_rejected.uri.loopback_localhost") + a.get("single_defect_rejected.uri.loopback_v6") > 0, "loopback URI for an ineligible client never refused".into()),
        (a.get("membership_changes") > 0, "no membership change happened".into()),
    ];
    for (ok, why) in checks {
        // a replay of one history is judged by its oracle alone
        if only.is_none() {
            run.require(ok, &why);
        }
    }
    if let Some(o) = &only {
        run.extra("replay_of_history", json!(o));
    }
    run.finish();
}
