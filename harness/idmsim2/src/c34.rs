//! C34 Revoked keys never verify.
//!
//! Two replicas (A file backed so that it can be closed and re-opened, B in memory, joined by a
//! refresh) run random histories of: logins (user auth tokens signed by the domain key object),
//! OAuth2 code flows (codes / refresh tokens encrypted, access / id tokens signed by the client's
//! key object), key rotation and revocation written as key-action attributes on the key-object
//! entries, re-opening A from its file, replication in both directions, and presentation of every
//! token ever issued to both replicas, at simulated times around the `valid_from` of rotated keys.
//!
//! Books kept by the monitor: which (key object, key id) it revoked where and when, and which
//! replica therefore *knows* the revocation (locally, or through a later successful replication).
//! Judged: (1) a token whose key the presented-to replica knows as revoked is never accepted;
//! (2) every fresh token carries the newest key that is Valid and started in that replica's stored
//! key states, and never a key the books know as revoked there; (3) a token of a never-revoked key
//! is not refused after a rotation when everything else about it is in order.

use crate::c38::uuid_n;
use crate::sim::*;
use kanidm_proto::oauth2::{
    AuthorisationRequest, CodeChallengeMethod, GrantTypeReq, PkceRequest, ResponseType,
};
use kanidmd_lib::prelude::*;
use kanidmd_lib::repl::proto::ConsumerState;
use kvcore::{Acc, Args, Rng, Run, Scratch};
use serde_json::{json, Value as Json};
use std::collections::{BTreeMap, BTreeSet};
use std::path::PathBuf;

const A: usize = 0;
const B: usize = 1;
const REDIRECT: &str = "https://app.example.com/oauth2/cb";
const REFRESH_LIFETIME: u64 = 16 * 3600;
/// One cause, two symptoms (a token of the revoked key is accepted / a fresh token is made with it).
const LOST_REVOCATION_SIG: &str = "c34/replicated-revocation-lost/concurrent-write-to-same-key-object";

#[derive(Clone, Copy, PartialEq, Eq, Debug)]
enum Kind {
    Uat,
    Access,
    IdToken,
    Refresh,
    Code,
}

impl Kind {
    fn name(&self) -> &'static str {
        match self {
            Kind::Uat => "uat",
            Kind::Access => "access",
            Kind::IdToken => "idtoken",
            Kind::Refresh => "refresh",
            Kind::Code => "code",
        }
    }
}

type KeyRef = (Uuid, String);

#[derive(Clone, Debug)]
struct Tok {
    kind: Kind,
    text: String,
    kid: String,
    obj: Uuid,
    usage: String,
    issuer: usize,
    seq: u64,
    issued: u64,
    exp: u64,
    who: usize,
    client: Option<usize>,
    session_id: Option<Uuid>,
    parent_session: Option<Uuid>,
    verifier: Option<String>,
    /// index of the login token this token's session hangs under
    login: Option<usize>,
    spent: bool,
}

#[derive(Clone, Debug)]
struct KeyState {
    kid: String,
    usage: String,
    status: String,
    valid_from: u64,
}

struct H {
    /// "<worker>:<history>" under the run's seed (see `replay_target`)
    id: String,
    reps: Vec<Option<Sim>>,
    _scratch: Scratch,
    path_a: PathBuf,
    now: u64,
    seq: u64,
    persons: Vec<(String, Uuid)>,
    clients: Vec<ClientCfg>,
    toks: Vec<Tok>,
    /// (obj, kid) -> (seq at which this replica came to know the revocation, learned by replication)
    knows_rev: [BTreeMap<KeyRef, (u64, bool)>; 2],
    rev_any: BTreeSet<KeyRef>,
    /// every key we ever saw in a dump: usage, valid_from
    seen_keys: BTreeMap<KeyRef, (String, u64)>,
    rotations: Vec<(Uuid, u64)>,
    /// every committed write that re-stamps a key object's key set: key actions (rotate / revoke)
    /// and, for the domain key object, a server start: (replica, key object, seq)
    keyops: Vec<(usize, Uuid, u64, u64)>,
    /// where and when each revocation was made
    rev_origin: BTreeMap<KeyRef, (usize, u64, u64)>,
    reloads_a: Vec<u64>,
    /// successful replications (from, to, seq)
    repl: Vec<(usize, usize, u64)>,
}

fn rep_name(x: usize) -> &'static str {
    if x == A {
        "A"
    } else {
        "B"
    }
}

fn parse_keys(entry: &Json) -> Vec<KeyState> {
    let mut out = Vec::new();
    let Some(attrs) = kvcore::srv::dump_attrs(entry) else { return out };
    let Some(ki) = attrs.get("key_internal_data").and_then(|v| v.get("KI")).and_then(|v| v.as_array()) else {
        return out;
    };
    for k in ki {
        let Some(v1) = k.get("V1") else { continue };
        out.push(KeyState {
            kid: v1.get("id").and_then(|x| x.as_str()).unwrap_or("").to_string(),
            usage: v1.get("usage").and_then(|x| x.as_str()).unwrap_or("").to_string(),
            status: v1.get("status").and_then(|x| x.as_str()).unwrap_or("").to_string(),
            valid_from: v1.get("valid_from").and_then(|x| x.as_u64()).unwrap_or(0),
        });
    }
    out
}

/// state tag ("ea" / "nv" / "ra") of the session record `sid` inside attribute `attr`, if present
pub fn session_state(entry: &Json, attr: &str, sid: Uuid) -> Option<String> {
    fn walk(v: &Json, sid: &str) -> Option<String> {
        match v {
            Json::Object(m) => {
                if m.get("u").and_then(|u| u.as_str()) == Some(sid) {
                    let e = m.get("e")?;
                    return match e {
                        Json::Object(em) => em.keys().next().cloned(),
                        Json::String(s) => Some(s.clone()),
                        _ => None,
                    };
                }
                m.values().find_map(|x| walk(x, sid))
            }
            Json::Array(a) => a.iter().find_map(|x| walk(x, sid)),
            _ => None,
        }
    }
    let a = kvcore::srv::dump_attrs(entry)?.get(attr)?;
    walk(a, &sid.to_string())
}

impl H {
    fn sim(&mut self, x: usize) -> &mut Sim {
        let now = self.now;
        let s = self.reps[x].as_mut().expect("replica open");
        s.now = now;
        s
    }

    fn tick(&mut self) -> u64 {
        self.seq += 1;
        self.seq
    }

    fn key_objects(&self) -> Vec<Uuid> {
        let mut v = vec![UUID_DOMAIN_INFO];
        v.extend(self.clients.iter().map(|c| c.uuid));
        v
    }

    async fn keys_of(&mut self, x: usize, obj: Uuid) -> Vec<KeyState> {
        self.sim(x).dump_entry(obj).await.as_ref().map(parse_keys).unwrap_or_default()
    }

    async fn learn_keys(&mut self, x: usize) {
        for o in self.key_objects() {
            for k in self.keys_of(x, o).await {
                self.seen_keys
                    .entry((o, k.kid.clone()))
                    .or_insert((k.usage.clone(), k.valid_from));
            }
        }
    }

    /// Was the revocation of `key` (made on its origin replica) shipped to `y` only after `y` had
    /// itself written the same key object concurrently and that write had already reached the
    /// origin? (Then the origin's merged key set carries `y`'s change id and is never supplied
    /// back to `y`: incremental replication only ships attributes whose change id the consumer
    /// lacks.) Any modify of a key-object entry re-stamps its key set, and so does a server start
    /// for the domain key object.
    fn revocation_crossed_concurrent_change(&self, key: &KeyRef, y: usize) -> bool {
        let Some((origin, seq_r, time_r)) = self.rev_origin.get(key).copied() else { return false };
        if origin == y {
            return false;
        }
        // when the revocation was first shipped origin -> y
        let Some(seq_l) = self
            .repl
            .iter()
            .filter(|(f, t, s)| *f == origin && *t == y && *s > seq_r)
            .map(|(_, _, s)| *s)
            .min()
        else {
            return false;
        };
        self.keyops.iter().any(|(rep, obj, seq_m, time_m)| {
            *rep == y
                && *obj == key.0
                // y wrote before the revocation arrived there ...
                && *seq_m < seq_l
                // ... with a change id not older than the revocation's (same second: tie-break by server uuid)
                && *time_m >= time_r
                // ... the origin had not seen that write when it revoked ...
                && (*seq_m > seq_r
                    || !self.repl.iter().any(|(f, t, s)| *f == y && *t == origin && *s > *seq_m && *s < seq_r))
                // ... and the write reached the origin before the revocation was shipped to y
                && self
                    .repl
                    .iter()
                    .any(|(f, t, s)| *f == y && *t == origin && *s > (*seq_m).max(seq_r) && *s < seq_l)
        })
    }

    fn replicated_after(&self, from: usize, to: usize, seq: u64) -> bool {
        from == to || self.repl.iter().any(|(f, t, s)| *f == from && *t == to && *s > seq)
    }

    fn rotated_after(&self, obj: Uuid, seq: u64) -> bool {
        self.rotations.iter().any(|(o, s)| *o == obj && *s > seq)
    }

    fn witness(&mut self, what: Json) -> Json {
        let la = self.reps[A].as_ref().map(|s| s.log_tail(25)).unwrap_or_default();
        let lb = self.reps[B].as_ref().map(|s| s.log_tail(25)).unwrap_or_default();
        json!({"what": what, "now": self.now, "seq": self.seq, "history": self.id,
               "revocations_known": {
                   "A": self.knows_rev[A].iter().map(|((o, k), (s, r))| json!({"obj": o.to_string(), "kid": k, "since_seq": s, "by_replication": r})).collect::<Vec<_>>(),
                   "B": self.knows_rev[B].iter().map(|((o, k), (s, r))| json!({"obj": o.to_string(), "kid": k, "since_seq": s, "by_replication": r})).collect::<Vec<_>>()},
               "rotations": self.rotations.iter().map(|(o, s)| json!([o.to_string(), s])).collect::<Vec<_>>(),
               "reloads_of_A": self.reloads_a, "replications": self.repl,
               "log_tail_A": la, "log_tail_B": lb})
    }
}

fn usage_kind(t: &Tok) -> String {
    let u = match t.usage.as_str() {
        "JwsEs256" => "es256",
        "JwsRs256" => "rs256",
        "JweA128GCM" => "jwe",
        _ => "other",
    };
    format!("{u}-{}", t.kind.name())
}

async fn setup(rng: &mut Rng, start: u64, with_rs256: bool) -> Result<H, String> {
    let scratch = Scratch::new("c34");
    let path_a = scratch.path().join("a.db");
    let mut a = Sim::open_file(&path_a, start).await?;
    a.relax_credential_policy().await?;
    let persons: Vec<(String, Uuid)> = (0..2)
        .map(|i| (format!("person{i}"), uuid_n(1, i as u64)))
        .collect();
    let mut entries = Vec::new();
    for (n, u) in &persons {
        entries.push(Sim::person_entry(n, *u));
    }
    a.create(entries).await?;
    for (i, (_, u)) in persons.iter().enumerate() {
        a.set_password(*u, &password_for(i as u64)).await?;
    }
    let scope_maps = BTreeMap::from([(
        UUID_IDM_ALL_PERSONS,
        ["openid", "read"].iter().map(|s| s.to_string()).collect::<BTreeSet<_>>(),
    )]);
    let mk = |i: usize, name: &str, public: bool, legacy: bool| ClientCfg {
        name: name.to_string(),
        uuid: uuid_n(3, i as u64),
        public,
        allow_localhost: false,
        disable_pkce: !public,
        consent_prompt: if public { None } else { Some(false) },
        landing: REDIRECT.to_string(),
        origins: vec![],
        scope_maps: scope_maps.clone(),
        sup_scope_maps: BTreeMap::new(),
        refresh_expiry: None,
        legacy_crypto: legacy,
        secret: None,
    };
    let mut clients = vec![mk(0, "ka", false, false), mk(1, "kb", true, false)];
    if with_rs256 {
        clients.push(mk(2, "krs", false, true));
    }
    for c in clients.iter_mut() {
        a.create_client(c).await?;
    }
    // B joins by a refresh from A
    let qs_b = kvcore::srv::mk_server_at(None, 1, Some(2048), Duration::from_secs(start), DOMAIN_TGT_LEVEL)
        .await
        .map_err(|e| format!("server B: {e:?}"))?;
    let mut b = Sim::new(qs_b, start).await?;
    a.advance(1);
    b.now = a.now;
    {
        let ctx = {
            let mut r = a.idms.proxy_read().await.map_err(|e| format!("{e:?}"))?;
            r.qs_read
                .supplier_provide_refresh()
                .map_err(|e| format!("provide refresh: {e:?}"))?
        };
        let ct = b.ct();
        let mut w = b.idms.proxy_write(ct).await.map_err(|e| format!("{e:?}"))?;
        w.qs_write
            .consumer_apply_refresh(ctx)
            .map_err(|e| format!("apply refresh: {e:?}"))?;
        w.commit().map_err(|e| format!("commit refresh: {e:?}"))?;
    }
    let now = a.now + 1;
    let mut h = H {
        id: String::new(),
        reps: vec![Some(a), Some(b)],
        _scratch: scratch,
        path_a,
        now,
        seq: 0,
        persons,
        clients,
        toks: Vec::new(),
        knows_rev: [BTreeMap::new(), BTreeMap::new()],
        rev_any: BTreeSet::new(),
        seen_keys: BTreeMap::new(),
        rotations: Vec::new(),
        keyops: Vec::new(),
        rev_origin: BTreeMap::new(),
        reloads_a: Vec::new(),
        repl: Vec::new(),
    };
    let _ = rng;
    h.learn_keys(A).await;
    h.learn_keys(B).await;
    Ok(h)
}

/// Judgement (2): the key a fresh token carries.
async fn judge_signer(h: &mut H, acc: &mut Acc, x: usize, ti: usize) {
    let t = h.toks[ti].clone();
    let keys = h.keys_of(x, t.obj).await;
    let same: Vec<&KeyState> = keys.iter().filter(|k| k.usage == t.usage).collect();
    let started_valid: Vec<&&KeyState> = same
        .iter()
        .filter(|k| k.status == "Valid" && k.valid_from <= t.issued)
        .collect();
    let uk = usage_kind(&t);
    acc.count(&format!("signer.checked.{uk}"));
    if started_valid.len() >= 2 {
        acc.count("signer.checked_with_two_or_more_started_valid_keys");
    }
    if same.iter().any(|k| k.status == "Valid" && k.valid_from > t.issued) {
        acc.count("signer.checked_while_future_key_pending");
    }
    if same.iter().any(|k| k.status == "Revoked") {
        acc.count("signer.checked_with_revoked_key_in_set");
    }
    let mut bad: Option<(String, String)> = None;
    if let Some((_, by_repl)) = h.knows_rev[x].get(&(t.obj, t.kid.clone())).copied() {
        let stored_revoked = same.iter().any(|k| k.kid == t.kid && k.status == "Revoked");
        if by_repl && !stored_revoked && h.revocation_crossed_concurrent_change(&(t.obj, t.kid.clone()), x) {
            bad = Some((LOST_REVOCATION_SIG.to_string(), "a fresh token is protected by a key whose revocation on the other replica never arrived here: this replica changed the same key object concurrently, and its change reached the other replica before the revocation was shipped".into()));
        } else {
            bad = Some((format!("c34/signed-with-revoked-key/{uk}"), "the books know this key as revoked on the issuing replica".into()));
        }
    } else {
        match same.iter().find(|k| k.kid == t.kid) {
            None => bad = Some((format!("c34/signed-with-unknown-key/{uk}"), "kid is not in the stored key set".into())),
            Some(k) => {
                let newest = started_valid.iter().map(|k| k.valid_from).max();
                if k.status != "Valid" {
                    bad = Some((format!("c34/signer-not-newest-started-valid/{uk}/{}-key-used", k.status.to_lowercase()), format!("key status {}", k.status)));
                } else if k.valid_from > t.issued {
                    bad = Some((format!("c34/signer-not-newest-started-valid/{uk}/not-yet-valid-key-used"), format!("valid_from {} > issue time {}", k.valid_from, t.issued)));
                } else if Some(k.valid_from) != newest {
                    bad = Some((format!("c34/signer-not-newest-started-valid/{uk}/older-key-used"), format!("valid_from {} but newest started valid key has {:?}", k.valid_from, newest)));
                } else if k.valid_from > 0 {
                    acc.count("signer.used_rotated_in_key");
                }
            }
        }
    }
    if let Some((sig, why)) = bad {
        let stored: Vec<Json> = same.iter().map(|k| json!({"kid": k.kid, "status": k.status, "valid_from": k.valid_from})).collect();
        let wit = h.witness(json!({"op": "issue", "replica": rep_name(x), "token_kind": t.kind.name(), "kid": t.kid, "issued": t.issued, "why": why, "stored_keys": stored}));
        acc.violation(&sig, wit);
    }
}

async fn record_token(h: &mut H, acc: &mut Acc, x: usize, mut t: Tok) -> usize {
    t.issuer = x;
    t.seq = h.tick();
    t.issued = h.now;
    h.toks.push(t);
    let ti = h.toks.len() - 1;
    judge_signer(h, acc, x, ti).await;
    ti
}

async fn op_login(h: &mut H, acc: &mut Acc, rng: &mut Rng, x: usize) -> Option<usize> {
    let who = rng.usize(h.persons.len());
    let name = h.persons[who].0.clone();
    let r = h.sim(x).login(&name, &password_for(who as u64)).await;
    match r {
        Ok(l) => {
            let p = jws_payload(&l.token).unwrap_or(Json::Null);
            let sid = p.get("session_id").and_then(|s| s.as_str()).and_then(|s| Uuid::parse_str(s).ok());
            let exp = p.get("expiry").and_then(|e| e.as_u64()).unwrap_or(h.now + 86400);
            let Some(kid) = jose_kid(&l.token) else {
                acc.inconclusive("login token without kid");
                return None;
            };
            acc.count("issue.uat");
            let t = Tok {
                kind: Kind::Uat, text: l.token, kid, obj: UUID_DOMAIN_INFO, usage: "JwsEs256".into(),
                issuer: x, seq: 0, issued: 0, exp, who, client: None, session_id: sid, parent_session: None,
                verifier: None, login: None, spent: false,
            };
            Some(record_token(h, acc, x, t).await)
        }
        Err(_) => {
            acc.count("login.failed");
            None
        }
    }
}

fn token_usage_for(cfg: &ClientCfg, kind: Kind) -> String {
    match kind {
        Kind::Access | Kind::IdToken => {
            if cfg.legacy_crypto {
                "JwsRs256".into()
            } else {
                "JwsEs256".into()
            }
        }
        _ => "JweA128GCM".into(),
    }
}

/// Tokens out of a token-endpoint response, recorded and signer-judged.
async fn record_response(
    h: &mut H,
    acc: &mut Acc,
    x: usize,
    resp: kanidm_proto::oauth2::AccessTokenResponse,
    who: usize,
    client: usize,
    login: Option<usize>,
) {
    let cfg = h.clients[client].clone();
    let p = jws_payload(&resp.access_token).unwrap_or(Json::Null);
    let sid = p.get("session_id").and_then(|s| s.as_str()).and_then(|s| Uuid::parse_str(s).ok());
    let psid = p.get("parent_session_id").and_then(|s| s.as_str()).and_then(|s| Uuid::parse_str(s).ok());
    let exp = p.get("exp").and_then(|e| e.as_u64()).unwrap_or(h.now + 900);
    let mk = |kind: Kind, text: String, exp: u64| -> Option<Tok> {
        let kid = jose_kid(&text)?;
        Some(Tok {
            kind, text, kid, obj: cfg.uuid, usage: token_usage_for(&cfg, kind), issuer: x, seq: 0, issued: 0, exp,
            who, client: Some(client), session_id: sid, parent_session: psid, verifier: None, login, spent: false,
        })
    };
    let mut list = Vec::new();
    list.push(mk(Kind::Access, resp.access_token.clone(), exp));
    if let Some(id) = resp.id_token.clone() {
        list.push(mk(Kind::IdToken, id, exp));
    }
    if let Some(rt) = resp.refresh_token.clone() {
        list.push(mk(Kind::Refresh, rt, h.now + REFRESH_LIFETIME));
    }
    for t in list {
        match t {
            Some(t) => {
                acc.count(&format!("issue.{}", t.kind.name()));
                record_token(h, acc, x, t).await;
            }
            None => acc.inconclusive("an issued OAuth2 token carries no kid in its header"),
        }
    }
}

async fn op_flow(h: &mut H, acc: &mut Acc, rng: &mut Rng, x: usize) {
    // a login token this replica should accept
    let now = h.now;
    let cands: Vec<usize> = (0..h.toks.len())
        .filter(|i| {
            let t = &h.toks[*i];
            t.kind == Kind::Uat
                && t.exp > now
                && !h.rev_any.contains(&(t.obj, t.kid.clone()))
                && h.replicated_after(t.issuer, x, t.seq)
        })
        .collect();
    let li = if cands.is_empty() || rng.chance(1, 6) {
        match op_login(h, acc, rng, x).await {
            Some(i) => i,
            None => return,
        }
    } else {
        *rng.pick(&cands)
    };
    let who = h.toks[li].who;
    let client = rng.usize(h.clients.len());
    let cfg = h.clients[client].clone();
    let verifier = if cfg.requires_pkce() { Some(random_verifier(rng)) } else { None };
    let Ok(redirect) = Url::parse(REDIRECT) else { return };
    let req = AuthorisationRequest {
        response_type: ResponseType::Code,
        response_mode: None,
        client_id: cfg.name.clone(),
        state: None,
        pkce_request: verifier.as_ref().map(|v| PkceRequest {
            code_challenge: sha256(v.as_bytes()).to_vec(),
            code_challenge_method: CodeChallengeMethod::S256,
        }),
        redirect_uri: redirect,
        scope: ["openid", "read"].iter().map(|s| s.to_string()).collect(),
        nonce: None,
        oidc_ext: Default::default(),
        max_age: None,
        prompt: Default::default(),
        ui_locales: Default::default(),
        unknown_keys: Default::default(),
    };
    let bearer = h.toks[li].text.clone();
    let r = h.sim(x).authorise_to_code(&bearer, &req).await;
    h.sim(x).record("authorise", json!({"client": cfg.name, "login_token": li}), &r);
    let code = match r {
        Ok(c) => c,
        Err(_) => {
            acc.count("flow.authorise_failed");
            return;
        }
    };
    let Some(kid) = jose_kid(&code) else {
        acc.inconclusive("authorisation code without kid");
        return;
    };
    acc.count("issue.code");
    let t = Tok {
        kind: Kind::Code, text: code, kid, obj: cfg.uuid, usage: "JweA128GCM".into(), issuer: x, seq: 0, issued: 0,
        exp: h.now + 60, who, client: Some(client), session_id: None, parent_session: h.toks[li].session_id,
        verifier, login: Some(li), spent: false,
    };
    let ci = record_token(h, acc, x, t).await;
    if rng.chance(7, 10) {
        present(h, acc, rng, ci, x).await;
    }
}

/// Present token `ti` to replica `y`; returns whether it was accepted. Judgements (1) and (3).
async fn present(h: &mut H, acc: &mut Acc, _rng: &mut Rng, ti: usize, y: usize) {
    let t = h.toks[ti].clone();
    let now = h.now;
    let key: KeyRef = (t.obj, t.kid.clone());
    let uk = usage_kind(&t);
    acc.eval();
    let mut new_resp = None;
    let accepted: bool = match t.kind {
        Kind::Uat => {
            let r = h.sim(y).ident_of(&t.text).await;
            h.sim(y).record("present_uat", json!({"token": ti, "kid": t.kid}), &r);
            r.is_ok()
        }
        Kind::Access => {
            let cname = h.clients[t.client.unwrap_or(0)].name.clone();
            if ti % 2 == 0 {
                let r = h.sim(y).introspect(&t.text).await;
                h.sim(y).record("present_access_introspect", json!({"token": ti, "kid": t.kid}), &r);
                matches!(r, Ok(ref x) if x.active)
            } else {
                let r = h.sim(y).userinfo(&cname, &t.text).await;
                h.sim(y).record("present_access_userinfo", json!({"token": ti, "kid": t.kid}), &r);
                r.is_ok()
            }
        }
        Kind::IdToken => {
            // what a relying party does: look the kid up in the published key set
            let cname = h.clients[t.client.unwrap_or(0)].name.clone();
            let r = {
                let s = h.sim(y);
                match s.idms.proxy_read().await {
                    Ok(rd) => rd.oauth2_openid_publickey(&cname).map_err(|e| format!("{e:?}")),
                    Err(e) => Err(format!("{e:?}")),
                }
            };
            let found = match &r {
                Ok(set) => serde_json::to_value(set)
                    .ok()
                    .and_then(|v| v.get("keys").and_then(|k| k.as_array()).map(|a| a.iter().any(|j| j.get("kid").and_then(|k| k.as_str()) == Some(t.kid.as_str()))))
                    .unwrap_or(false),
                Err(_) => false,
            };
            h.sim(y).record("present_idtoken_jwks", json!({"token": ti, "kid": t.kid, "kid_published": found}), &r);
            found
        }
        Kind::Refresh => {
            let cfg = h.clients[t.client.unwrap_or(0)].clone();
            let r = h
                .sim(y)
                .token_endpoint(Some(&cfg.name), cfg.secret.as_deref(), GrantTypeReq::RefreshToken { refresh_token: t.text.clone(), scope: None })
                .await;
            h.sim(y).record("present_refresh", json!({"token": ti, "kid": t.kid, "spent_before": t.spent}), &r);
            match r {
                Ok(resp) => {
                    new_resp = Some(resp);
                    true
                }
                Err(_) => false,
            }
        }
        Kind::Code => {
            let cfg = h.clients[t.client.unwrap_or(0)].clone();
            let Ok(redirect) = Url::parse(REDIRECT) else { return };
            let r = h
                .sim(y)
                .token_endpoint(
                    Some(&cfg.name),
                    cfg.secret.as_deref(),
                    GrantTypeReq::AuthorizationCode { code: t.text.clone(), redirect_uri: redirect, code_verifier: t.verifier.clone() },
                )
                .await;
            h.sim(y).record("present_code", json!({"token": ti, "kid": t.kid, "age": now.saturating_sub(t.issued)}), &r);
            match r {
                Ok(resp) => {
                    new_resp = Some(resp);
                    true
                }
                Err(_) => false,
            }
        }
    };
    let known_revoked = h.knows_rev[y].get(&key).copied();
    if accepted {
        if let Some((since, by_repl)) = known_revoked {
            let reloaded = y == A && h.reloads_a.iter().any(|s| *s > since);
            let stored_revoked = h.keys_of(y, t.obj).await.iter().any(|k| k.kid == t.kid && k.status == "Revoked");
            let sig = if by_repl && !stored_revoked && h.revocation_crossed_concurrent_change(&key, y) {
                LOST_REVOCATION_SIG.to_string()
            } else {
                format!(
                    "c34/revoked-key-accepted/{uk}/{}{}",
                    if by_repl { "replicated" } else { "local" },
                    if reloaded { "/after-reload" } else { "" }
                )
            };
            let wit = h.witness(json!({"op": "present", "replica": rep_name(y), "token": ti, "token_kind": t.kind.name(), "kid": t.kid,
                "key_object": t.obj.to_string(), "issued_on": rep_name(t.issuer), "revocation_known_since_seq": since, "learned_by_replication": by_repl}));
            acc.violation(&sig, wit);
        } else {
            acc.count(&format!("accepted.{uk}"));
            acc.nontrivial(&format!(
                "acc|{uk}|{}|{}|{}|{}|{}|{}",
                t.kid,
                y,
                t.issuer,
                h.rotations.iter().filter(|(o, s)| *o == t.obj && *s > t.seq).count().min(4),
                y == A && h.reloads_a.iter().any(|s| *s > t.seq),
                h.rev_any.contains(&key)
            ));
            if h.rotated_after(t.obj, t.seq) {
                acc.count(&format!("accepted_older_key_after_rotation.{uk}"));
            }
            if h.rev_any.contains(&key) {
                // revoked on the other replica, not yet replicated here: legitimately still accepted
                acc.count("accepted.revocation_not_yet_replicated");
            }
            if y == A && h.reloads_a.iter().any(|s| *s > t.seq) {
                acc.count("accepted.after_reload");
            }
            if y != t.issuer {
                acc.count("accepted.on_other_replica");
            }
        }
    } else if let Some((since, by_repl)) = known_revoked {
        let reloaded = y == A && h.reloads_a.iter().any(|s| *s > since);
        acc.count(&format!("rejected_revoked.{uk}"));
        acc.count(&format!("rejected_revoked.{}{}", if by_repl { "replicated" } else { "local" }, if reloaded { ".after_reload" } else { "" }));
        acc.nontrivial(&format!("rej|{uk}|{}|{y}|{by_repl}|{reloaded}", t.kid));
    } else {
        // refused although the key is not known as revoked here: is everything else in order?
        let mut reasons: Vec<&str> = Vec::new();
        if h.rev_any.contains(&key) {
            reasons.push("revoked_on_other_replica");
        }
        if now >= t.exp {
            reasons.push("expired");
        }
        if t.spent && matches!(t.kind, Kind::Refresh | Kind::Code) {
            reasons.push("spent");
        }
        if !h.replicated_after(t.issuer, y, t.seq) {
            reasons.push("issuer_state_not_replicated");
        }
        if let Some(li) = t.login {
            let l = &h.toks[li];
            if !h.replicated_after(l.issuer, y, l.seq) {
                reasons.push("login_state_not_replicated");
            }
            if h.rev_any.contains(&(l.obj, l.kid.clone())) {
                // irrelevant for key verification of this token, but the flow's parent may be gone
            }
        }
        if !h.rotated_after(t.obj, t.seq) {
            reasons.push("no_rotation_since_issue");
        }
        // the presented-to replica's stored state: key present and not revoked, session records present
        let kstate = h.keys_of(y, t.obj).await.into_iter().find(|k| k.kid == t.kid);
        match &kstate {
            Some(k) if k.status == "Valid" || k.status == "Retained" => {}
            Some(_) => reasons.push("stored_key_revoked"),
            None => reasons.push("stored_key_absent"),
        }
        let person = h.persons[t.who].1;
        let pe_opt = h.sim(y).dump_entry(person).await;
        if let Some(pe) = pe_opt.as_ref() {
            if matches!(t.kind, Kind::Uat) {
                if let Some(sid) = t.session_id {
                    match session_state(pe, "user_auth_token_session", sid).as_deref() {
                        Some("ea") | Some("nv") => {}
                        _ => reasons.push("login_session_record_missing_or_revoked"),
                    }
                }
            }
            if matches!(t.kind, Kind::Access | Kind::Refresh) {
                if let Some(sid) = t.session_id {
                    match session_state(pe, "oauth2_session", sid).as_deref() {
                        Some("ea") | Some("nv") => {}
                        _ => reasons.push("oauth2_session_record_missing_or_revoked"),
                    }
                }
                if let Some(psid) = t.parent_session {
                    match session_state(pe, "user_auth_token_session", psid).as_deref() {
                        Some("ea") | Some("nv") => {}
                        _ => reasons.push("parent_session_record_missing_or_revoked"),
                    }
                }
            }
        } else {
            reasons.push("person_missing");
        }
        if matches!(t.kind, Kind::Refresh) {
            // a refresh token is only redeemable while it is the newest of its session
            let newer = h.toks.iter().any(|o| o.kind == Kind::Refresh && o.session_id == t.session_id && o.seq > t.seq);
            if newer {
                reasons.push("rotated_refresh_token");
            }
        }
        if reasons.is_empty() {
            let sig = format!("c34/unrevoked-key-rejected-after-rotation/{uk}");
            let wit = h.witness(json!({"op": "present", "replica": rep_name(y), "token": ti, "token_kind": t.kind.name(), "kid": t.kid,
                "key_object": t.obj.to_string(), "issued_on": rep_name(t.issuer), "issued_seq": t.seq,
                "stored_key": kstate.map(|k| json!({"status": k.status, "valid_from": k.valid_from}))}));
            acc.violation(&sig, wit);
        } else {
            for r in &reasons {
                acc.count(&format!("refused_unjudged.{r}"));
            }
        }
    }
    if let Some(resp) = new_resp {
        h.toks[ti].spent = true;
        let (who, client, login) = (t.who, t.client.unwrap_or(0), t.login);
        record_response(h, acc, y, resp, who, client, login).await;
    }
}

async fn op_present(h: &mut H, acc: &mut Acc, rng: &mut Rng) {
    if h.toks.is_empty() {
        return;
    }
    let now = h.now;
    // prefer tokens whose key has been revoked somewhere, or whose object rotated since issue
    let interesting: Vec<usize> = (0..h.toks.len())
        .filter(|i| {
            let t = &h.toks[*i];
            t.exp > now && (h.rev_any.contains(&(t.obj, t.kid.clone())) || h.rotated_after(t.obj, t.seq))
        })
        .collect();
    let live: Vec<usize> = (0..h.toks.len()).filter(|i| h.toks[*i].exp > now).collect();
    let ti = if !interesting.is_empty() && rng.chance(3, 4) {
        *rng.pick(&interesting)
    } else if !live.is_empty() && rng.chance(9, 10) {
        *rng.pick(&live)
    } else {
        rng.usize(h.toks.len())
    };
    let y = if rng.chance(3, 5) { h.toks[ti].issuer } else { rng.usize(2) };
    present(h, acc, rng, ti, y).await;
}

async fn op_rotate(h: &mut H, acc: &mut Acc, rng: &mut Rng, x: usize) {
    let objs = h.key_objects();
    let obj = *rng.pick(&objs);
    let now = h.now;
    let (when, what) = match rng.below(6) {
        0 => (now.saturating_sub(rng.range(1, 5000)), "past"),
        1 | 2 => (now, "now"),
        3 | 4 => (now + rng.range(1, 120), "near_future"),
        _ => (now + rng.range(200, 3000), "far_future"),
    };
    let ml = ModifyList::new_append(Attribute::KeyActionRotate, Value::new_datetime_epoch(Duration::from_secs(when)));
    let r = h.sim(x).modify_uuid(obj, &ml).await;
    h.sim(x).record("rotate", json!({"obj": obj.to_string(), "at": when, "rel": what}), &r);
    match r {
        Ok(()) => {
            let s = h.tick();
            h.rotations.push((obj, s));
            h.keyops.push((x, obj, s, now));
            acc.count(&format!("rotate.{what}"));
            h.learn_keys(x).await;
        }
        Err(_) => acc.count("rotate.err"),
    }
}

async fn op_revoke(h: &mut H, acc: &mut Acc, rng: &mut Rng, x: usize) {
    // candidates: stored keys of the usages our tokens exercise, not yet known as revoked here
    let mut cands: Vec<(Uuid, KeyState)> = Vec::new();
    for o in h.key_objects() {
        for k in h.keys_of(x, o).await {
            if ["JwsEs256", "JwsRs256", "JweA128GCM"].contains(&k.usage.as_str()) && k.status != "Revoked" {
                cands.push((o, k));
            }
        }
    }
    if cands.is_empty() {
        return;
    }
    let now = h.now;
    let used: Vec<&(Uuid, KeyState)> = cands
        .iter()
        .filter(|(o, k)| h.toks.iter().any(|t| t.obj == *o && t.kid == k.kid && t.exp > now))
        .collect();
    let (obj, k) = if !used.is_empty() && rng.chance(4, 5) {
        (*rng.pick(&used)).clone()
    } else {
        rng.pick(&cands).clone()
    };
    let ml = ModifyList::new_append(Attribute::KeyActionRevoke, Value::HexString(k.kid.clone()));
    // a third of the revocations are followed, inside the same write transaction, by another
    // change of the same key object (a rotation, or the same revocation once more)
    let follow = rng.below(6);
    let r = match follow {
        0 => {
            let rot = ModifyList::new_append(Attribute::KeyActionRotate, Value::new_datetime_epoch(Duration::from_secs(now)));
            h.sim(x).modify_uuid_seq(obj, &[ml, rot]).await
        }
        1 => h.sim(x).modify_uuid_seq(obj, &[ml.clone(), ml]).await,
        _ => h.sim(x).modify_uuid(obj, &ml).await,
    };
    let shape = match follow { 0 => "then-rotate-in-same-transaction", 1 => "twice-in-same-transaction", _ => "alone" };
    h.sim(x).record("revoke", json!({"obj": obj.to_string(), "kid": k.kid, "usage": k.usage, "valid_from": k.valid_from, "shape": shape}), &r);
    match r {
        Ok(()) => {
            let s = h.tick();
            acc.count(&format!("revoke.shape.{shape}"));
            if follow == 0 {
                h.rotations.push((obj, s));
            }
            h.keyops.push((x, obj, s, now));
            h.rev_origin.entry((obj, k.kid.clone())).or_insert((x, s, now));
            h.knows_rev[x].entry((obj, k.kid.clone())).or_insert((s, false));
            h.rev_any.insert((obj, k.kid.clone()));
            acc.count(&format!("revoke.ok.{}", k.usage));
            if k.valid_from > now {
                acc.count("revoke.ok.not_yet_valid_key");
            }
            h.learn_keys(x).await;
        }
        Err(_) => acc.count("revoke.err"),
    }
}

async fn op_replicate(h: &mut H, acc: &mut Acc, from: usize, to: usize) {
    let ct = Duration::from_secs(h.now);
    let res: Result<bool, String> = async {
        let range = {
            let s = h.sim(to);
            let mut r = s.idms.proxy_read().await.map_err(|e| format!("{e:?}"))?;
            r.qs_read.consumer_get_state().map_err(|e| format!("get_state: {e:?}"))?
        };
        let ctx = {
            let s = h.sim(from);
            let mut r = s.idms.proxy_read().await.map_err(|e| format!("{e:?}"))?;
            r.qs_read.supplier_provide_changes(range).map_err(|e| format!("provide: {e:?}"))?
        };
        let s = h.sim(to);
        let mut w = s.idms.proxy_write(ct).await.map_err(|e| format!("{e:?}"))?;
        match w.qs_write.consumer_apply_changes(ctx).map_err(|e| format!("apply: {e:?}"))? {
            ConsumerState::Ok => {
                w.commit().map_err(|e| format!("commit: {e:?}"))?;
                Ok(true)
            }
            ConsumerState::RefreshRequired => Ok(false),
        }
    }
    .await;
    h.sim(to).record("replicate_in", json!({"from": rep_name(from)}), &res);
    match res {
        Ok(true) => {
            let s = h.tick();
            h.repl.push((from, to, s));
            let src: Vec<KeyRef> = h.knows_rev[from].keys().cloned().collect();
            for k in src {
                h.knows_rev[to].entry(k).or_insert((s, true));
            }
            acc.count("replicate.ok");
            h.learn_keys(to).await;
        }
        Ok(false) => acc.count("replicate.refresh_required"),
        Err(e) => {
            acc.count("replicate.err");
            acc.observe("replicate_errors", &e);
        }
    }
}

async fn op_reload_a(h: &mut H, acc: &mut Acc) {
    // close every handle on A's database, then open the file again
    let old = h.reps[A].take();
    let log = old.as_ref().map(|s| s.log.clone()).unwrap_or_default();
    drop(old);
    match Sim::open_file(&h.path_a, h.now).await {
        Ok(mut s) => {
            s.log = log;
            s.record::<(), String>("reload", json!({}), &Ok(()));
            h.reps[A] = Some(s);
            let q = h.tick();
            h.reloads_a.push(q);
            // start-up rewrites the domain entry, which re-stamps its key set (see keyops)
            let now = h.now;
            h.keyops.push((A, UUID_DOMAIN_INFO, q, now));
            acc.count("reload.ok");
            h.learn_keys(A).await;
        }
        Err(e) => {
            acc.inconclusive(&format!("re-opening replica A failed: {e}"));
        }
    }
}

fn op_advance(h: &mut H, acc: &mut Acc, rng: &mut Rng) {
    let now = h.now;
    let pending: Vec<u64> = h
        .seen_keys
        .values()
        .map(|(_, vf)| *vf)
        .filter(|vf| *vf + 1 >= now && *vf <= now + 4000)
        .collect();
    let step = match rng.weighted(&[30, 40, 18, 10, 2]) {
        0 => 0,
        1 => rng.range(1, 6),
        2 => {
            if pending.is_empty() {
                rng.range(1, 20)
            } else {
                let e = *rng.pick(&pending);
                acc.count("advance.to_valid_from_edge");
                (e + rng.below(3)).saturating_sub(1).saturating_sub(now)
            }
        }
        3 => rng.range(6, 60),
        _ => rng.range(60, 700),
    };
    h.now += step;
}

async fn history(acc: &mut Acc, rng: &mut Rng, ops: u64, with_rs256: bool, id: String) {
    let start = kvcore::srv::T0.as_secs() + rng.below(10_000_000);
    let mut h = match setup(rng, start, with_rs256).await {
        Ok(h) => h,
        Err(e) => {
            acc.inconclusive(&format!("C34 setup failed: {e}"));
            return;
        }
    };
    h.id = id;
    // some material to begin with
    for x in [A, B, A] {
        op_flow(&mut h, acc, rng, x).await;
        h.now += 1;
    }
    op_replicate(&mut h, acc, A, B).await;
    op_replicate(&mut h, acc, B, A).await;
    for _ in 0..ops {
        op_advance(&mut h, acc, rng);
        if h.reps[A].is_none() {
            break;
        }
        let x = rng.usize(2);
        let t0 = std::time::Instant::now();
        let which = rng.weighted(&[5, 18, 42, 9, 9, 12, 1]);
        match which {
            0 => {
                op_login(&mut h, acc, rng, x).await;
            }
            1 => op_flow(&mut h, acc, rng, x).await,
            2 => op_present(&mut h, acc, rng).await,
            3 => op_rotate(&mut h, acc, rng, x).await,
            4 => {
                op_revoke(&mut h, acc, rng, x).await;
                if x == A && rng.chance(1, 5) {
                    op_reload_a(&mut h, acc).await;
                }
            }
            5 => {
                if rng.bool() {
                    op_replicate(&mut h, acc, A, B).await;
                } else {
                    op_replicate(&mut h, acc, B, A).await;
                }
            }
            _ => op_reload_a(&mut h, acc).await,
        }
        if std::env::var("C34_PROFILE").is_ok() {
            acc.count_n(&format!("profile_ms.op{which}.rep{x}"), t0.elapsed().as_millis() as u64);
            acc.count(&format!("profile_n.op{which}.rep{x}"));
        }
    }
    acc.count("histories");
    acc.count_n("tokens_issued", h.toks.len() as u64);
    acc.count_n("keys_seen", h.seen_keys.len() as u64);
    if acc.samples.len() < 3 {
        acc.sample(json!({"tokens": h.toks.len(), "keys_seen": h.seen_keys.len(), "revocations": h.rev_any.len(), "rotations": h.rotations.len(),
            "reloads": h.reloads_a.len(), "replications": h.repl.len(), "time_span_s": h.now - start,
            "log_tail_A": h.reps[A].as_ref().map(|s| s.log_tail(8))}));
    }
    // close everything before the scratch directory goes away
    h.reps.clear();
}

pub fn run(mut args: Args) {
    let only = replay_target(&mut args);
    let mut run = Run::new(
        args.clone(),
        "exploration",
        "random histories on two replicas (A file backed and re-opened at random points, B joined by refresh, incremental replication both ways) of logins, OAuth2 code flows (ES256 and, in some histories, RS256 clients), key rotation (past / now / near future / far future) and revocation of ES256 / RS256 / A128GCM keys on the domain and client key objects, and presentation of every token ever issued (login tokens, codes, access, id and refresh tokens) to both replicas at simulated times clustered around key valid_from edges; non-trivial = a presentation that was accepted with a non-revoked key or refused for a key known revoked; distinct by key usage x token kind x replica x how the revocation was learned (local / replicated / across a re-open) x whether the key object rotated since issue",
    );
    run.assume("stored key states are read from each replica's own database dump (key_internal_data); which key was revoked where and when comes from the harness's own books");
    run.assume("an id token counts as accepted when its kid is in the client's published JWK set, which is what relying parties verify against");
    let histories: u64 = args.tier.pick(2, 16);
    let ops: u64 = args.tier.pick(140, 240);
    let seed = args.seed;
    run.parallel(args.workers, |w, _n| {
        let mut acc = Acc::new();
        let rt = kvcore::srv::rt();
        for hno in 0..histories {
            let id = format!("{w}:{hno}");
            if only.as_ref().map(|o| *o != id).unwrap_or(false) {
                continue;
            }
            let mut rng = Rng::new(kvcore::rng::mix(seed, w as u64, 3400 + hno));
            let with_rs256 = (w as u64 + hno) % 4 == 0;
            let res = run_case(|| rt.block_on(history(&mut acc, &mut rng, ops, with_rs256, id)));
            if let Err(p) = res {
                acc.count("panic_in_case");
                acc.inconclusive(&format!("panic during a C34 history: {p}"));
            }
        }
        acc
    });
    let a = &run.acc;
    let sum = |prefix: &str| -> u64 { a.counters.iter().filter(|(k, _)| k.starts_with(prefix)).map(|(_, v)| *v).sum() };
    let checks: Vec<(bool, String)> = vec![
        (a.get("rejected_revoked.es256-uat") > 0, "no login token of a revoked key was presented".into()),
        (a.get("rejected_revoked.es256-access") > 0, "no access token of a revoked key was presented".into()),
        (a.get("rejected_revoked.es256-idtoken") > 0, "no id token of a revoked key was looked up".into()),
        (a.get("rejected_revoked.jwe-refresh") > 0, "no refresh token of a revoked key was presented".into()),
        (a.get("rejected_revoked.local") > 0, "no presentation after a local revocation".into()),
        (a.get("rejected_revoked.replicated") > 0, "no presentation after a replicated revocation".into()),
        (a.get("rejected_revoked.local.after_reload") > 0, "no presentation of a revoked key's token after re-opening the database".into()),
        (sum("accepted_older_key_after_rotation.") >= args.tier.pick(50, 500), "too few acceptances of older keys after rotation".into()),
        (a.get("accepted_older_key_after_rotation.es256-uat") > 0, "no login token accepted after a rotation".into()),
        (a.get("accepted_older_key_after_rotation.jwe-refresh") > 0, "no refresh token accepted after a rotation".into()),
        (a.get("accepted.after_reload") > 0, "nothing accepted after a re-open".into()),
        (a.get("accepted.on_other_replica") > 0, "nothing accepted on the replica that did not issue it".into()),
        (a.get("signer.checked_with_two_or_more_started_valid_keys") > 0, "signer choice never observed with two started valid keys".into()),
        (a.get("signer.checked_while_future_key_pending") > 0, "signer choice never observed while a future-dated key was pending".into()),
        (a.get("signer.used_rotated_in_key") > 0, "no token was ever signed by a rotated-in key".into()),
        (a.get("signer.checked_with_revoked_key_in_set") > 0, "signer choice never observed with a revoked key in the set".into()),
        (a.get("reload.ok") > 0 && a.get("replicate.ok") > 0, "reload or replication never happened".into()),
        (a.get("replicate.err") == 0, "incremental replication failed in the harness".into()),
    ];
    for (ok, why) in checks {
        // a replay of one history is judged by its oracle alone
        if only.is_none() {
            run.require(ok, &why);
        }
    }
    if let Some(o) = &only {
        run.extra("replay_of_history", json!(o));
    }
    if args.tier == kvcore::Tier::Thorough && only.is_none() {
        let ok = run.acc.get("rejected_revoked.rs256-access") + run.acc.get("accepted.rs256-access") > 0;
        run.require(ok, "RS256 client never exercised");
    }
    run.finish();
}
