//! C39 OAuth2 tokens are redeemable only as issued.
//!
//! Random histories of logins, authorisations, (mutated) code exchanges, refreshes, introspections,
//! userinfo calls, session revocations and account validity changes at simulated times that cluster
//! around every expiry edge. The monitor keeps its own books (who got which code / token when, from
//! which client, what was revoked when) and on every SUCCESS re-derives the statement's necessary
//! conditions from those books. Refusals are counted only.

use crate::c38::{uuid_n, Who, World};
use crate::sim::*;
use kanidm_proto::oauth2::{
    AuthorisationRequest, CodeChallengeMethod, GrantTypeReq, PkceRequest, ResponseType,
};
use kanidmd_lib::prelude::*;
use kvcore::{Acc, Args, Rng, Run};
use serde_json::{json, Value as Json};
use std::collections::{BTreeMap, BTreeSet};

const CODE_LIFETIME: u64 = 60;
const DEFAULT_REFRESH_LIFETIME: u64 = 16 * 3600;
const N_PERSONS: usize = 3;

struct LoginRec {
    who: usize,
    token: String,
    session_id: Uuid,
    expiry: u64,
    revoked_at: Option<u64>,
}

struct Grant {
    client: usize,
    who: usize,
    login: usize,
    redirect: String,
    verifier: Option<String>,
    scopes: BTreeSet<String>,
    issued: u64,
    code: String,
    redeemed: u32,
}

struct RTok {
    tok: String,
    issued: u64,
}

struct ATok {
    tok: String,
    exp: u64,
}

struct Sess {
    /// OAuth2 session id as carried by the access token
    sid: Option<Uuid>,
    client: usize,
    who: usize,
    login: usize,
    orig: BTreeSet<String>,
    rts: Vec<RTok>,
    ats: Vec<ATok>,
    /// a revocation request for a live token of this session was accepted and committed
    revoked_at: Option<u64>,
    /// a rotated refresh token was presented in a state where nothing else was wrong, and refused
    reuse_refused_at: Option<u64>,
}

#[derive(Default, Clone)]
struct Acct {
    expire: Option<u64>,
    valid_from: Option<u64>,
}

struct Hist {
    /// "<worker>:<history>" under the run's seed: `only=<id>` as an extra argument re-runs just it
    id: String,
    w: World,
    logins: Vec<LoginRec>,
    grants: Vec<Grant>,
    sess: Vec<Sess>,
    accts: Vec<Acct>,
}

fn set_of(xs: &[&str]) -> BTreeSet<String> {
    xs.iter().map(|s| s.to_string()).collect()
}

const URI_MAIN: &str = "https://app.example.com/oauth2/cb";
const URI_ALT: &str = "https://app.example.com/alt";

async fn build(rng: &mut Rng, start: u64) -> Result<Hist, String> {
    let mut sim = Sim::new_mem(start).await?;
    sim.relax_credential_policy().await?;
    let persons: Vec<(String, Uuid)> = (0..N_PERSONS)
        .map(|i| (format!("person{i}"), uuid_n(1, i as u64)))
        .collect();
    let g0 = uuid_n(2, 0);
    let mut entries = Vec::new();
    for (n, u) in &persons {
        entries.push(Sim::person_entry(n, *u));
    }
    let g0_members: BTreeSet<Uuid> = persons
        .iter()
        .filter(|_| rng.bool())
        .map(|p| p.1)
        .collect();
    entries.push(Sim::group_entry(
        "grp0",
        g0,
        &g0_members.iter().copied().collect::<Vec<_>>(),
    ));
    sim.create(entries).await?;
    for (i, (_, u)) in persons.iter().enumerate() {
        sim.set_password(*u, &password_for(i as u64)).await?;
    }
    let scope_maps = BTreeMap::from([(
        UUID_IDM_ALL_PERSONS,
        set_of(&["openid", "email", "read", "write"]),
    )]);
    let sup = BTreeMap::from([(g0, set_of(&["sup_a"]))]);
    let mk = |i: usize, name: &str, public: bool, disable_pkce: bool, consent: Option<bool>, refresh: Option<u32>, extra: &str| ClientCfg {
        name: name.to_string(),
        uuid: uuid_n(3, i as u64),
        public,
        allow_localhost: false,
        disable_pkce,
        consent_prompt: consent,
        landing: URI_MAIN.to_string(),
        origins: vec![extra.to_string()],
        scope_maps: scope_maps.clone(),
        sup_scope_maps: sup.clone(),
        refresh_expiry: refresh,
        legacy_crypto: false,
        secret: None,
    };
    let mut clients = vec![
        mk(0, "rs_pkce", false, false, None, None, URI_ALT),
        mk(1, "rs_nopkce", false, true, None, None, URI_ALT),
        mk(2, "rs_public", true, false, None, None, "app://cheese"),
        mk(3, "rs_short", false, false, Some(false), Some(1200), URI_ALT),
        mk(4, "rs_other", false, true, Some(false), Some(4000), URI_ALT),
    ];
    for c in clients.iter_mut() {
        sim.create_client(c).await?;
    }
    let w = World {
        id: String::new(),
        sim,
        persons,
        groups: vec![(g0, g0_members, BTreeSet::new())],
        clients,
        logins: BTreeMap::new(),
    };
    w.membership_model_agrees().await?;
    Ok(Hist {
        id: String::new(),
        w,
        logins: Vec::new(),
        grants: Vec::new(),
        sess: Vec::new(),
        accts: vec![Acct::default(); N_PERSONS],
    })
}

fn err_kind<E: std::fmt::Debug>(e: &E) -> String {
    let s = format!("{e:?}");
    s.split(|c: char| !(c.is_alphanumeric() || c == '_'))
        .next()
        .unwrap_or("")
        .to_string()
}

impl Hist {
    fn now(&self) -> u64 {
        self.w.sim.now
    }

    fn refresh_lifetime(&self, client: usize) -> u64 {
        self.w.clients[client]
            .refresh_expiry
            .map(|x| x as u64)
            .unwrap_or(DEFAULT_REFRESH_LIFETIME)
    }

    fn acct_window_ok(&self, who: usize) -> Result<(), (&'static str, String)> {
        let a = &self.accts[who];
        let now = self.now();
        if let Some(e) = a.expire {
            if now > e {
                return Err(("c39/expired-account-accepted", format!("account expired at {e}, now {now}")));
            }
        }
        if let Some(v) = a.valid_from {
            if now < v {
                return Err(("c39/not-yet-valid-account-accepted", format!("account valid from {v}, now {now}")));
            }
        }
        Ok(())
    }

    /// Session / account liveness conditions for a token of session `si` that was just accepted.
    fn liveness(&self, si: usize) -> Vec<(&'static str, String)> {
        let s = &self.sess[si];
        let mut bad = Vec::new();
        if let Some(t) = s.revoked_at {
            bad.push(("c39/revoked-oauth2-session-accepted", format!("oauth2 session revoked at {t}")));
        }
        if let Some(t) = s.reuse_refused_at {
            bad.push(("c39/session-alive-after-refresh-reuse", format!("a rotated refresh token was presented and refused at {t}; the session had to be revoked")));
        }
        if let Some(t) = self.logins[s.login].revoked_at {
            bad.push(("c39/revoked-parent-session-accepted", format!("parent login session revoked at {t}")));
        }
        if let Err(e) = self.acct_window_ok(s.who) {
            bad.push(e);
        }
        bad
    }

    /// everything about session `si` is in order at `now` according to our books
    fn sess_fully_live(&self, si: usize) -> bool {
        self.liveness(si).is_empty()
    }

    fn witness(&self, what: Json) -> Json {
        json!({"what": what, "now": self.now(), "history": self.id, "log_tail": self.w.sim.log_tail(40)})
    }
}

async fn op_login(h: &mut Hist, acc: &mut Acc, rng: &mut Rng) {
    let who = rng.usize(N_PERSONS);
    let name = h.w.persons[who].0.clone();
    match h.w.sim.login(&name, &password_for(who as u64)).await {
        Ok(l) => {
            let p = jws_payload(&l.token).unwrap_or(Json::Null);
            let sid = p
                .get("session_id")
                .and_then(|s| s.as_str())
                .and_then(|s| Uuid::parse_str(s).ok());
            let exp = p.get("expiry").and_then(|e| e.as_u64());
            match (sid, exp) {
                (Some(session_id), Some(expiry)) => {
                    let target = h.w.persons[who].1;
                    let st = h.w.sim.dump_entry(target).await.and_then(|e| crate::c34::session_state(&e, "user_auth_token_session", session_id));
                    if st.as_deref() != Some("ea") && st.as_deref() != Some("nv") {
                        acc.count("login.session_record_not_stored");
                        h.w.sim.record::<(), String>("login_session_record", json!({"session_id": session_id.to_string(), "stored_state": st}), &Ok(()));
                    }
                    h.logins.push(LoginRec {
                        who,
                        token: l.token,
                        session_id,
                        expiry,
                        revoked_at: None,
                    });
                    acc.count("login.ok");
                }
                _ => acc.inconclusive("could not read session id / expiry from a login token"),
            }
        }
        Err(_) => acc.count("login.refused"),
    }
}

async fn op_authorise(h: &mut Hist, acc: &mut Acc, rng: &mut Rng) {
    // a login that is usable per our books
    let now = h.now();
    let cands: Vec<usize> = (0..h.logins.len())
        .filter(|i| h.logins[*i].revoked_at.is_none() && h.logins[*i].expiry > now)
        .collect();
    if cands.is_empty() {
        return op_login(h, acc, rng).await;
    }
    let li = *rng.pick(&cands);
    let who = h.logins[li].who;
    let client = rng.usize(h.w.clients.len());
    let cfg = h.w.clients[client].clone();
    let use_pkce = cfg.requires_pkce() || rng.bool();
    let verifier = if use_pkce { Some(random_verifier(rng)) } else { None };
    let all = ["openid", "email", "read", "write"];
    let mut scopes = BTreeSet::new();
    for s in all {
        if rng.bool() {
            scopes.insert(s.to_string());
        }
    }
    if scopes.is_empty() {
        scopes.insert("read".to_string());
    }
    let redirect = if rng.chance(3, 4) { URI_MAIN } else { cfg.origins[0].as_str() };
    let Ok(redirect_url) = Url::parse(redirect) else { return };
    let req = AuthorisationRequest {
        response_type: ResponseType::Code,
        response_mode: None,
        client_id: cfg.name.clone(),
        state: Some("s".into()),
        pkce_request: verifier.as_ref().map(|v| PkceRequest {
            code_challenge: sha256(v.as_bytes()).to_vec(),
            code_challenge_method: CodeChallengeMethod::S256,
        }),
        redirect_uri: redirect_url.clone(),
        scope: scopes.clone(),
        nonce: Some("n".into()),
        oidc_ext: Default::default(),
        max_age: None,
        prompt: Default::default(),
        ui_locales: Default::default(),
        unknown_keys: Default::default(),
    };
    let tok = h.logins[li].token.clone();
    let r = h.w.sim.authorise_to_code(&tok, &req).await;
    h.w.sim.record("authorise", json!({"client": cfg.name, "who": who, "login": li, "scopes": scopes, "pkce": use_pkce}), &r);
    match r {
        Ok(code) => {
            acc.count("authorise.code");
            let mo = h.w.memberof(h.w.persons[who].1);
            let sup: BTreeSet<String> = cfg
                .sup_scope_maps
                .iter()
                .filter(|(g, _)| mo.contains(g))
                .flat_map(|(_, s)| s.iter().cloned())
                .collect();
            let granted: BTreeSet<String> = scopes.union(&sup).cloned().collect();
            h.grants.push(Grant {
                client,
                who,
                login: li,
                redirect: redirect_url.as_str().to_string(),
                verifier,
                scopes: granted,
                issued: now,
                code,
                redeemed: 0,
            });
        }
        Err(_) => acc.count("authorise.refused"),
    }
}

async fn op_exchange(h: &mut Hist, acc: &mut Acc, rng: &mut Rng, forced: Option<usize>) {
    if h.grants.is_empty() {
        return;
    }
    // prefer recent grants
    let n = h.grants.len();
    let gi = match forced {
        Some(g) => g,
        None => {
            if rng.chance(3, 4) {
                n - 1 - rng.usize(n.min(3))
            } else {
                rng.usize(n)
            }
        }
    };
    let (g_client, g_who, g_login, g_redirect, g_verifier, g_scopes, g_issued, code, redeemed) = {
        let g = &h.grants[gi];
        (g.client, g.who, g.login, g.redirect.clone(), g.verifier.clone(), g.scopes.clone(), g.issued, g.code.clone(), g.redeemed)
    };
    let mut auth_client = g_client;
    let mut secret = h.w.clients[g_client].secret.clone();
    let mut redirect = g_redirect.clone();
    let mut verifier = g_verifier.clone();
    let mut mutation = "none";
    match rng.below(20) {
        0 | 1 => {
            // another client, authenticating correctly as itself
            let others: Vec<usize> = (0..h.w.clients.len()).filter(|c| *c != g_client).collect();
            auth_client = *rng.pick(&others);
            secret = h.w.clients[auth_client].secret.clone();
            mutation = "other_client";
        }
        2 => {
            if secret.is_some() {
                secret = Some("wrongwrongwrongwrongwrongwrongwrongwrongwrongwrong".into());
                mutation = "wrong_secret";
            }
        }
        3 => {
            if secret.is_some() {
                secret = None;
                mutation = "no_secret";
            }
        }
        4 | 5 => {
            let alts = [URI_ALT, "app://cheese", "https://app.example.com/oauth2/cb/", "https://app.example.com/oauth2/cb?x=1", "https://evil.example.net/cb", URI_MAIN];
            let a = rng.pick(&alts).to_string();
            if Url::parse(&a).map(|u| u.as_str() != g_redirect).unwrap_or(false) {
                redirect = a;
                mutation = "other_redirect";
            }
        }
        6 | 7 => {
            if verifier.is_some() {
                verifier = Some(random_verifier(rng));
                mutation = "wrong_verifier";
            }
        }
        8 => {
            if verifier.is_some() {
                verifier = None;
                mutation = "no_verifier";
            } else {
                verifier = Some(random_verifier(rng));
                mutation = "unexpected_verifier";
            }
        }
        9 => {
            if let Some(v) = verifier.as_ref() {
                // the challenge text instead of the verifier (a "plain" style confusion)
                verifier = Some(pkce_challenge(v));
                mutation = "challenge_as_verifier";
            }
        }
        _ => {}
    }
    let Ok(redirect_url) = Url::parse(&redirect) else { return };
    let now = h.now();
    let cname = h.w.clients[auth_client].name.clone();
    let r = h
        .w
        .sim
        .token_endpoint(
            Some(&cname),
            secret.as_deref(),
            GrantTypeReq::AuthorizationCode {
                code,
                redirect_uri: redirect_url.clone(),
                code_verifier: verifier.clone(),
            },
        )
        .await;
    h.w.sim.record(
        "exchange",
        json!({"grant": gi, "issued_for": h.w.clients[g_client].name, "auth_as": cname, "mutation": mutation,
               "age": now.saturating_sub(g_issued), "redirect": redirect, "verifier_given": verifier.is_some()}),
        &r,
    );
    acc.eval();
    acc.count(&format!("exchange.tried.{mutation}"));
    let age = now.saturating_sub(g_issued);
    if age == CODE_LIFETIME - 1 {
        acc.count("edge.exchange_at_last_valid_second");
    }
    if age == CODE_LIFETIME {
        acc.count("edge.exchange_at_expiry_second");
    }
    match r {
        Err(e) => {
            acc.count(&format!("exchange.refused.{mutation}"));
            acc.count(&format!("exchange.err.{}", err_kind(&e)));
            if mutation == "none" && age < CODE_LIFETIME {
                acc.count("exchange.refused_unmutated_in_time");
            }
        }
        Ok(resp) => {
            acc.count("exchange.ok");
            acc.nontrivial(&format!("x|{}|{}|{mutation}|{age}|{}|{}", g_client, auth_client, redeemed, g_scopes.len()));
            let mut bad: Vec<(&str, String)> = Vec::new();
            if auth_client != g_client {
                bad.push(("c39/code-redeemed-at-other-client", format!("issued for {} redeemed by {}", h.w.clients[g_client].name, cname)));
            }
            let cfg = &h.w.clients[g_client];
            if auth_client == g_client && !cfg.public && secret != cfg.secret {
                bad.push(("c39/code-redeemed-without-client-authentication", format!("secret presented: {:?}", secret.is_some())));
            }
            if age >= CODE_LIFETIME {
                bad.push(("c39/code-redeemed-after-expiry", format!("code issued {g_issued}, redeemed {now}")));
            }
            if redirect_url.as_str() != g_redirect {
                bad.push(("c39/code-redeemed-with-other-redirect", format!("issued for {g_redirect}, redeemed with {}", redirect_url.as_str())));
            }
            match (&g_verifier, &verifier) {
                (Some(orig), Some(v)) => {
                    if pkce_challenge(v) != pkce_challenge(orig) {
                        bad.push(("c39/code-redeemed-with-wrong-verifier", "verifier does not hash to the recorded challenge".into()));
                    }
                }
                (Some(_), None) => bad.push(("c39/code-redeemed-without-verifier", "a challenge was recorded, no verifier given".into())),
                _ => {}
            }
            if resp.scope != g_scopes {
                // the code must carry exactly what was granted (C38 checks the grant itself)
                let sig = if resp.scope.is_subset(&g_scopes) { "c39/exchange-scope-narrower-than-grant" } else { "c39/exchange-scope-beyond-grant" };
                if sig == "c39/exchange-scope-beyond-grant" {
                    bad.push((sig, format!("granted {g_scopes:?} got {:?}", resp.scope)));
                } else {
                    acc.count("unjudged.exchange_scope_narrower");
                }
            }
            // not judged (the statement does not say it): second redemption, redemption after the
            // login session behind the code was revoked or the account left its validity window
            if redeemed > 0 {
                acc.count("unjudged.code_redeemed_again");
            }
            if h.logins[g_login].revoked_at.is_some() {
                acc.count("unjudged.code_redeemed_after_login_revoked");
            }
            if h.acct_window_ok(g_who).is_err() {
                acc.count("unjudged.code_redeemed_outside_account_window");
            }
            for (sig, why) in bad {
                let wit = h.witness(json!({"op": "exchange", "why": why, "mutation": mutation, "grant_age": age}));
                acc.violation(sig, wit);
            }
            h.grants[gi].redeemed += 1;
            let at = resp.access_token.clone();
            let p = jws_payload(&at).unwrap_or(Json::Null);
            let exp = p.get("exp").and_then(|e| e.as_u64()).unwrap_or(now + 900);
            let mut s = Sess {
                sid: p.get("session_id").and_then(|x| x.as_str()).and_then(|x| Uuid::parse_str(x).ok()),
                client: g_client,
                who: g_who,
                login: g_login,
                orig: g_scopes.clone(),
                rts: Vec::new(),
                ats: vec![ATok { tok: at, exp }],
                revoked_at: None,
                reuse_refused_at: None,
            };
            if let Some(rt) = resp.refresh_token {
                s.rts.push(RTok { tok: rt, issued: now });
            }
            h.sess.push(s);
            if acc.samples.len() < 2 {
                acc.sample(json!({"op": "exchange", "client": h.w.clients[g_client].name, "age_s": age, "scopes": g_scopes, "pkce": g_verifier.is_some()}));
            }
        }
    }
}

fn pick_session(h: &Hist, rng: &mut Rng) -> Option<usize> {
    if h.sess.is_empty() {
        return None;
    }
    let n = h.sess.len();
    if rng.chance(3, 4) {
        // prefer sessions that are alive per our books and still hold an unexpired token
        let now = h.now();
        let live: Vec<usize> = (0..n)
            .filter(|i| {
                h.sess_fully_live(*i)
                    && (h.sess[*i].ats.last().map(|a| a.exp > now).unwrap_or(false)
                        || h.sess[*i]
                            .rts
                            .last()
                            .map(|r| r.issued + h.refresh_lifetime(h.sess[*i].client) > now)
                            .unwrap_or(false))
            })
            .collect();
        if !live.is_empty() {
            return Some(*rng.pick(&live));
        }
    }
    Some(if rng.chance(2, 3) { n - 1 - rng.usize(n.min(4)) } else { rng.usize(n) })
}

async fn op_refresh(h: &mut Hist, acc: &mut Acc, rng: &mut Rng) {
    let Some(si) = pick_session(h, rng) else { return };
    if h.sess[si].rts.is_empty() {
        return;
    }
    let n_rt = h.sess[si].rts.len();
    let newest = n_rt - 1;
    let ti = if n_rt > 1 && rng.chance(1, 3) { rng.usize(newest) } else { newest };
    let rotated = ti != newest;
    let (s_client, s_who) = (h.sess[si].client, h.sess[si].who);
    let mut auth_client = s_client;
    let mut mutation = if rotated { "rotated_token" } else { "none" };
    if rng.chance(1, 10) {
        let others: Vec<usize> = (0..h.w.clients.len()).filter(|c| *c != s_client).collect();
        auth_client = *rng.pick(&others);
        mutation = "other_client";
    }
    let orig = h.sess[si].orig.clone();
    let scope_req: Option<BTreeSet<String>> = match rng.below(8) {
        0 | 1 => {
            // a subset
            let v: Vec<&String> = orig.iter().collect();
            let mut s = BTreeSet::new();
            for x in v {
                if rng.bool() {
                    s.insert(x.clone());
                }
            }
            if s.is_empty() { None } else { Some(s) }
        }
        2 => {
            let mut s = orig.clone();
            s.insert(rng.pick(&["write", "email", "admin", "sup_a", "openid", "read"]).to_string());
            Some(s)
        }
        3 => Some(set_of(&[*rng.pick(&["admin", "write", "email", "sup_a"])])),
        _ => None,
    };
    let escalates = scope_req.as_ref().map(|s| !s.is_subset(&orig)).unwrap_or(false);
    let now = h.now();
    let tok = h.sess[si].rts[ti].tok.clone();
    let tok_issued = h.sess[si].rts[ti].issued;
    let newest_issued = h.sess[si].rts[newest].issued;
    let lifetime = h.refresh_lifetime(s_client);
    let tok_expired = now >= tok_issued + lifetime;
    let fully_live_before = h.sess_fully_live(si);
    let cname = h.w.clients[auth_client].name.clone();
    let secret = h.w.clients[auth_client].secret.clone();
    let r = h
        .w
        .sim
        .token_endpoint(
            Some(&cname),
            secret.as_deref(),
            GrantTypeReq::RefreshToken {
                refresh_token: tok,
                scope: scope_req.clone(),
            },
        )
        .await;
    h.w.sim.record(
        "refresh",
        json!({"session": si, "token_generation": ti, "newest_generation": newest, "auth_as": cname, "issued_for": h.w.clients[s_client].name,
               "scope_req": scope_req, "token_age": now.saturating_sub(tok_issued), "lifetime": lifetime}),
        &r,
    );
    acc.eval();
    acc.count(&format!("refresh.tried.{mutation}"));
    if escalates {
        acc.count("refresh.tried.scope_escalation");
    }
    if now + 1 == tok_issued + lifetime {
        acc.count("edge.refresh_at_last_valid_second");
    }
    if now == tok_issued + lifetime {
        acc.count("edge.refresh_at_expiry_second");
    }
    match r {
        Err(e) => {
            acc.count(&format!("refresh.refused.{mutation}"));
            acc.count(&format!("refresh.err.{}", err_kind(&e)));
            if escalates && mutation == "none" {
                acc.count("refresh.refused.scope_escalation");
            }
            if !fully_live_before {
                acc.count("refresh.refused.session_or_account_dead");
            }
            if rotated && auth_client == s_client && !tok_expired && fully_live_before {
                // nothing but the reuse was wrong: the statement demands the session be revoked
                if newest_issued > tok_issued {
                    h.sess[si].reuse_refused_at = Some(now);
                    acc.count("refresh.reuse_refused_judgeable");
                } else {
                    acc.count("unjudged.reuse_refused_same_second_rotation");
                }
            }
        }
        Ok(resp) => {
            acc.count("refresh.ok");
            acc.nontrivial(&format!("r|{s_client}|{auth_client}|{ti}/{newest}|{:?}|{}", scope_req, now.saturating_sub(tok_issued)));
            let mut bad: Vec<(&str, String)> = Vec::new();
            if auth_client != s_client {
                bad.push(("c39/refresh-token-redeemed-at-other-client", format!("issued for {} redeemed by {}", h.w.clients[s_client].name, cname)));
            }
            if tok_expired {
                bad.push(("c39/expired-refresh-token-accepted", format!("issued {tok_issued} lifetime {lifetime} now {now}")));
            }
            if !resp.scope.is_subset(&orig) {
                bad.push(("c39/refresh-scope-beyond-original-grant", format!("original {orig:?} got {:?}", resp.scope)));
            }
            if rotated {
                if newest_issued > tok_issued {
                    bad.push(("c39/rotated-refresh-token-accepted", format!("generation {ti} of {newest} accepted")));
                } else {
                    bad.push(("c39/rotated-refresh-token-accepted/rotation-within-issue-second", format!("generation {ti} of {newest} accepted; every later generation was issued in the same second {tok_issued} as the reused token")));
                }
            }
            for b in h.liveness(si) {
                bad.push(b);
            }
            if h.logins[h.sess[si].login].expiry <= now && h.logins[h.sess[si].login].revoked_at.is_none() {
                acc.count("unjudged.refresh_ok_with_expired_parent_login");
            }
            for (sig, why) in bad {
                let wit = h.witness(json!({"op": "refresh", "why": why, "session": si}));
                acc.violation(sig, wit);
            }
            let p = jws_payload(&resp.access_token).unwrap_or(Json::Null);
            let exp = p.get("exp").and_then(|e| e.as_u64()).unwrap_or(now + 900);
            h.sess[si].ats.push(ATok { tok: resp.access_token.clone(), exp });
            if let Some(rt) = resp.refresh_token {
                h.sess[si].rts.push(RTok { tok: rt, issued: now });
            }
            let _ = s_who;
        }
    }
}

async fn op_introspect(h: &mut Hist, acc: &mut Acc, rng: &mut Rng) {
    let Some(si) = pick_session(h, rng) else { return };
    if h.sess[si].ats.is_empty() {
        return;
    }
    let n = h.sess[si].ats.len();
    let ai = if rng.chance(2, 3) { n - 1 } else { rng.usize(n) };
    let tok = h.sess[si].ats[ai].tok.clone();
    let exp = h.sess[si].ats[ai].exp;
    let now = h.now();
    let userinfo = rng.chance(2, 5);
    acc.eval();
    if now + 1 == exp {
        acc.count("edge.access_at_last_valid_second");
    }
    if now == exp {
        acc.count("edge.access_at_expiry_second");
    }
    let s_client = h.sess[si].client;
    let orig = h.sess[si].orig.clone();
    let mut bad: Vec<(&str, String)> = Vec::new();
    let accepted;
    let mut presented_elsewhere = false;
    if userinfo {
        let mut at_client = s_client;
        if rng.chance(1, 6) {
            let others: Vec<usize> = (0..h.w.clients.len()).filter(|c| *c != s_client).collect();
            at_client = *rng.pick(&others);
        }
        let cname = h.w.clients[at_client].name.clone();
        let r = h.w.sim.userinfo(&cname, &tok).await;
        h.w.sim.record("userinfo", json!({"session": si, "access_token": ai, "at_client": cname, "issued_for": h.w.clients[s_client].name, "exp_in": exp as i64 - now as i64}), &r);
        match r {
            Ok(_) => {
                acc.count("userinfo.ok");
                accepted = true;
                if at_client != s_client {
                    bad.push(("c39/userinfo-at-other-client", format!("token of {} accepted at {}", h.w.clients[s_client].name, cname)));
                }
            }
            Err(e) => {
                accepted = false;
                acc.count(&format!("userinfo.err.{}", err_kind(&e)));
                if at_client != s_client {
                    acc.count("userinfo.refused.other_client");
                    presented_elsewhere = true;
                }
            }
        }
    } else {
        let r = h.w.sim.introspect(&tok).await;
        h.w.sim.record("introspect", json!({"session": si, "access_token": ai, "exp_in": exp as i64 - now as i64}), &r);
        match r {
            Ok(resp) if resp.active => {
                acc.count("introspect.active");
                accepted = true;
                if !resp.scope.is_subset(&orig) {
                    bad.push(("c39/introspect-scope-beyond-original-grant", format!("original {orig:?} reported {:?}", resp.scope)));
                }
            }
            Ok(_) => {
                accepted = false;
                acc.count("introspect.inactive");
            }
            Err(e) => {
                accepted = false;
                acc.count(&format!("introspect.err.{}", err_kind(&e)));
            }
        }
    }
    if accepted {
        acc.nontrivial(&format!("i|{userinfo}|{s_client}|{}|{}", exp as i64 - now as i64, ai));
        if now >= exp {
            bad.push(("c39/expired-access-token-accepted", format!("exp {exp} now {now}")));
        }
        for b in h.liveness(si) {
            bad.push(b);
        }
        if h.logins[h.sess[si].login].expiry <= now && h.logins[h.sess[si].login].revoked_at.is_none() {
            acc.count("unjudged.token_active_with_expired_parent_login");
        }
        for (sig, why) in bad {
            let mut wit = h.witness(json!({"op": if userinfo {"userinfo"} else {"introspect"}, "why": why, "session": si}));
            let person = h.w.persons[h.sess[si].who].1;
            if let Some(pe) = h.w.sim.dump_entry(person).await {
                if let Some(a) = kvcore::srv::dump_attrs(&pe) {
                    wit["stored_sessions"] = json!({"user_auth_token_session": a.get("user_auth_token_session"), "oauth2_session": a.get("oauth2_session"),
                        "parent_login_session_id": h.logins[h.sess[si].login].session_id.to_string()});
                }
            }
            acc.violation(sig, wit);
        }
    } else if !h.sess_fully_live(si) {
        acc.count("presentation.refused.session_or_account_dead");
        if h.sess[si].revoked_at.is_some() {
            acc.count("presentation.refused.after_oauth2_revoke");
        }
        if h.logins[h.sess[si].login].revoked_at.is_some() {
            acc.count("presentation.refused.after_login_revoke");
        }
        if h.acct_window_ok(h.sess[si].who).is_err() {
            acc.count("presentation.refused.outside_account_window");
        }
        if h.sess[si].reuse_refused_at.is_some() {
            acc.count("presentation.refused.after_refresh_reuse");
        }
    } else if now < exp && !presented_elsewhere {
        acc.count("presentation.refused_while_live_per_books");
        if h.logins[h.sess[si].login].expiry <= now {
            acc.count("presentation.refused_while_live_per_books.parent_login_expired");
        }
        if std::env::var("C39_DEBUG").is_ok() {
            eprintln!("REFUSED-WHILE-LIVE session {si} login {} {}", h.sess[si].login, serde_json::to_string(&h.w.sim.log_tail(60)).unwrap_or_default());
        }
    }
}

async fn op_revoke_login(h: &mut Hist, acc: &mut Acc, rng: &mut Rng) {
    let cands: Vec<usize> = (0..h.logins.len()).filter(|i| h.logins[*i].revoked_at.is_none()).collect();
    if cands.is_empty() {
        return;
    }
    let li = *rng.pick(&cands);
    let (who, sid, tok) = (h.logins[li].who, h.logins[li].session_id, h.logins[li].token.clone());
    let target = h.w.persons[who].1;
    let r = h.w.sim.destroy_login_session(target, sid, Some(&tok)).await;
    h.w.sim.record("revoke_login", json!({"login": li, "who": who, "session_id": sid.to_string(), "how": r.as_ref().ok()}), &r);
    match r {
        Ok(how) => {
            // the books only record what the directory confirms: the session record is now revoked
            let st = h.w.sim.dump_entry(target).await.and_then(|e| crate::c34::session_state(&e, "user_auth_token_session", sid));
            if st.as_deref() == Some("ra") {
                h.logins[li].revoked_at = Some(h.now());
                acc.count(&format!("revoke_login.ok.{how}"));
            } else {
                acc.count("revoke_login.no_stored_effect");
            }
        }
        Err(_) => acc.count("revoke_login.err"),
    }
}

async fn op_revoke_oauth2(h: &mut Hist, acc: &mut Acc, rng: &mut Rng) {
    let Some(si) = pick_session(h, rng) else { return };
    let now = h.now();
    let use_refresh = rng.bool() && !h.sess[si].rts.is_empty();
    let (tok, live_token) = if use_refresh {
        let t = h.sess[si].rts.last().map(|t| (t.tok.clone(), t.issued));
        let Some((tok, issued)) = t else { return };
        (tok, now < issued + h.refresh_lifetime(h.sess[si].client))
    } else {
        let Some(a) = h.sess[si].ats.last() else { return };
        (a.tok.clone(), now < a.exp)
    };
    let r = h.w.sim.revoke_token(&tok).await;
    h.w.sim.record("revoke_oauth2", json!({"session": si, "with_refresh_token": use_refresh, "token_live": live_token}), &r);
    match r {
        Ok(()) => {
            if live_token {
                let target = h.w.persons[h.sess[si].who].1;
                let st = match h.sess[si].sid {
                    Some(sid) => h.w.sim.dump_entry(target).await.and_then(|e| crate::c34::session_state(&e, "oauth2_session", sid)),
                    None => None,
                };
                if st.as_deref() == Some("ra") {
                    if h.sess[si].revoked_at.is_none() {
                        h.sess[si].revoked_at = Some(now);
                    }
                    acc.count("revoke_oauth2.ok");
                } else {
                    acc.count("revoke_oauth2.no_stored_effect");
                }
            } else {
                acc.count("revoke_oauth2.ok_expired_token_noop");
            }
        }
        Err(_) => acc.count("revoke_oauth2.err"),
    }
}

async fn op_account_window(h: &mut Hist, acc: &mut Acc, rng: &mut Rng) {
    let who = rng.usize(N_PERSONS);
    let target = h.w.persons[who].1;
    let now = h.now();
    let (ml, expire, valid_from, what): (ModifyList<ModifyInvalid>, Option<Option<u64>>, Option<Option<u64>>, &str) = match rng.below(8) {
        0 => {
            let t = now.saturating_sub(rng.range(1, 50));
            (ModifyList::new_purge_and_set(Attribute::AccountExpire, Value::new_datetime_epoch(Duration::from_secs(t))), Some(Some(t)), None, "expire_past")
        }
        1 | 2 => {
            let t = now + rng.range(1, 120);
            (ModifyList::new_purge_and_set(Attribute::AccountExpire, Value::new_datetime_epoch(Duration::from_secs(t))), Some(Some(t)), None, "expire_soon")
        }
        3 => {
            let t = now + rng.range(1, 90);
            (ModifyList::new_purge_and_set(Attribute::AccountValidFrom, Value::new_datetime_epoch(Duration::from_secs(t))), None, Some(Some(t)), "valid_from_future")
        }
        _ => (
            ModifyList::new_list(vec![Modify::Purged(Attribute::AccountExpire), Modify::Purged(Attribute::AccountValidFrom)]),
            Some(None),
            Some(None),
            "window_cleared",
        ),
    };
    let r = h.w.sim.modify_uuid(target, &ml).await;
    h.w.sim.record("account_window", json!({"who": who, "what": what, "expire": expire, "valid_from": valid_from}), &r);
    if r.is_ok() {
        if let Some(e) = expire {
            h.accts[who].expire = e;
        }
        if let Some(v) = valid_from {
            h.accts[who].valid_from = v;
        }
        acc.count(&format!("account_window.{what}"));
    } else {
        acc.count("account_window.err");
    }
}

fn op_advance(h: &mut Hist, acc: &mut Acc, rng: &mut Rng) {
    let now = h.now();
    let mut edges: Vec<u64> = Vec::new();
    for g in h.grants.iter().rev().take(4) {
        if g.redeemed == 0 || rng.chance(1, 4) {
            edges.push(g.issued + CODE_LIFETIME);
        }
    }
    for s in h.sess.iter().rev().take(6) {
        if let Some(a) = s.ats.last() {
            edges.push(a.exp);
        }
        if let Some(r) = s.rts.last() {
            edges.push(r.issued + h.refresh_lifetime(s.client));
            edges.push(r.issued + 300);
        }
    }
    for a in &h.accts {
        if let Some(e) = a.expire {
            edges.push(e);
        }
        if let Some(v) = a.valid_from {
            edges.push(v);
        }
    }
    for l in h.logins.iter().rev().take(3) {
        edges.push(l.expiry);
    }
    let step = match rng.weighted(&[40, 33, 13, 9, 4, 1]) {
        0 => 0,
        1 => rng.range(1, 5),
        2 => {
            // jump to just before / at / just after a pending edge
            let horizon = if rng.chance(1, 12) { 70_000 } else { 1_300 };
            let future: Vec<u64> = edges.iter().copied().filter(|e| *e + 1 >= now && *e <= now + horizon).collect();
            if future.is_empty() {
                rng.range(1, 30)
            } else {
                let e = *rng.pick(&future);
                let target = (e + rng.below(3)).saturating_sub(1);
                acc.count("advance.to_edge");
                target.saturating_sub(now)
            }
        }
        3 => rng.range(10, 120),
        4 => rng.range(120, 2_000),
        _ => rng.range(2_000, 60_000),
    };
    h.w.sim.advance(step);
}

async fn history(acc: &mut Acc, rng: &mut Rng, ops: u64, id: String) {
    let start = kvcore::srv::T0.as_secs() + rng.below(10_000_000);
    let mut h = match build(rng, start).await {
        Ok(h) => h,
        Err(e) => {
            acc.inconclusive(&format!("C39 world setup failed: {e}"));
            return;
        }
    };
    h.id = id;
    h.w.sim.advance(1);
    for _ in 0..2 {
        op_login(&mut h, acc, rng).await;
    }
    for _ in 0..ops {
        op_advance(&mut h, acc, rng);
        match rng.weighted(&[2, 14, 4, 24, 32, 2, 3, 3]) {
            0 => op_login(&mut h, acc, rng).await,
            1 => {
                let before = h.grants.len();
                op_authorise(&mut h, acc, rng).await;
                if h.grants.len() > before {
                    // the client redeems (or somebody tries to) right away, a few times
                    let gi = h.grants.len() - 1;
                    for _ in 0..rng.range(1, 3) {
                        if rng.chance(1, 4) {
                            let edge = h.grants[gi].issued + CODE_LIFETIME;
                            let target = (edge + rng.below(3)).saturating_sub(1);
                            let now = h.now();
                            h.w.sim.advance(target.saturating_sub(now));
                        } else {
                            h.w.sim.advance(rng.below(4));
                        }
                        op_exchange(&mut h, acc, rng, Some(gi)).await;
                    }
                }
            }
            2 => op_exchange(&mut h, acc, rng, None).await,
            3 => op_refresh(&mut h, acc, rng).await,
            4 => op_introspect(&mut h, acc, rng).await,
            5 => op_revoke_login(&mut h, acc, rng).await,
            6 => op_revoke_oauth2(&mut h, acc, rng).await,
            _ => op_account_window(&mut h, acc, rng).await,
        }
    }
    acc.count("histories");
    acc.count_n("sessions_created", h.sess.len() as u64);
    let _ = Who::Nobody;
}

pub fn run(mut args: Args) {
    let only = replay_target(&mut args);
    let mut run = Run::new(
        args.clone(),
        "exploration",
        "random histories over 5 OAuth2 clients (basic with/without PKCE, public, short refresh lifetime, no consent prompt; all sharing one redirect URI) and 3 persons: logins, authorisations, code exchanges mutated in client / secret / redirect URI / verifier / time, refreshes with rotated tokens, other clients and narrowed / widened scopes, introspection and userinfo of every access token, login-session and OAuth2-session revocation, account expiry / valid-from edits; simulated time moves by 0 s, a few seconds, or to one second before / at / after a pending expiry edge; non-trivial = a successful exchange, refresh, active introspection or userinfo; distinct by operation, clients involved, token generation, scopes and age",
    );
    run.assume("code lifetime is 60 s and the default refresh token lifetime 16 h (constants of the implementation restated in the harness); access token expiry is read from the token's own exp claim");
    run.assume("the harness drives the token endpoint like the server's request handler: commit on success and on invalid_grant, roll back otherwise");
    if !sha256_selftest() {
        run.acc.inconclusive("harness sha256 self-test failed");
        run.finish();
    }
    let histories: u64 = args.tier.pick(6, 40);
    let ops: u64 = args.tier.pick(500, 700);
    let seed = args.seed;
    run.parallel(args.workers, |w, _n| {
        let mut acc = Acc::new();
        let rt = kvcore::srv::rt();
        for hno in 0..histories {
            let id = format!("{w}:{hno}");
            if only.as_ref().map(|o| *o != id).unwrap_or(false) {
                continue;
            }
            let mut rng = Rng::new(kvcore::rng::mix(seed, w as u64, 3900 + hno));
            let res = run_case(|| rt.block_on(history(&mut acc, &mut rng, ops, id)));
            if let Err(p) = res {
                acc.count("panic_in_case");
                acc.inconclusive(&format!("panic during a C39 history: {p}"));
            }
        }
        acc
    });
    let a = &run.acc;
    let q = |quick: u64, thorough: u64| args.tier.pick(quick, thorough);
    let checks: Vec<(bool, String)> = vec![
        (a.get("exchange.ok") >= q(300, 3000), format!("too few successful code exchanges ({})", a.get("exchange.ok"))),
        (a.get("refresh.ok") >= q(300, 3000), format!("too few successful refreshes ({})", a.get("refresh.ok"))),
        (a.get("introspect.active") >= q(200, 2000), "too few active introspections".into()),
        (a.get("userinfo.ok") >= q(100, 1000), "too few successful userinfo calls".into()),
        (a.get("exchange.refused.other_client") > 0, "exchange at another client never refused".into()),
        (a.get("exchange.refused.wrong_secret") + a.get("exchange.refused.no_secret") > 0, "exchange with bad client secret never refused".into()),
        (a.get("exchange.refused.other_redirect") > 0, "exchange with another redirect URI never refused".into()),
        (a.get("exchange.refused.wrong_verifier") > 0, "exchange with a wrong verifier never refused".into()),
        (a.get("exchange.refused.no_verifier") > 0, "exchange without verifier never refused".into()),
        (a.get("edge.exchange_at_last_valid_second") > 0 && a.get("edge.exchange_at_expiry_second") > 0, "code expiry edge not exercised on both sides".into()),
        (a.get("edge.access_at_last_valid_second") > 0 && a.get("edge.access_at_expiry_second") > 0, "access token expiry edge not exercised on both sides".into()),
        (a.get("refresh.refused.rotated_token") > 0, "rotated refresh token never refused".into()),
        (a.get("refresh.reuse_refused_judgeable") > 0, "no judgeable refresh token reuse happened".into()),
        (a.get("presentation.refused.after_refresh_reuse") > 0, "no token was presented after a refresh token reuse".into()),
        (a.get("refresh.refused.scope_escalation") > 0, "scope escalation on refresh never refused".into()),
        (a.get("refresh.refused.other_client") > 0, "refresh at another client never refused".into()),
        (a.get("revoke_login.ok.self") + a.get("revoke_login.ok.internal") > 0, "no login session was revoked".into()),
        (a.get("revoke_oauth2.ok") > 0, "no OAuth2 session was revoked".into()),
        (a.get("presentation.refused.after_oauth2_revoke") > 0, "no token presented after OAuth2 session revocation".into()),
        (a.get("presentation.refused.after_login_revoke") > 0, "no token presented after login session revocation".into()),
        (a.get("presentation.refused.outside_account_window") > 0, "no token presented outside the account validity window".into()),
        (a.get("userinfo.refused.other_client") > 0, "userinfo at another client never refused".into()),
    ];
    for (ok, why) in checks {
        // a replay of one history is judged by its oracle alone
        if only.is_none() {
            run.require(ok, &why);
        }
    }
    if let Some(o) = &only {
        run.extra("replay_of_history", json!(o));
    }
    run.finish();
}
