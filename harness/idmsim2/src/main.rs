//! idmsim2 engine: OAuth2 authorisation / redemption and key-object monitors.
//! See /verif/DESIGN.md section 2 and /verif/harness/AGENT_GUIDE.md.
#[macro_use]
extern crate kanidmd_lib;

mod c34;
mod c38;
mod c39;
mod sim;

fn main() {
    let args = kvcore::parse_args();
    match args.prop.as_str() {
        "C34" => c34::run(args),
        "C38" => c38::run(args),
        "C39" => c39::run(args),
        p => {
            println!("INCONCLUSIVE property={p} reason=idmsim2 does not serve this property");
            std::process::exit(2);
        }
    }
}
