//! faultsim engine: storage fault injection (C04), crash injection (C05), forced interleavings of
//! readers and a committing writer (C06). See /verif/DESIGN.md section 2 and 5.
#[macro_use]
extern crate kanidmd_lib;

mod c04;
mod c05;
mod c06;
mod fx;

fn main() {
    let args = kvcore::parse_args();
    match args.prop.as_str() {
        "C04" => c04::run(args),
        "C05" => c05::run(args),
        "C06" => c06::run(args),
        "C05CHILD" => c05::child(args),
        p => {
            println!("INCONCLUSIVE property={p} reason=faultsim does not serve this property");
            std::process::exit(2);
        }
    }
}
