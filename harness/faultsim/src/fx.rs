//! Shared helpers of the faultsim engine: server bundles (query server + IDM layer) on a database
//! file, the fixed fixture population, and the observation vector taken by fresh read
//! transactions.
//!
//! (These helpers would belong in kvcore; they live here because engines may only touch their own
//! crate.)

use kanidmd_lib::entry::{Entry, EntryInit, EntryNew};
use kanidmd_lib::idm::server::{IdmServer, IdmServerAudit, IdmServerDelayed};
use kanidmd_lib::prelude::*;
use kanidmd_lib::schema::SchemaTransaction;
use kanidmd_lib::value::Value;
use serde_json::{json, Value as Json};
use std::collections::{BTreeMap, BTreeSet};
use std::path::{Path, PathBuf};

pub use kvcore::srv::T0;

pub const ORIGIN: &str = "https://idm.example.com";

/// Harness-chosen, fixed uuids (outside every reserved range).
pub const fn fu(n: u32) -> Uuid {
    Uuid::from_u128(0x7a51_0000_0000_4000_8000_0000_0000_0000u128 + n as u128)
}

pub const U_PROBE: Uuid = fu(1); // the probe identity (a person)
pub const U_GACP: Uuid = fu(2); // receiver group of the probe ACP
pub const U_TARGET: Uuid = fu(3); // the probe entry (a person with many attributes)
pub const U_ACP: Uuid = fu(4); // the probe access control profile
pub const U_VATTR: Uuid = fu(5); // a harness-made schema attribute
pub const U_OC_BASE: Uuid = fu(6); // an OAuth2 client that exists in the baseline
pub const U_OC_GROUP: Uuid = fu(7); // scope-map group of the OAuth2 clients
pub const U_MARK: Uuid = fu(8); // entry touched by the "next transaction" probe
pub const U_CRED: Uuid = fu(9); // person whose credential is updated
pub const U_GV: Uuid = fu(10); // version group (C06)
pub const U_REN: Uuid = fu(11); // renamed entry (C06)
pub const U_NEW_PERSON: Uuid = fu(20);
pub const U_NEW_ATTR: Uuid = fu(21);
pub const U_NEW_OC: Uuid = fu(22);
pub const U_MOD: Uuid = fu(23); // entry modified / deleted by the C04 / C05 transactions
pub const U_DEL: Uuid = fu(24);
pub const U_MULTI_A: Uuid = fu(25);
pub const U_MULTI_B: Uuid = fu(26);
pub fn u_e(i: u32) -> Uuid {
    fu(100 + i)
}
pub fn u_s(i: u32) -> Uuid {
    fu(200 + i)
}

pub const VATTR: &str = "fsvattr";
pub const NEW_ATTR: &str = "fsnewattr";
pub const OC_BASE: &str = "fs_oc_base";
pub const OC_NEW: &str = "fs_oc_new";

/// A running server: the query server and the IDM layer above it.
pub struct Srv {
    pub qs: QueryServer,
    pub idms: IdmServer,
    _delayed: IdmServerDelayed,
    _audit: IdmServerAudit,
}

/// Open (or create) a server on `path` the way a normal start does: backend, schema,
/// `initialise_helper` at `ct`, then the IDM layer.
pub async fn open(
    path: &Path,
    pool: u32,
    arcsize: Option<usize>,
    ct: Duration,
) -> Result<Srv, String> {
    open_level(path, pool, arcsize, ct, DOMAIN_TGT_LEVEL).await
}

/// As `open`, with the domain functional level the start-up targets. Starting a database of
/// level 15 with target 16 would migrate it; a server meant to stay at 15 is started with 15.
pub async fn open_level(
    path: &Path,
    pool: u32,
    arcsize: Option<usize>,
    ct: Duration,
    level: u32,
) -> Result<Srv, String> {
    let qs = kvcore::srv::mk_server_at(Some(path), pool, arcsize, ct, level)
        .await
        .map_err(|e| format!("server start failed: {e:?}"))?;
    let url = Url::parse(ORIGIN).map_err(|e| format!("{e:?}"))?;
    let (idms, d, a) = IdmServer::new(qs.clone(), &url, true, ct)
        .await
        .map_err(|e| format!("idm start failed: {e:?}"))?;
    Ok(Srv {
        qs,
        idms,
        _delayed: d,
        _audit: a,
    })
}

pub fn db_files(path: &Path) -> Vec<PathBuf> {
    let s = path.to_string_lossy().to_string();
    vec![
        PathBuf::from(&s),
        PathBuf::from(format!("{s}-wal")),
        PathBuf::from(format!("{s}-shm")),
    ]
}

/// Copy a database (main file, -wal, -shm). Only valid when no handle is open on `from`.
pub fn copy_db(from: &Path, to: &Path) -> std::io::Result<()> {
    for (a, b) in db_files(from).into_iter().zip(db_files(to)) {
        let _ = std::fs::remove_file(&b);
        if a.exists() {
            std::fs::copy(&a, &b)?;
        }
    }
    Ok(())
}

pub fn person(uuid: Uuid, name: &str, desc: &str) -> Entry<EntryInit, EntryNew> {
    entry_init!(
        (Attribute::Class, EntryClass::Object.to_value()),
        (Attribute::Class, EntryClass::Account.to_value()),
        (Attribute::Class, EntryClass::Person.to_value()),
        (Attribute::Name, Value::new_iname(name)),
        (Attribute::Uuid, Value::Uuid(uuid)),
        (Attribute::Description, Value::new_utf8s(desc)),
        (Attribute::DisplayName, Value::new_utf8s(desc))
    )
}

pub fn group(uuid: Uuid, name: &str, members: &[Uuid]) -> Entry<EntryInit, EntryNew> {
    let mut e: Entry<EntryInit, EntryNew> = entry_init!(
        (Attribute::Class, EntryClass::Object.to_value()),
        (Attribute::Class, EntryClass::Group.to_value()),
        (Attribute::Name, Value::new_iname(name)),
        (Attribute::Uuid, Value::Uuid(uuid)),
        (Attribute::Description, Value::new_utf8s(name))
    );
    for m in members {
        e.add_ava(Attribute::Member, Value::Refer(*m));
    }
    e
}

pub fn attrtype(uuid: Uuid, name: &str, desc: &str) -> Entry<EntryInit, EntryNew> {
    entry_init!(
        (Attribute::Class, EntryClass::Object.to_value()),
        (Attribute::Class, EntryClass::AttributeType.to_value()),
        (Attribute::Uuid, Value::Uuid(uuid)),
        (Attribute::AttributeName, Value::new_iutf8(name)),
        (Attribute::Description, Value::new_utf8s(desc)),
        (Attribute::MultiValue, Value::new_bool(false)),
        (Attribute::Unique, Value::new_bool(false)),
        (
            Attribute::Syntax,
            Value::new_syntaxs("UTF8STRING").expect("syntax")
        )
    )
}

pub fn oauth2_client(uuid: Uuid, name: &str, display: &str) -> Entry<EntryInit, EntryNew> {
    entry_init!(
        (Attribute::Class, EntryClass::Object.to_value()),
        (Attribute::Class, EntryClass::Account.to_value()),
        (
            Attribute::Class,
            EntryClass::OAuth2ResourceServer.to_value()
        ),
        (
            Attribute::Class,
            EntryClass::OAuth2ResourceServerBasic.to_value()
        ),
        (Attribute::Uuid, Value::Uuid(uuid)),
        (Attribute::Name, Value::new_iname(name)),
        (Attribute::DisplayName, Value::new_utf8s(display)),
        (
            Attribute::OAuth2RsOriginLanding,
            Value::new_url_s(&format!("https://{}.example.com", name.replace('_', "-")))
                .expect("url")
        ),
        (
            Attribute::OAuth2RsOrigin,
            Value::new_url_s(&format!(
                "https://{}.example.com/oauth2/result",
                name.replace('_', "-")
            ))
            .expect("url")
        ),
        (
            Attribute::OAuth2RsScopeMap,
            Value::new_oauthscopemap(
                U_OC_GROUP,
                ["openid".to_string(), "groups".to_string()]
                    .into_iter()
                    .collect()
            )
            .expect("scopemap")
        )
    )
}

/// The probe ACP: members of U_GACP may search `attrs` on U_TARGET.
pub fn probe_acp(attrs: &[&str]) -> Entry<EntryInit, EntryNew> {
    let mut e: Entry<EntryInit, EntryNew> = entry_init!(
        (Attribute::Class, EntryClass::Object.to_value()),
        (
            Attribute::Class,
            EntryClass::AccessControlProfile.to_value()
        ),
        (Attribute::Class, EntryClass::AccessControlSearch.to_value()),
        (
            Attribute::Class,
            EntryClass::AccessControlReceiverGroup.to_value()
        ),
        (
            Attribute::Class,
            EntryClass::AccessControlTargetScope.to_value()
        ),
        (Attribute::Name, Value::new_iname("fs_acp_probe")),
        (Attribute::Uuid, Value::Uuid(U_ACP)),
        (Attribute::AcpReceiverGroup, Value::Refer(U_GACP)),
        (
            Attribute::AcpTargetScope,
            Value::new_json_filter_s(&format!("{{\"eq\":[\"uuid\",\"{U_TARGET}\"]}}"))
                .expect("filter")
        )
    );
    for a in attrs {
        e.add_ava(Attribute::AcpSearchAttr, Value::new_iutf8(a));
    }
    e
}

pub fn target_person() -> Entry<EntryInit, EntryNew> {
    let mut e = person(U_TARGET, "fs_target", "probe target");
    e.add_ava(Attribute::LegalName, Value::new_utf8s("Probe Target"));
    e.add_ava(
        Attribute::Mail,
        Value::new_email_address_primary_s("target@example.com").expect("mail"),
    );
    e.add_ava(
        Attribute::AccountExpire,
        Value::new_datetime_s("2099-01-01T00:00:00+00:00").expect("dt"),
    );
    e.add_ava(
        Attribute::AccountValidFrom,
        Value::new_datetime_s("2001-01-01T00:00:00+00:00").expect("dt"),
    );
    e
}

/// Populate the fixed fixture. One IDM-layer write transaction.
pub async fn build_fixture(srv: &Srv, ct: Duration) -> Result<(), String> {
    let mut w = srv
        .idms
        .proxy_write(ct)
        .await
        .map_err(|e| format!("fixture write: {e:?}"))?;
    // The default all-persons policy demands MFA; a password-only credential update must be
    // committable for the credential-update transaction kind.
    w.qs_write
        .internal_modify_uuid(
            UUID_IDM_ALL_PERSONS,
            &ModifyList::new_purge(Attribute::CredentialTypeMinimum),
        )
        .map_err(|e| format!("fixture policy: {e:?}"))?;
    let mut es = vec![
        person(U_PROBE, "fs_probe", "probe identity"),
        group(U_GACP, "fs_gacp", &[U_PROBE]),
        target_person(),
        probe_acp(&["name", "uuid", "class", "legalname"]),
        attrtype(U_VATTR, VATTR, "v0"),
        group(U_OC_GROUP, "fs_oc_group", &[U_PROBE]),
        oauth2_client(U_OC_BASE, OC_BASE, "base client v0"),
        person(U_MARK, "fs_mark", "m0"),
        person(U_CRED, "fs_cred", "cred user"),
        person(U_MOD, "fs_mod", "to be modified"),
        person(U_DEL, "fs_del", "to be deleted"),
        person(U_REN, "rn0", "renamed entry"),
    ];
    for i in 0..5 {
        es.push(person(u_s(i), &format!("fs_s{i}"), "stamp member"));
    }
    for i in 1..=4 {
        es.push(person(u_e(i), &format!("fs_e{i}"), "v0"));
    }
    es.push(group(U_GV, "fs_gv", &[]));
    w.qs_write
        .internal_create(es)
        .map_err(|e| format!("fixture create: {e:?}"))?;
    w.commit().map_err(|e| format!("fixture commit: {e:?}"))
}

/// Some filler so that the database has several pages of entries and indexes.
pub async fn build_filler(srv: &Srv, ct: Duration, n: u32) -> Result<(), String> {
    if n == 0 {
        return Ok(());
    }
    let mut w = srv.qs.write(ct).await.map_err(|e| format!("{e:?}"))?;
    let es: Vec<_> = (0..n)
        .map(|i| person(fu(10_000 + i), &format!("fs_fill{i}"), &format!("filler {i}")))
        .collect();
    w.internal_create(es).map_err(|e| format!("{e:?}"))?;
    w.commit().map_err(|e| format!("{e:?}"))
}

// ===================================================================================
// observation vector

/// What fresh read transactions report about the server, component by component.
#[derive(Clone, Debug, PartialEq)]
pub struct Obs {
    pub comp: BTreeMap<&'static str, Json>,
}

/// names of the observation components, with the word used in violation signatures
pub const COMPONENTS: [(&str, &str); 9] = [
    ("entries", "entries"),
    ("ruv", "ruv"),
    ("schema", "schema"),
    ("access", "accesscontrols"),
    ("domain", "domain-info"),
    ("oauth2", "oauth2-clients"),
    ("keys", "key-material"),
    ("credsession", "cred-update-sessions"),
    ("names", "name-index"),
];

pub fn sig_word(comp: &str) -> &'static str {
    COMPONENTS
        .iter()
        .find(|(c, _)| *c == comp)
        .map(|(_, w)| *w)
        .unwrap_or("other")
}

impl Obs {
    /// components that differ, with a short description of the difference
    pub fn diff(&self, other: &Obs) -> Vec<(&'static str, String)> {
        let mut out = Vec::new();
        for (k, v) in &self.comp {
            let o = other.comp.get(k).unwrap_or(&Json::Null);
            if v != o {
                out.push((*k, describe_diff(k, v, o)));
            }
        }
        out
    }
}

fn describe_diff(k: &str, a: &Json, b: &Json) -> String {
    if k == "entries" {
        if let (Some(ma), Some(mb)) = (a.as_object(), b.as_object()) {
            let mut d = Vec::new();
            for (u, e) in ma {
                match mb.get(u) {
                    None => d.push(format!("{u}: only before")),
                    Some(o) if o != e => {
                        let mut s = format!("{u}: differs");
                        if let (Some(x), Some(y)) =
                            (kvcore::srv::dump_attrs(e), kvcore::srv::dump_attrs(o))
                        {
                            let keys: BTreeSet<&String> = x.keys().chain(y.keys()).collect();
                            for key in keys {
                                if x.get(key) != y.get(key) {
                                    s.push_str(&format!(" [{key}]"));
                                }
                            }
                        }
                        d.push(s)
                    }
                    _ => {}
                }
            }
            for u in mb.keys() {
                if !ma.contains_key(u) {
                    d.push(format!("{u}: only after"));
                }
            }
            d.truncate(12);
            return d.join("; ");
        }
    }
    let sa = a.to_string();
    let sb = b.to_string();
    if sa.len() + sb.len() < 1200 {
        return format!("before={sa} after={sb}");
    }
    // both are objects or arrays: name the differing keys / elements
    if let (Some(ma), Some(mb)) = (a.as_object(), b.as_object()) {
        let keys: BTreeSet<&String> = ma.keys().chain(mb.keys()).collect();
        let d: Vec<String> = keys
            .into_iter()
            .filter(|k| ma.get(*k) != mb.get(*k))
            .map(|k| {
                let x = ma.get(k).map(|v| v.to_string()).unwrap_or("-".into());
                let y = mb.get(k).map(|v| v.to_string()).unwrap_or("-".into());
                let mut s = format!("{k}: {x} -> {y}");
                if s.len() > 400 {
                    s.truncate(400);
                }
                s
            })
            .take(8)
            .collect();
        return d.join("; ");
    }
    if let (Some(xa), Some(xb)) = (a.as_array(), b.as_array()) {
        let sa: BTreeSet<String> = xa.iter().map(|v| v.to_string()).collect();
        let sb: BTreeSet<String> = xb.iter().map(|v| v.to_string()).collect();
        let gone: Vec<&String> = sa.difference(&sb).take(6).collect();
        let new: Vec<&String> = sb.difference(&sa).take(6).collect();
        return format!("removed={gone:?} added={new:?}");
    }
    format!("before(len {}) != after(len {})", sa.len(), sb.len())
}

pub fn dump_json(d: &kvcore::srv::Dump) -> Json {
    Json::Object(
        d.entries
            .iter()
            .map(|(u, e)| (u.to_string(), e.clone()))
            .collect(),
    )
}

/// Names whose resolution through the name index is part of the observation.
pub const NAME_PROBES: [&str; 10] = [
    "fs_probe",
    "fs_target",
    "fs_mod",
    "fs_mod_renamed",
    "fs_del",
    "fs_new_person",
    OC_BASE,
    OC_NEW,
    "fs_multi_a",
    "fs_multi_b",
];

/// The visible attribute set of U_TARGET for the probe identity, inside the given transaction.
pub fn probe_visible(
    r: &mut QueryServerReadTransaction<'_>,
) -> Result<BTreeSet<String>, OperationError> {
    let pe = r.internal_search_uuid(U_PROBE)?;
    let ident = Identity::from_impersonate_entry_readwrite(pe);
    match r.impersonate_search_ext_uuid(U_TARGET, &ident) {
        Ok(e) => Ok(e.get_ava_names().map(|s| s.to_string()).collect()),
        Err(OperationError::NoMatchingEntries) => Ok(BTreeSet::new()),
        Err(e) => Err(e),
    }
}

/// Take the observation vector with FRESH read transactions. `cust` = a credential update
/// session that exists in the baseline (its presence is part of the vector).
pub async fn observe(
    srv: &Srv,
    ct: Duration,
    cust: Option<&kanidmd_lib::idm::credupdatesession::CredentialUpdateSessionToken>,
) -> Result<Obs, String> {
    let mut comp: BTreeMap<&'static str, Json> = BTreeMap::new();
    // 1. every stored entry
    {
        let d = kvcore::srv::dump(&srv.qs).await;
        comp.insert("entries", dump_json(&d));
    }
    // 2. a second, separate read transaction for the settings
    {
        let mut r = srv.qs.read().await.map_err(|e| format!("read: {e:?}"))?;
        let ruv = r
            .consumer_get_state()
            .map_err(|e| format!("consumer_get_state: {e:?}"))?;
        comp.insert("ruv", serde_json::to_value(&ruv).unwrap_or(Json::Null));
        let schema = r.get_schema();
        let mut attrs: Vec<String> = schema
            .get_attributes()
            .keys()
            .map(|a| a.as_str().to_string())
            .collect();
        attrs.sort();
        let mut classes: Vec<String> = schema
            .get_classes()
            .keys()
            .map(|a| a.as_str().to_string())
            .collect();
        classes.sort();
        let def = |n: &str| -> Json {
            match schema.get_attributes().get(&Attribute::from(n)) {
                Some(a) => json!(format!("{a:?}")),
                None => Json::Null,
            }
        };
        comp.insert(
            "schema",
            json!({"attributes": attrs, "classes": classes, "def_vattr": def(VATTR), "def_new": def(NEW_ATTR), "def_displayname": def("displayname")}),
        );
        let vis = probe_visible(&mut r).map_err(|e| format!("probe search: {e:?}"))?;
        comp.insert("access", json!(vis));
        comp.insert(
            "domain",
            json!({"display": r.get_domain_display_name(), "name": r.get_domain_name(), "version": r.get_domain_version()}),
        );
        let mut names = serde_json::Map::new();
        for n in NAME_PROBES {
            let v = match r.name_to_uuid(n) {
                Ok(u) => json!(u.to_string()),
                Err(OperationError::NoMatchingEntries) => Json::Null,
                Err(e) => json!(format!("error {e:?}")),
            };
            names.insert(n.to_string(), v);
        }
        comp.insert("names", Json::Object(names));
    }
    // 3. the IDM layer's own view
    {
        let pr = srv
            .idms
            .proxy_read()
            .await
            .map_err(|e| format!("proxy_read: {e:?}"))?;
        let look = |c: &str| -> Json {
            match pr.oauth2_rfc8414_metadata(c) {
                Ok(m) => {
                    let mut sc = m.scopes_supported.clone().unwrap_or_default();
                    sc.sort();
                    json!({"issuer": m.issuer.to_string(), "scopes": sc})
                }
                Err(OperationError::NoMatchingEntries) => Json::Null,
                Err(e) => json!(format!("error {e:?}")),
            }
        };
        comp.insert("oauth2", json!({OC_BASE: look(OC_BASE), OC_NEW: look(OC_NEW)}));
        let keys = |c: &str| -> Json {
            match pr.oauth2_openid_publickey(c) {
                Ok(k) => serde_json::to_value(&k).unwrap_or(Json::Null),
                Err(OperationError::NoMatchingEntries) => Json::Null,
                Err(e) => json!(format!("error {e:?}")),
            }
        };
        // key material of the client that exists in the baseline (a client made by the
        // transaction under test is covered by the "oauth2" component)
        comp.insert("keys", json!({OC_BASE: keys(OC_BASE)}));
    }
    // 4. the credential update session table
    if let Some(cust) = cust {
        let cu = srv
            .idms
            .cred_update_transaction()
            .await
            .map_err(|e| format!("cred_update_transaction: {e:?}"))?;
        let st = match cu.credential_update_status(cust, ct) {
            Ok(s) => json!({"session": "present", "can_commit": s.can_commit()}),
            Err(e) => json!({"session": format!("{e:?}")}),
        };
        comp.insert("credsession", st);
    }
    Ok(Obs { comp })
}

// ===================================================================================
// raw view of the database file (every table, every row), read through a separate read-only
// sqlite connection of the harness

pub type RawDb = BTreeMap<String, Vec<String>>;

pub fn raw_db(path: &Path) -> Result<RawDb, String> {
    raw_db_flags(path, false)
}

/// `rw`: open read-write (never create), so that sqlite can recover the WAL left by a process
/// that died.
pub fn raw_db_flags(path: &Path, rw: bool) -> Result<RawDb, String> {
    use rusqlite::types::ValueRef;
    use rusqlite::{Connection, OpenFlags};
    let conn = Connection::open_with_flags(
        path,
        if rw {
            OpenFlags::SQLITE_OPEN_READ_WRITE | OpenFlags::SQLITE_OPEN_NO_MUTEX
        } else {
            OpenFlags::SQLITE_OPEN_READ_ONLY | OpenFlags::SQLITE_OPEN_NO_MUTEX
        },
    )
    .map_err(|e| format!("raw open: {e:?}"))?;
    let _ = conn.busy_timeout(std::time::Duration::from_secs(5));
    let mut out = RawDb::new();
    let tables: Vec<String> = {
        let mut st = conn
            .prepare("SELECT name FROM sqlite_master WHERE type='table' ORDER BY name")
            .map_err(|e| format!("raw tables: {e:?}"))?;
        let rows = st
            .query_map([], |r| r.get::<_, String>(0))
            .map_err(|e| format!("raw tables: {e:?}"))?;
        rows.filter_map(|r| r.ok()).collect()
    };
    conn.execute_batch("BEGIN DEFERRED TRANSACTION")
        .map_err(|e| format!("raw begin: {e:?}"))?;
    for t in tables {
        let mut st = conn
            .prepare(&format!("SELECT * FROM \"{t}\""))
            .map_err(|e| format!("raw select {t}: {e:?}"))?;
        let ncol = st.column_count();
        let mut rows = st.query([]).map_err(|e| format!("raw query {t}: {e:?}"))?;
        let mut v = Vec::new();
        loop {
            match rows.next() {
                Ok(Some(r)) => {
                    let mut s = String::new();
                    for c in 0..ncol {
                        if c > 0 {
                            s.push('|');
                        }
                        match r.get_ref(c) {
                            Ok(ValueRef::Null) => s.push_str("NULL"),
                            Ok(ValueRef::Integer(i)) => s.push_str(&i.to_string()),
                            Ok(ValueRef::Real(f)) => s.push_str(&f.to_string()),
                            Ok(ValueRef::Text(b)) => s.push_str(&String::from_utf8_lossy(b)),
                            Ok(ValueRef::Blob(b)) => match std::str::from_utf8(b) {
                                Ok(x) if x.chars().all(|c| !c.is_control()) => s.push_str(x),
                                _ => s.push_str(&hex::encode(b)),
                            },
                            Err(e) => s.push_str(&format!("<{e:?}>")),
                        }
                    }
                    v.push(s);
                }
                Ok(None) => break,
                Err(e) => return Err(format!("raw row {t}: {e:?}")),
            }
        }
        v.sort();
        out.insert(t, v);
    }
    let _ = conn.execute_batch("ROLLBACK");
    Ok(out)
}

/// Tables that differ between two raw views, with row counts of the differences.
pub fn raw_diff(a: &RawDb, b: &RawDb) -> Vec<String> {
    let keys: BTreeSet<&String> = a.keys().chain(b.keys()).collect();
    let mut out = Vec::new();
    let empty = Vec::new();
    for k in keys {
        let x = a.get(k).unwrap_or(&empty);
        let y = b.get(k).unwrap_or(&empty);
        if x != y {
            let sx: BTreeSet<&String> = x.iter().collect();
            let sy: BTreeSet<&String> = y.iter().collect();
            let gone = sx.difference(&sy).count();
            let new = sy.difference(&sx).count();
            let mut ex = sy
                .difference(&sx)
                .next()
                .map(|s| s.to_string())
                .unwrap_or_default();
            if ex.len() > 160 {
                ex.truncate(160);
            }
            out.push(format!(
                "{k}: {gone} rows gone, {new} rows new{}{}",
                if a.contains_key(k) { "" } else { " (table new)" },
                if ex.is_empty() { String::new() } else { format!(" e.g. {ex}") }
            ));
        }
    }
    out
}

/// Every change identifier (server uuid, timestamp) found anywhere in a dumped entry.
pub fn collect_cids(v: &Json, out: &mut Vec<(Duration, String)>) {
    match v {
        Json::Object(m) => {
            let ts = |t: &Json| -> Option<Duration> {
                Some(Duration::new(
                    t.get("secs")?.as_u64()?,
                    t.get("nanos")?.as_u64()? as u32,
                ))
            };
            if let (Some(Json::String(s)), Some(t)) = (m.get("s"), m.get("t")) {
                if let Some(d) = ts(t) {
                    out.push((d, s.clone()));
                }
            }
            if let (Some(Json::String(s)), Some(t)) = (m.get("s_uuid"), m.get("ts")) {
                if let Some(d) = ts(t) {
                    out.push((d, s.clone()));
                }
            }
            m.values().for_each(|x| collect_cids(x, out));
        }
        Json::Array(a) => a.iter().for_each(|x| collect_cids(x, out)),
        _ => {}
    }
}
