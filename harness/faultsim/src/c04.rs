//! C04 Failed or abandoned write transactions leave no trace.
//!
//! Oracle: a differential pair. An *observation vector* is taken with fresh read transactions
//! before a write transaction and after it failed (a storage fault injected at the k-th storage
//! point, for every k) or was abandoned (dropped at every operation boundary). The two vectors
//! must be equal component by component, the raw content of every table of the database file must
//! be equal, the next transaction must commit and be visible, and a server restarted on the same
//! file must report the same settings. A transaction that returns Ok (the fault hit a point whose
//! failure is not an error, e.g. just after COMMIT) is expected to be visible instead.

use crate::fx::*;
use kanidmd_lib::idm::credupdatesession::{CredentialUpdateSessionToken, InitCredentialUpdateEvent};
use kanidmd_lib::idm::server::IdmServerProxyWriteTransaction;
use kanidmd_lib::modify::{m_pres, m_purge, m_remove};
use kanidmd_lib::prelude::*;
use kanidmd_lib::value::Value;
use kanidmd_lib::verif::{storage_count, storage_log, storage_set, StoragePlan};
use kvcore::{Acc, Args, Rng, Run, Scratch};
use serde_json::{json, Value as Json};
use std::collections::BTreeMap;
use futures::FutureExt;
use std::panic::{catch_unwind, AssertUnwindSafe};
use std::path::{Path, PathBuf};
use std::sync::Mutex;

#[derive(Clone, Copy, Debug, PartialEq, Eq, PartialOrd, Ord)]
pub enum Kind {
    Create,
    Modify,
    Delete,
    SchemaAttr,
    AcpChange,
    Oauth2Create,
    DomainDisplay,
    CredCommit,
    Multi,
    /// raise the domain functional level 15 -> 16: the one transaction that changes the
    /// in-memory schema in this tree (schema is built from the level, not from entries)
    DomainRaise,
}

pub const ALL_KINDS: [Kind; 10] = [
    Kind::Create,
    Kind::Modify,
    Kind::Delete,
    Kind::SchemaAttr,
    Kind::AcpChange,
    Kind::Oauth2Create,
    Kind::DomainDisplay,
    Kind::CredCommit,
    Kind::Multi,
    Kind::DomainRaise,
];

impl Kind {
    pub fn name(&self) -> &'static str {
        match self {
            Kind::Create => "create",
            Kind::Modify => "modify",
            Kind::Delete => "delete",
            Kind::SchemaAttr => "schema-attr",
            Kind::AcpChange => "acp-change",
            Kind::Oauth2Create => "oauth2-create",
            Kind::DomainDisplay => "domain-display",
            Kind::CredCommit => "cred-commit",
            Kind::Multi => "multi",
            Kind::DomainRaise => "domain-raise",
        }
    }
    /// domain functional level of the database the transaction starts from
    pub fn level(&self) -> u32 {
        match self {
            Kind::DomainRaise => DOMAIN_PREVIOUS_TGT_LEVEL,
            _ => DOMAIN_TGT_LEVEL,
        }
    }
    /// number of operations inside the transaction
    pub fn steps(&self) -> usize {
        match self {
            Kind::Multi => 5,
            Kind::Modify => 2,
            _ => 1,
        }
    }
    /// does the transaction store the same bytes every time it runs on the same file?
    /// (OAuth2 clients get random secrets and keys, credentials random salts, the level raise
    /// creates keyed objects)
    fn deterministic(&self) -> bool {
        !matches!(self, Kind::Oauth2Create | Kind::CredCommit | Kind::DomainRaise)
    }
    /// kinds that only exist at the IDM layer
    fn idm_only(&self) -> bool {
        matches!(self, Kind::Oauth2Create | Kind::CredCommit)
    }
}

#[derive(Clone, Copy, Debug, PartialEq, Eq, PartialOrd, Ord)]
pub enum Layer {
    /// `QueryServer::write` .. `QueryServerWriteTransaction::commit`
    Qs,
    /// `IdmServer::proxy_write` .. `IdmServerProxyWriteTransaction::commit`
    Idm,
}

impl Layer {
    fn name(&self) -> &'static str {
        match self {
            Layer::Qs => "qs",
            Layer::Idm => "idm",
        }
    }
}

enum W<'a> {
    Qs(QueryServerWriteTransaction<'a>),
    Idm(IdmServerProxyWriteTransaction<'a>),
}

impl<'a> W<'a> {
    fn qs(&mut self) -> &mut QueryServerWriteTransaction<'a> {
        match self {
            W::Qs(q) => q,
            W::Idm(i) => &mut i.qs_write,
        }
    }
    fn commit(self) -> Result<(), OperationError> {
        match self {
            W::Qs(q) => q.commit(),
            W::Idm(i) => i.commit(),
        }
    }
}

/// Apply operation `step` of transaction kind `kind`.
fn apply_step(
    kind: Kind,
    step: usize,
    w: &mut W<'_>,
    cust: &CredentialUpdateSessionToken,
    ct: Duration,
) -> Result<(), OperationError> {
    match (kind, step) {
        (Kind::Create, _) => {
            let mut e = person(U_NEW_PERSON, "fs_new_person", "created by the faulted txn");
            e.add_ava(
                Attribute::Mail,
                Value::new_email_address_primary_s("new@example.com")
                    .ok_or(OperationError::InvalidState)?,
            );
            w.qs().internal_create(vec![e])
        }
        (Kind::Modify, 0) => w.qs().internal_modify_uuid(
            U_MOD,
            &ModifyList::new_list(vec![
                m_purge(Attribute::Description),
                m_pres(Attribute::Description, &Value::new_utf8s("modified")),
                m_purge(Attribute::DisplayName),
                m_pres(Attribute::DisplayName, &Value::new_utf8s("modified")),
                m_pres(
                    Attribute::Mail,
                    &Value::new_email_address_primary_s("mod@example.com")
                        .ok_or(OperationError::InvalidState)?,
                ),
            ]),
        ),
        (Kind::Modify, _) => w.qs().internal_modify_uuid(
            U_MOD,
            &ModifyList::new_purge_and_set(Attribute::Name, Value::new_iname("fs_mod_renamed")),
        ),
        (Kind::Delete, _) => w.qs().internal_delete_uuid(U_DEL),
        (Kind::SchemaAttr, _) => w
            .qs()
            .internal_create(vec![attrtype(U_NEW_ATTR, NEW_ATTR, "made by the faulted txn")]),
        (Kind::AcpChange, _) => w.qs().internal_modify_uuid(
            U_ACP,
            &ModifyList::new_list(vec![
                m_pres(Attribute::AcpSearchAttr, &Value::new_iutf8("mail")),
                m_remove(Attribute::AcpSearchAttr, &PartialValue::new_iutf8("legalname")),
            ]),
        ),
        (Kind::Oauth2Create, _) => w.qs().internal_create(vec![oauth2_client(
            U_NEW_OC,
            OC_NEW,
            "client made by the faulted txn",
        )]),
        (Kind::DomainDisplay, _) => w.qs().internal_modify_uuid(
            UUID_DOMAIN_INFO,
            &ModifyList::new_purge_and_set(
                Attribute::DomainDisplayName,
                Value::new_utf8s("Fault Domain"),
            ),
        ),
        (Kind::CredCommit, _) => match w {
            W::Idm(i) => i.commit_credential_update(cust, ct),
            W::Qs(_) => Err(OperationError::InvalidState),
        },
        (Kind::DomainRaise, _) => w.qs().domain_raise(DOMAIN_TGT_LEVEL),
        (Kind::Multi, 0) => w
            .qs()
            .internal_create(vec![person(U_MULTI_A, "fs_multi_a", "multi a")]),
        (Kind::Multi, 1) => w
            .qs()
            .internal_create(vec![group(U_MULTI_B, "fs_multi_b", &[U_MULTI_A])]),
        (Kind::Multi, 2) => w.qs().internal_modify_uuid(
            U_MOD,
            &ModifyList::new_purge_and_set(Attribute::Description, Value::new_utf8s("multi")),
        ),
        (Kind::Multi, 3) => w.qs().internal_delete_uuid(U_DEL),
        (Kind::Multi, _) => w.qs().internal_modify_uuid(
            UUID_DOMAIN_INFO,
            &ModifyList::new_purge_and_set(
                Attribute::DomainDisplayName,
                Value::new_utf8s("Multi Domain"),
            ),
        ),
    }
}

/// Is the effect of a *committed* transaction of this kind visible in the observation?
fn effect_visible(kind: Kind, o: &Obs) -> bool {
    let ent = |u: Uuid| o.comp["entries"].get(u.to_string());
    match kind {
        Kind::Create => ent(U_NEW_PERSON).is_some() && !o.comp["names"]["fs_new_person"].is_null(),
        Kind::Modify => !o.comp["names"]["fs_mod_renamed"].is_null(),
        Kind::Delete => ent(U_DEL).map(kvcore::srv::is_recycled).unwrap_or(false),
        // (at this domain level the in-memory schema is not built from entries)
        Kind::SchemaAttr => ent(U_NEW_ATTR).is_some(),
        Kind::DomainRaise => {
            o.comp["domain"]["version"] == json!(DOMAIN_TGT_LEVEL)
                && o.comp["schema"]["classes"]
                    .as_array()
                    .map(|c| c.contains(&json!("account_signup_request")))
                    .unwrap_or(false)
        }
        Kind::AcpChange => {
            let a = o.comp["access"].as_array().cloned().unwrap_or_default();
            a.contains(&json!("mail")) && !a.contains(&json!("legalname"))
        }
        Kind::Oauth2Create => !o.comp["oauth2"][OC_NEW].is_null(),
        Kind::DomainDisplay => o.comp["domain"]["display"] == json!("Fault Domain"),
        Kind::CredCommit => ent(U_CRED)
            .and_then(kvcore::srv::dump_attrs)
            .map(|a| a.contains_key("primary_credential"))
            .unwrap_or(false),
        Kind::Multi => {
            ent(U_MULTI_B).is_some() && o.comp["domain"]["display"] == json!("Multi Domain")
        }
    }
}

#[derive(Clone, Copy, Debug, PartialEq, Eq)]
pub enum Mode {
    /// no fault: learn the number of storage points
    Count,
    /// the k-th storage point of the transaction fails
    FailAt(u64),
    /// perform the first b operations, then drop the transaction
    Abandon(usize),
}

#[derive(Clone, Debug)]
#[allow(dead_code)] // fields are shown through Debug in witnesses
enum Outcome {
    Committed,
    BeginFailed(String),
    OpFailed { step: usize, err: String },
    CommitFailed { err: String },
    Abandoned { after_steps: usize },
    Panicked(String),
}

#[derive(Clone, Debug)]
struct TxnReport {
    outcome: Outcome,
    /// storage points passed by the operations (before commit was called)
    n_ops: u64,
    n_total: u64,
    log: Vec<&'static str>,
    /// raw tables of the database file after the transaction (filled in by `run_case`)
    raw_after: Option<std::sync::Arc<RawDb>>,
}

async fn run_txn(
    srv: &Srv,
    kind: Kind,
    layer: Layer,
    mode: Mode,
    cust: &CredentialUpdateSessionToken,
    ct: Duration,
) -> TxnReport {
    let plan = match mode {
        Mode::Count | Mode::Abandon(_) => StoragePlan::Count,
        Mode::FailAt(k) => StoragePlan::FailAt(k),
    };
    storage_set(plan);
    let mut n_ops = 0;
    let n_ops_ref = &mut n_ops;
    let fut = async move {
        let n_ops = n_ops_ref;
        'txn: {
        let mut w = match layer {
            Layer::Qs => match srv.qs.write(ct).await {
                Ok(w) => W::Qs(w),
                Err(e) => break 'txn Outcome::BeginFailed(format!("{e:?}")),
            },
            Layer::Idm => match srv.idms.proxy_write(ct).await {
                Ok(w) => W::Idm(w),
                Err(e) => break 'txn Outcome::BeginFailed(format!("{e:?}")),
            },
        };
        let stop = match mode {
            Mode::Abandon(b) => b,
            _ => kind.steps(),
        };
        for step in 0..stop {
            if let Err(e) = apply_step(kind, step, &mut w, cust, ct) {
                *n_ops = storage_count();
                drop(w);
                break 'txn Outcome::OpFailed {
                    step,
                    err: format!("{e:?}"),
                };
            }
        }
        *n_ops = storage_count();
        if let Mode::Abandon(b) = mode {
            drop(w);
            break 'txn Outcome::Abandoned { after_steps: b };
        }
        match w.commit() {
            Ok(()) => Outcome::Committed,
            Err(e) => Outcome::CommitFailed {
                err: format!("{e:?}"),
            },
        }
        }
    };
    // A panic inside kanidm (its own debug assertions are on) unwinds through the transaction,
    // which is dropped: for this property that is one more way of not committing.
    let outcome = match AssertUnwindSafe(fut).catch_unwind().await {
        Ok(o) => o,
        Err(p) => Outcome::Panicked(
            p.downcast_ref::<String>()
                .cloned()
                .or_else(|| p.downcast_ref::<&str>().map(|s| s.to_string()))
                .unwrap_or_else(|| "panic".into()),
        ),
    };
    if n_ops == 0 {
        n_ops = storage_count();
    }
    let n_total = storage_count();
    let log = storage_log();
    storage_set(StoragePlan::Off);
    TxnReport {
        outcome,
        n_ops,
        n_total,
        log,
        raw_after: None,
    }
}

/// Start a credential update session for U_CRED and stage a new password in it (not committed).
async fn stage_cred_session(
    srv: &Srv,
    ct: Duration,
) -> Result<CredentialUpdateSessionToken, String> {
    let mut w = srv
        .idms
        .proxy_write(ct)
        .await
        .map_err(|e| format!("cred session write: {e:?}"))?;
    let e = w
        .qs_write
        .internal_search_uuid(U_CRED)
        .map_err(|e| format!("cred user: {e:?}"))?;
    let ident = Identity::from_impersonate_entry_readwrite(e);
    let (cust, _st) = w
        .init_credential_update(&InitCredentialUpdateEvent::new(ident, U_CRED), ct)
        .map_err(|e| format!("init_credential_update: {e:?}"))?;
    w.commit().map_err(|e| format!("cred session commit: {e:?}"))?;
    let cu = srv
        .idms
        .cred_update_transaction()
        .await
        .map_err(|e| format!("{e:?}"))?;
    cu.credential_primary_set_password(&cust, ct, "fault-Injected-pw-91-xylophone-Quartz")
        .map_err(|e| format!("set_password: {e:?}"))?;
    Ok(cust)
}

/// The "next transaction": must commit and be visible to a fresh reader.
async fn marker_txn(srv: &Srv, ct: Duration, tag: &str) -> Result<(), String> {
    let mut w = srv
        .qs
        .write(ct)
        .await
        .map_err(|e| format!("begin: {e:?}"))?;
    w.internal_modify_uuid(
        U_MARK,
        &ModifyList::new_purge_and_set(Attribute::Description, Value::new_utf8s(tag)),
    )
    .map_err(|e| format!("modify: {e:?}"))?;
    w.commit().map_err(|e| format!("commit: {e:?}"))?;
    let mut r = srv.qs.read().await.map_err(|e| format!("read: {e:?}"))?;
    let e = r
        .internal_search_uuid(U_MARK)
        .map_err(|e| format!("search: {e:?}"))?;
    if e.get_ava_single_proto_string(Attribute::Description).as_deref() == Some(tag) {
        Ok(())
    } else {
        Err(format!(
            "committed marker not visible: description = {:?}",
            e.get_ava_single_proto_string(Attribute::Description)
        ))
    }
}

/// Report a violation, keeping at most two witnesses per signature and worker (the accumulator
/// caps the number of stored violations).
fn viol(acc: &mut Acc, sig: &str, witness: Json) {
    if std::env::var("FS_DEBUG_VIOL").map(|v| sig.contains(&v)).unwrap_or(false) {
        let mut w = witness.to_string();
        w.truncate(2500);
        eprintln!("VIOL {sig} {w}");
    }
    let have = acc.violations.iter().filter(|v| v.signature == sig).count();
    if have < 2 {
        acc.violation(sig, witness);
    } else {
        acc.count("violation_witnesses_not_stored_duplicate_signature");
    }
    acc.count(&format!("violations.{sig}"));
}

const WHY_PUBLISHED: &str = "QueryServerWriteTransaction::commit (server/lib/src/server/mod.rs) commits cid_max, schema, d_info, system_config, feature_config, phase, dyngroup cache, key providers and access controls before be_txn.commit(); IdmServerProxyWriteTransaction::commit (server/lib/src/idm/server.rs) commits applications, oauth2rs, cred_update_sessions and oauth2_client_providers before qs_write.commit(). When the backend commit then fails, the database rolls back but the in-memory structures stay published.";

// ===================================================================================

#[derive(Clone, Copy, Debug)]
struct Shape {
    name: &'static str,
    filler: u32,
    arcsize: Option<usize>,
}

const SHAPES: [Shape; 2] = [
    Shape {
        name: "small",
        filler: 0,
        arcsize: Some(2048),
    },
    Shape {
        name: "filled-tinycache",
        filler: 120,
        arcsize: Some(8),
    },
];

const POOL: u32 = 8;

struct Env {
    /// pristine database per shape (no handle open on it), at the target domain level
    pristine: Vec<PathBuf>,
    /// the same, one domain level lower
    pristine_prev: Vec<PathBuf>,
    dir: PathBuf,
}

impl Env {
    fn pristine_for(&self, shape: usize, kind: Kind) -> &Path {
        if kind.level() == DOMAIN_TGT_LEVEL {
            &self.pristine[shape]
        } else {
            &self.pristine_prev[shape]
        }
    }
}

fn secs(n: u64) -> Duration {
    T0 + Duration::from_secs(n)
}

fn build_pristine(dir: &Path, shape: &Shape, idx: usize, level: u32) -> Result<PathBuf, String> {
    let p = dir.join(format!("pristine-{idx}-l{level}.db"));
    let rt = kvcore::srv::rt();
    rt.block_on(async {
        let srv = open_level(&p, POOL, shape.arcsize, secs(0), level).await?;
        build_fixture(&srv, secs(1)).await?;
        build_filler(&srv, secs(2), shape.filler).await?;
        drop(srv);
        Ok::<(), String>(())
    })?;
    Ok(p)
}

#[derive(Clone, Debug)]
struct Case {
    shape: usize,
    kind: Kind,
    layer: Layer,
    mode: Mode,
    /// storage-point kind at k and whether k lies in the commit phase (from the counting run)
    point_kind: &'static str,
    in_commit: bool,
    /// also restart a second server on the file afterwards (always in thorough)
    restart: bool,
    /// raw tables after the fault-free run of the same transaction (deterministic kinds only):
    /// a transaction that commits although a fault fired must have stored exactly this
    expected_after: Option<std::sync::Arc<RawDb>>,
}

fn case_json(c: &Case) -> Json {
    json!({"shape": SHAPES[c.shape].name, "kind": c.kind.name(), "layer": c.layer.name(),
           "mode": format!("{:?}", c.mode), "storage_point_kind": c.point_kind, "in_commit_phase": c.in_commit})
}

const SETTINGS: [&str; 6] = ["schema", "access", "domain", "oauth2", "keys", "names"];

fn fixture_entries(o: &Obs) -> BTreeMap<String, Json> {
    let prefix = "7a510000-";
    o.comp["entries"]
        .as_object()
        .map(|m| {
            m.iter()
                .filter(|(k, _)| k.starts_with(prefix))
                .map(|(k, v)| (k.clone(), v.clone()))
                .collect()
        })
        .unwrap_or_default()
}

/// One isolated case on a private copy of the pristine database.
async fn run_case(env: &Env, c: &Case, file: &Path, acc: &mut Acc) -> Result<TxnReport, String> {
    let shape = &SHAPES[c.shape];
    let t_case = std::time::Instant::now();
    let mut marks: Vec<(&str, std::time::Duration)> = Vec::new();
    copy_db(env.pristine_for(c.shape, c.kind), file).map_err(|e| format!("copy: {e:?}"))?;
    marks.push(("copy", t_case.elapsed()));
    let srv = open_level(file, POOL, shape.arcsize, secs(10), c.kind.level()).await?;
    marks.push(("open", t_case.elapsed()));
    let cust = stage_cred_session(&srv, secs(20)).await?;
    marks.push(("cred", t_case.elapsed()));
    let v0 = observe(&srv, secs(25), Some(&cust)).await?;
    let v0b = observe(&srv, secs(25), Some(&cust)).await?;
    marks.push(("obs2", t_case.elapsed()));
    if v0 != v0b {
        return Err(format!(
            "two baseline observations differ: {:?}",
            v0.diff(&v0b)
        ));
    }
    let r0 = raw_db(file)?;
    marks.push(("raw", t_case.elapsed()));
    let dbg = std::env::var("FS_DEBUG").is_ok();
    let t_start = std::time::Instant::now();

    let rep = run_txn(&srv, c.kind, c.layer, c.mode, &cust, secs(30)).await;
    let fired = match c.mode {
        Mode::FailAt(k) => rep.n_total >= k,
        _ => false,
    };
    if dbg {
        eprintln!("case {} txn {:?} -> {:?} n={} ops={}", case_json(c), t_start.elapsed(), rep.outcome, rep.n_total, rep.n_ops);
    }
    // A panic that unwound through a write transaction poisons kanidm's copy-on-write cells: the
    // running server cannot be used any more. The no-trace oracle is then applied to the database
    // file and to a restarted server only.
    let panicked = matches!(rep.outcome, Outcome::Panicked(_));
    let v1 = if panicked {
        v0.clone()
    } else {
        observe(&srv, secs(25), Some(&cust)).await?
    };
    let r1 = raw_db(file)?;
    acc.eval();

    let mut violated = false;
    let witness = |what: &str, extra: Json| -> Json {
        json!({"case": case_json(c), "outcome": format!("{:?}", rep.outcome),
               "storage_points_passed": rep.n_total, "storage_points_in_operations": rep.n_ops,
               "storage_log_tail": rep.log.iter().rev().take(6).rev().collect::<Vec<_>>(),
               "what": what, "detail": extra,
               "likely_cause_if_published_before_failed_db_commit": WHY_PUBLISHED})
    };
    let phase_word = match &rep.outcome {
        Outcome::Committed => "committed",
        Outcome::BeginFailed(_) => "failed-begin",
        Outcome::OpFailed { .. } => "failed-operation",
        Outcome::CommitFailed { .. } => "failed-db-commit",
        Outcome::Abandoned { .. } => "abandoned-transaction",
        Outcome::Panicked(_) => "panicked-transaction",
    };
    if let Outcome::Panicked(msg) = &rep.outcome {
        acc.count("panic_in_kanidm");
        acc.observe("panics_in_kanidm", msg);
        acc.sample(json!({"panic_in_kanidm": msg, "case": case_json(c), "note": "counted, not judged by itself; the no-trace oracle is applied to the state after the unwound transaction"}));
    }
    acc.count(&format!("outcome.{}.{}", c.kind.name(), phase_word));
    match &rep.outcome {
        Outcome::Committed => {
            if fired {
                // the fault hit a point whose failure is not an error of the transaction
                acc.count("fault_absorbed_txn_committed");
                acc.observe(
                    "absorbed_fault_points",
                    &format!("{}:{}", c.kind.name(), c.point_kind),
                );
            } else if matches!(c.mode, Mode::FailAt(_)) {
                acc.count("fault_point_not_reached");
            }
            // Only a transaction whose commit reports success becomes visible - and it must.
            if !effect_visible(c.kind, &v1) {
                violated = true;
                viol(acc, 
                    "c04/committed-transaction-not-visible",
                    witness("commit returned Ok but its effect is not visible to a fresh read transaction", json!(v0.diff(&v1).iter().map(|(k, d)| format!("{k}: {d}")).collect::<Vec<_>>())),
                );
            }
            if let (true, Some(exp)) = (fired, &c.expected_after) {
                let d = raw_diff(exp, &r1);
                if d.is_empty() {
                    acc.count("absorbed_fault_result_equals_fault_free_result");
                } else {
                    violated = true;
                    viol(acc,
                        "c04/commit-reported-success-but-stored-result-differs-from-fault-free-run",
                        witness("a storage fault fired inside the transaction, commit still returned Ok, and the tables of the database file differ from what the same transaction stores without a fault (an error was swallowed and a write was lost)", json!(d)),
                    );
                }
            }
            if r1 == r0 {
                violated = true;
                viol(acc, 
                    "c04/committed-transaction-not-stored",
                    witness("commit returned Ok but no table of the database file changed", json!(null)),
                );
            }
        }
        _ => {
            // failed or abandoned: no trace
            if matches!(c.mode, Mode::FailAt(_)) {
                if fired {
                    acc.count("fault_fired_txn_failed");
                    if c.in_commit {
                        acc.nontrivial(&format!(
                            "{}|{}|{}|{:?}",
                            SHAPES[c.shape].name,
                            c.kind.name(),
                            c.layer.name(),
                            c.mode
                        ));
                    }
                    acc.observe(
                        "fault_points",
                        &format!(
                            "{}/{}:{}@{}",
                            c.kind.name(),
                            c.layer.name(),
                            c.point_kind,
                            if c.in_commit { "commit-phase" } else { "operation-phase" }
                        ),
                    );
                } else {
                    acc.count("txn_failed_without_fault");
                }
            } else if matches!(c.mode, Mode::Abandon(_)) {
                acc.nontrivial(&format!(
                    "{}|{}|{}|{:?}",
                    SHAPES[c.shape].name,
                    c.kind.name(),
                    c.layer.name(),
                    c.mode
                ));
            }
            let stored = raw_diff(&r0, &r1);
            if !stored.is_empty() {
                violated = true;
                viol(acc, 
                    &format!("c04/stored-data-changed-by-{phase_word}"),
                    witness(
                        "tables of the database file differ from the baseline after a transaction that did not commit",
                        json!(stored),
                    ),
                );
            }
            for (comp, d) in v0.diff(&v1) {
                violated = true;
                let word = sig_word(comp);
                let sig = match &rep.outcome {
                    Outcome::CommitFailed { .. } => {
                        format!("c04/in-memory-{word}-published-before-failed-db-commit")
                    }
                    _ => format!("c04/in-memory-{word}-changed-by-{phase_word}"),
                };
                acc.count(&format!("leak.{word}"));
                viol(acc, 
                    &sig,
                    witness(
                        &format!("component '{comp}' as reported by fresh read transactions differs from the baseline although the transaction returned an error{}", if stored.is_empty() { " and the database file is unchanged" } else { "" }),
                        json!(d),
                    ),
                );
            }
        }
    }

    // the next transaction commits and is visible
    let mut expect = v1.clone();
    if !violated && !panicked {
        match marker_txn(&srv, secs(40), "m1").await {
            Ok(()) => acc.count("next_txn_ok"),
            Err(e) => {
                violated = true;
                viol(acc, 
                    &format!("c04/next-transaction-fails-after-{phase_word}"),
                    witness("the transaction following the failed one did not commit or is not visible", json!(e)),
                );
            }
        }
        expect = observe(&srv, secs(45), None).await?;
    }
    drop(srv);
    marks.push(("judge+marker", t_case.elapsed()));

    // restart view: a second server on the same file
    if !violated && (c.restart || panicked || matches!(rep.outcome, Outcome::Committed)) {
        // (a committed domain raise is restarted at the level it reached)
        let level2 = if matches!(rep.outcome, Outcome::Committed) {
            DOMAIN_TGT_LEVEL
        } else {
            c.kind.level()
        };
        let srv2 = open_level(file, POOL, shape.arcsize, secs(50), level2).await?;
        let v2 = observe(&srv2, secs(55), None).await?;
        marks.push(("reopen+obs", t_case.elapsed()));
        let mut diffs = Vec::new();
        for k in SETTINGS {
            if v2.comp[k] != expect.comp[k] {
                diffs.push(format!("{k}: before restart {} / after restart {}", expect.comp[k], v2.comp[k]));
            }
        }
        if fixture_entries(&v2) != fixture_entries(&expect) {
            diffs.push("entries of the fixture differ after restart".to_string());
        }
        if !diffs.is_empty() {
            for d in diffs.iter_mut() {
                if d.len() > 1500 {
                    d.truncate(1500);
                }
            }
            viol(acc, 
                &format!("c04/restart-view-differs-after-{phase_word}"),
                witness("a server restarted on the same database file reports different settings than the running server did", json!(diffs)),
            );
        } else {
            acc.count("restart_view_equal");
        }
        let vr = srv2.qs.verify().await;
        if !vr.is_empty() {
            viol(acc, 
                &format!("c04/verify-fails-after-{phase_word}"),
                witness("QueryServer::verify reports inconsistencies after restart", json!(format!("{vr:?}"))),
            );
        }
        drop(srv2);
        marks.push(("verify", t_case.elapsed()));
    }
    if dbg {
        eprintln!("  marks {marks:?}");
    }
    let mut rep = rep;
    rep.raw_after = Some(std::sync::Arc::new(r1));
    Ok(rep)
}

/// Thorough: chained failures on one server (no restart in between) including double faults,
/// then every transaction retried without fault must commit.
async fn run_chain(
    env: &Env,
    shape_idx: usize,
    counts: &BTreeMap<(usize, Kind, Layer), (u64, u64, Vec<&'static str>, Option<std::sync::Arc<RawDb>>)>,
    rng: &mut Rng,
    file: &Path,
    acc: &mut Acc,
) -> Result<(), String> {
    let shape = &SHAPES[shape_idx];
    // pick one kind; fail it at k, fail the retry at k', ... then retry without fault
    let kind = *rng.pick(&ALL_KINDS);
    copy_db(env.pristine_for(shape_idx, kind), file).map_err(|e| format!("copy: {e:?}"))?;
    let srv = open_level(file, POOL, shape.arcsize, secs(10), kind.level()).await?;
    let cust = stage_cred_session(&srv, secs(20)).await?;
    let v0 = observe(&srv, secs(25), Some(&cust)).await?;
    let r0 = raw_db(file)?;
    let layers: Vec<Layer> = [Layer::Qs, Layer::Idm]
        .into_iter()
        .filter(|l| counts.contains_key(&(shape_idx, kind, *l)))
        .collect();
    if layers.is_empty() {
        return Err("no count for chain".into());
    }
    let layer = *rng.pick(&layers);
    let Some((n, n_ops, _, _)) = counts.get(&(shape_idx, kind, layer)).cloned() else {
        return Err("no count for chain".into());
    };
    let m = 2 + rng.below(3); // 2..4 chained failures, pool is 8
    let mut ks = Vec::new();
    let mut commit_failures = 0;
    for i in 0..m {
        // prefer the commit phase
        let k = if rng.chance(3, 4) && n > n_ops + 1 {
            rng.range(n_ops + 1, n - 1)
        } else {
            rng.range(1, n.max(2) - 1)
        };
        ks.push(k);
        let rep = run_txn(&srv, kind, layer, Mode::FailAt(k), &cust, secs(30 + i)).await;
        acc.eval();
        if matches!(rep.outcome, Outcome::Committed) {
            // fault absorbed: state legitimately moved on; end the chain here
            acc.count("chain.ended_by_absorbed_fault");
            return Ok(());
        }
        if let Outcome::Panicked(msg) = &rep.outcome {
            // kanidm's copy-on-write cells are poisoned after an unwind through a write
            // transaction: this server cannot continue (the isolated cases judge that situation
            // through the file and a restart)
            acc.count("chain.ended_by_panic_in_kanidm");
            acc.observe("panics_in_kanidm", msg);
            return Ok(());
        }
        if matches!(rep.outcome, Outcome::CommitFailed { .. }) {
            commit_failures += 1;
        }
        let v = observe(&srv, secs(25), Some(&cust)).await?;
        let r = raw_db(file)?;
        let stored = raw_diff(&r0, &r);
        let mem = v0.diff(&v);
        if !stored.is_empty() || !mem.is_empty() {
            let wit = json!({"shape": shape.name, "kind": kind.name(), "layer": layer.name(), "chained_fail_points": ks,
                "outcome": format!("{:?}", rep.outcome), "stored_diff": stored,
                "in_memory_diff": mem.iter().map(|(k, d)| format!("{k}: {d}")).collect::<Vec<_>>()});
            if !stored.is_empty() {
                viol(acc, "c04/stored-data-changed-by-chained-failures", wit.clone());
            }
            for (comp, _) in &mem {
                let word = sig_word(comp);
                let sig = match &rep.outcome {
                    Outcome::CommitFailed { .. } => {
                        format!("c04/in-memory-{word}-published-before-failed-db-commit")
                    }
                    Outcome::OpFailed { .. } => format!("c04/in-memory-{word}-changed-by-failed-operation"),
                    _ => format!("c04/in-memory-{word}-changed-by-failed-begin"),
                };
                viol(acc, &sig, wit.clone());
            }
            return Ok(());
        }
        acc.count("chain.failure_left_no_trace");
    }
    acc.nontrivial(&format!("chain|{}|{}|{}|{:?}", shape.name, kind.name(), layer.name(), ks));
    acc.count_n("chain.commit_failures_total", commit_failures);
    // the retry without fault commits and is visible
    let rep = run_txn(&srv, kind, layer, Mode::Count, &cust, secs(40)).await;
    let v = observe(&srv, secs(25), Some(&cust)).await?;
    match rep.outcome {
        Outcome::Committed if effect_visible(kind, &v) => acc.count("chain.retry_committed_and_visible"),
        o => viol(acc, 
            "c04/retry-after-chained-failures-does-not-commit",
            json!({"shape": shape.name, "kind": kind.name(), "layer": layer.name(), "chained_fail_points": ks,
                   "retry_outcome": format!("{o:?}"), "effect_visible": effect_visible(kind, &v)}),
        ),
    }
    drop(srv);
    Ok(())
}

pub fn run(args: Args) {
    // kanidm's debug assertions may fire under injected faults; keep the output readable
    std::panic::set_hook(Box::new(|info| {
        let loc = info
            .location()
            .map(|l| format!("{}:{}", l.file(), l.line()))
            .unwrap_or_default();
        eprintln!("(panic caught by the harness at {loc})");
    }));
    let mut run = Run::new(
        args.clone(),
        "fault_enumeration",
        "case = (database shape, transaction kind, API layer, fault) with fault = storage error at the k-th storage point of the write transaction for every k in 1..N (N learnt by a counting run; the two transactions that re-index the whole database - schema entry creation, domain level raise - have thousands of points and are sampled: every point of the operation phase, head and tail of the commit phase and an even spread between), or drop-without-commit after b operations for every b; thorough adds chains of 2-4 consecutive failures (incl. failing the retry) on one server. Non-trivial = the fault fired inside the commit phase (after the operations dirtied the transaction), or an abandon; distinct by (shape, kind, layer, k|b)",
    );
    run.assume("storage faults are injected by the verif-hooks storage plan at IdlSqliteWriteTransaction::get_conn / before and after COMMIT; an injected error stands for any sqlite error at that statement");
    run.assume("observation = what fresh read transactions return through public read APIs (entries, RUV range, schema, effective access of a probe identity, domain info, OAuth2 client lookup and keys through the IDM layer, credential-update session table, name index) plus the raw rows of every table of the database file read by an independent read-only sqlite connection");
    run.assume("each isolated case starts from a byte copy of one pristine database; kanidm's start-up (initialise_helper) rewrites change ids of built-in entries, so the restart view compares settings and harness-made entries, while exact storage equality is judged on the raw tables of the running server's file");
    let tier = args.tier;
    let sc = Scratch::new("c04");
    let nshapes = tier.pick(1usize, 2usize);
    let mut pristine = Vec::new();
    let mut pristine_prev = Vec::new();
    for (i, s) in SHAPES.iter().enumerate().take(nshapes) {
        for (level, v) in [
            (DOMAIN_TGT_LEVEL, &mut pristine),
            (DOMAIN_PREVIOUS_TGT_LEVEL, &mut pristine_prev),
        ] {
            match build_pristine(sc.path(), s, i, level) {
                Ok(p) => v.push(p),
                Err(e) => {
                    run.acc
                        .inconclusive(&format!("could not build pristine database: {e}"));
                    drop(sc);
                    run.finish();
                }
            }
        }
    }
    let env = Env {
        pristine,
        pristine_prev,
        dir: sc.path().to_path_buf(),
    };

    // --replay <file>: re-run exactly the case of a recorded witness
    let replay: Option<Json> = args
        .replay
        .as_ref()
        .and_then(|p| kvcore::run::load_replay(p))
        .filter(|w| w["case"]["kind"].is_string());
    if args.replay.is_some() && replay.is_none() {
        println!("replay file has no single case (chained failures are re-derived by a full thorough run)");
    }
    // (shape, kind, layer) combinations
    let mut combos: Vec<(usize, Kind, Layer)> = Vec::new();
    let only: Option<String> = match &replay {
        Some(w) => w["case"]["kind"].as_str().map(|s| s.to_string()),
        None => std::env::var("FS_KINDS").ok(),
    };
    for s in 0..nshapes {
        for k in ALL_KINDS {
            if let Some(o) = &only {
                if !o.split(',').any(|x| x == k.name()) {
                    continue;
                }
            }
            let layers: &[Layer] = if k.idm_only() {
                &[Layer::Idm]
            } else if k == Kind::SchemaAttr {
                // (very long transaction that cannot change any in-memory setting at this
                // domain level: one layer is enough)
                &[Layer::Idm]
            } else if tier == kvcore::Tier::Thorough || matches!(k, Kind::DomainRaise | Kind::AcpChange) {
                &[Layer::Qs, Layer::Idm]
            } else if (k as usize) % 2 == 0 {
                &[Layer::Qs]
            } else {
                &[Layer::Idm]
            };
            for l in layers {
                if let Some(w) = &replay {
                    if w["case"]["layer"] != json!(l.name()) || w["case"]["shape"] != json!(SHAPES[s].name) {
                        continue;
                    }
                }
                combos.push((s, k, *l));
            }
        }
    }

    // phase 1: counting runs (also the positive controls: every kind commits and is visible)
    let counts: Mutex<BTreeMap<(usize, Kind, Layer), (u64, u64, Vec<&'static str>, Option<std::sync::Arc<RawDb>>)>> =
        Mutex::new(BTreeMap::new());
    let workers = args.workers.max(1);
    {
        let env = &env;
        let combos = &combos;
        let counts = &counts;
        run.parallel(workers, |w, n| {
            let mut acc = Acc::new();
            let rt = kvcore::srv::rt();
            let file = env.dir.join(format!("count-{w}.db"));
            for (i, (s, k, l)) in combos.iter().enumerate() {
                if i % n != w {
                    continue;
                }
                let c = Case {
                    shape: *s,
                    kind: *k,
                    layer: *l,
                    mode: Mode::Count,
                    point_kind: "-",
                    in_commit: false,
                    restart: true,
                    expected_after: None,
                };
                let r = catch_unwind(AssertUnwindSafe(|| {
                    rt.block_on(run_case(env, &c, &file, &mut acc))
                }));
                match r {
                    Ok(Ok(rep)) => {
                        if matches!(rep.outcome, Outcome::Committed) {
                            acc.count(&format!("control.commits.{}", k.name()));
                            if let Ok(mut m) = counts.lock() {
                                m.insert((*s, *k, *l), (rep.n_total, rep.n_ops, rep.log.clone(), rep.raw_after.clone()));
                            }
                            acc.sample(json!({"counting_run": case_json(&c), "storage_points": rep.n_total, "of_which_before_commit_call": rep.n_ops}));
                        } else {
                            acc.inconclusive(&format!(
                                "positive control {}:{} did not commit: {:?}",
                                k.name(),
                                l.name(),
                                rep.outcome
                            ));
                        }
                    }
                    Ok(Err(e)) => acc.inconclusive(&format!("counting run {}:{}: {e}", k.name(), l.name())),
                    Err(_) => acc.inconclusive(&format!("panic in counting run {}:{}", k.name(), l.name())),
                }
            }
            acc
        });
    }
    let counts = counts.into_inner().unwrap_or_default();

    if std::env::var("FS_COUNT_ONLY").is_ok() {
        for ((s, k, l), (n, o, log, _)) in &counts {
            let commits = log.iter().filter(|x| **x != "stmt").count();
            println!("{} {} {} N={} ops={} non-stmt={}", SHAPES[*s].name, k.name(), l.name(), n, o, commits);
        }
    }
    // phase 2: every fault point and every abandon boundary
    let mut cases: Vec<Case> = Vec::new();
    let mut sampled: Vec<String> = Vec::new();
    for (s, k, l) in &combos {
        let Some((n, n_ops, log, raw_after)) = counts.get(&(*s, *k, *l)) else {
            continue;
        };
        let cap: u64 = 60;
        let ks: Vec<u64> = if *n <= cap.max(400) {
            (1..=*n).collect()
        } else {
            // very long transactions (a schema change re-indexes the whole database): every point
            // of the operations, the head and the tail of the commit, and an even spread between
            let mut v: std::collections::BTreeSet<u64> = (1..=(*n_ops + 12).min(*n)).collect();
            v.extend((*n - 50)..=*n);
            let rest = cap.saturating_sub(v.len() as u64).max(8);
            for i in 0..rest {
                v.insert(*n_ops + 12 + (i * (*n - 62 - *n_ops)) / rest);
            }
            let v: Vec<u64> = v.into_iter().filter(|x| *x >= 1 && *x <= *n).collect();
            sampled.push(format!(
                "{}:{}:{} {} of {}",
                SHAPES[*s].name,
                k.name(),
                l.name(),
                v.len(),
                n
            ));
            v
        };
        let only_k: Option<u64> = std::env::var("FS_K").ok().and_then(|x| x.parse().ok());
        for kk in ks.into_iter().chain(only_k) {
            if only_k.is_some() && only_k != Some(kk) {
                continue;
            }
            cases.push(Case {
                shape: *s,
                kind: *k,
                layer: *l,
                mode: Mode::FailAt(kk),
                point_kind: log.get(kk as usize - 1).copied().unwrap_or("?"),
                in_commit: kk > *n_ops,
                restart: tier == kvcore::Tier::Thorough || kk % 3 == 0 || kk + 3 > *n,
                expected_after: if k.deterministic() { raw_after.clone() } else { None },
            });
        }
        for b in 0..=k.steps() {
            if *k == Kind::CredCommit && b > 0 && *l == Layer::Qs {
                continue;
            }
            cases.push(Case {
                shape: *s,
                kind: *k,
                layer: *l,
                mode: Mode::Abandon(b),
                point_kind: "-",
                in_commit: false,
                restart: true,
                expected_after: None,
            });
        }
    }
    // deterministic spread of the work
    if std::env::var("FS_CHAIN_ONLY").is_ok() {
        cases.clear();
    }
    if let Some(w) = &replay {
        cases.retain(|c| json!(format!("{:?}", c.mode)) == w["case"]["mode"]);
        if cases.is_empty() {
            // a sampled fault point of a long transaction: add it
            let k = w["case"]["mode"]
                .as_str()
                .and_then(|m| m.strip_prefix("FailAt("))
                .and_then(|m| m.strip_suffix(')'))
                .and_then(|m| m.parse::<u64>().ok());
            if let (Some(k), Some((s, kind, l))) = (k, combos.first()) {
                if let Some((n, n_ops, log, raw_after)) = counts.get(&(*s, *kind, *l)) {
                    if k <= *n {
                        cases.push(Case {
                            shape: *s,
                            kind: *kind,
                            layer: *l,
                            mode: Mode::FailAt(k),
                            point_kind: log.get(k as usize - 1).copied().unwrap_or("?"),
                            in_commit: k > *n_ops,
                            restart: true,
                            expected_after: if kind.deterministic() { raw_after.clone() } else { None },
                        });
                    }
                }
            }
        }
        println!("replaying {} case(s): {}", cases.len(), w["case"]);
    }
    let mut order: Vec<usize> = (0..cases.len()).collect();
    Rng::new(kvcore::rng::mix(args.seed, 4, 4)).shuffle(&mut order);
    run.extra("fault_cases_enumerated", json!(cases.len()));
    run.extra("transactions_with_sampled_fault_points", json!(sampled));
    run.extra(
        "storage_points_per_transaction",
        json!(counts
            .iter()
            .map(|((s, k, l), (n, o, _, _))| json!({"shape": SHAPES[*s].name, "kind": k.name(), "layer": l.name(), "points": n, "before_commit_call": o}))
            .collect::<Vec<_>>()),
    );
    {
        let env = &env;
        let cases = &cases;
        let order = &order;
        run.parallel(workers, |w, n| {
            let mut acc = Acc::new();
            let rt = kvcore::srv::rt();
            let file = env.dir.join(format!("case-{w}.db"));
            for (i, ci) in order.iter().enumerate() {
                if i % n != w {
                    continue;
                }
                let c = &cases[*ci];
                let r = catch_unwind(AssertUnwindSafe(|| {
                    rt.block_on(run_case(env, c, &file, &mut acc))
                }));
                match r {
                    Ok(Ok(_)) => {}
                    Ok(Err(e)) => {
                        acc.count("harness_error");
                        acc.inconclusive(&format!("case {}: {e}", case_json(c)));
                    }
                    Err(p) => {
                        storage_set(StoragePlan::Off);
                        let msg = p
                            .downcast_ref::<String>()
                            .cloned()
                            .or_else(|| p.downcast_ref::<&str>().map(|s| s.to_string()))
                            .unwrap_or_default();
                        acc.count("panic_in_case");
                        acc.sample(json!({"panic": msg, "case": case_json(c)}));
                        acc.inconclusive(&format!("panic during case {}: {msg}", case_json(c)));
                    }
                }
            }
            acc
        });
    }

    // phase 3 (thorough): chained failures
    if tier == kvcore::Tier::Thorough && replay.is_none() {
        let env = &env;
        let counts = &counts;
        let seed = args.seed;
        run.parallel(workers, |w, _n| {
            let mut acc = Acc::new();
            let rt = kvcore::srv::rt();
            let file = env.dir.join(format!("chain-{w}.db"));
            let mut rng = Rng::new(kvcore::rng::mix(seed, w as u64, 44));
            for i in 0..12 {
                let s = i % nshapes;
                let r = catch_unwind(AssertUnwindSafe(|| {
                    rt.block_on(run_chain(env, s, counts, &mut rng, &file, &mut acc))
                }));
                match r {
                    Ok(Ok(())) => acc.count("chain.run"),
                    Ok(Err(e)) => acc.inconclusive(&format!("chain: {e}")),
                    Err(_) => {
                        storage_set(StoragePlan::Off);
                        acc.inconclusive("panic during chained failures");
                    }
                }
            }
            acc
        });
    }

    // thresholds (a replay judges one case only)
    if replay.is_some() {
        drop(env);
        drop(sc);
        run.finish();
    }
    for k in ALL_KINDS {
        let c = run.acc.get(&format!("control.commits.{}", k.name()));
        run.require(c > 0, &format!("transaction kind {} never committed in the counting run", k.name()));
        let failed = run.acc.get(&format!("outcome.{}.failed-db-commit", k.name()))
            + run.acc.get(&format!("outcome.{}.failed-operation", k.name()));
        run.require(failed >= 5, &format!("fewer than 5 injected failures observed for kind {}", k.name()));
        run.require(
            run.acc.get(&format!("outcome.{}.failed-db-commit", k.name())) >= 3,
            &format!("fewer than 3 failures inside the commit of kind {}", k.name()),
        );
        run.require(
            run.acc.get(&format!("outcome.{}.abandoned-transaction", k.name())) >= 1,
            &format!("kind {} never abandoned", k.name()),
        );
    }
    let fired = run.acc.get("fault_fired_txn_failed");
    run.require(fired >= 100, "fewer than 100 injected faults fired");
    let commit_points = run
        .acc
        .sets
        .get("fault_points")
        .map(|s| s.iter().filter(|p| p.contains(":commit@")).count())
        .unwrap_or(0);
    run.require(commit_points > 0, "the fault point right before COMMIT was never exercised");
    if sampled.is_empty() {
        run.exhaustive = Some(true);
    }
    drop(env);
    drop(sc);
    run.finish();
}
