use crate::fx::*;
use kvcore::{Args, Scratch};
use std::time::{Duration, Instant};

pub fn run(_args: Args) {
    let sc = Scratch::new("probe");
    let path = sc.path().join("db.sqlite");
    let rt = kvcore::srv::rt();
    rt.block_on(async {
        let t = Instant::now();
        let srv = open(&path, 8, Some(2048), T0).await.expect("open");
        println!("open fresh: {:?}", t.elapsed());
        let t = Instant::now();
        build_fixture(&srv, T0 + Duration::from_secs(1)).await.expect("fixture");
        println!("fixture: {:?}", t.elapsed());
        let t = Instant::now();
        let o1 = observe(&srv, T0 + Duration::from_secs(2), None).await.expect("obs");
        println!("observe: {:?}", t.elapsed());
        println!("E1 = {}", o1.comp["entries"][u_e(1).to_string()]);
        for (k, v) in &o1.comp {
            if *k != "entries" && *k != "schema" {
                println!("  {k} = {v}");
            }
        }
        drop(srv);
        let t = Instant::now();
        let srv = open(&path, 8, Some(2048), T0 + Duration::from_secs(3)).await.expect("reopen");
        println!("reopen: {:?}", t.elapsed());
        let o2 = observe(&srv, T0 + Duration::from_secs(4), None).await.expect("obs");
        println!("diff after reopen: {:?}", o1.diff(&o2));
        drop(srv);
        let srv = open(&path, 8, Some(2048), T0 + Duration::from_secs(3)).await.expect("reopen");
        let o3 = observe(&srv, T0 + Duration::from_secs(4), None).await.expect("obs");
        println!("diff after 2nd reopen: {:?}", o2.diff(&o3));
    });
    drop(sc);
}
