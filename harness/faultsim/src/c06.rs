//! C06 Read transactions see one consistent committed state.
//!
//! Oracle: version-vector constancy. Writer transaction n stamps n into every component a reader
//! can look at (entries by several access paths, a group's member set and the memberof index, a
//! rename, the domain display name, an access control profile's attribute list, and - for the one
//! transaction that can change it in this tree, the domain level raise - the schema and the domain
//! version). One read transaction records the version it is handed through every public read API,
//! twice. All versions recorded inside one read transaction must be equal.
//!
//! Schedules: reader and writer are separate OS threads; pause points between kanidm's snapshot
//! acquisition steps (reader) and commit publication steps (writer) are used to force every
//! (reader point, writer progress) pair, plus an un-forced stress run.

use crate::fx::*;
use kanidmd_lib::prelude::*;
use kanidmd_lib::schema::SchemaTransaction;
use kanidmd_lib::value::Value;
use kanidmd_lib::verif::{pause, pause_attach, PauseCtl};
use kvcore::{Acc, Args, Rng, Run, Scratch};
use serde_json::{json, Value as Json};
use std::collections::{BTreeMap, BTreeSet};
use std::path::{Path, PathBuf};
use std::sync::atomic::{AtomicBool, AtomicU64, Ordering};
use std::sync::mpsc;
use std::sync::{Arc, Mutex};
use std::time::Duration as StdDuration;

const READER_POINTS: [&str; 10] = [
    "qs_read.after_schema",
    "qs_read.after_cid",
    "arc_read.after_entry_cache",
    "arc_read.after_db",
    "arc_read.after_idl_cache",
    "arc_read.after_name_cache",
    "arc_read.after_idx_exists",
    "arc_read.after_allids",
    "qs_read.after_be",
    // harness level: `QueryServer::read` has returned, no query issued yet
    "harness.read_returned",
];

const WRITER_POINTS: [&str; 16] = [
    // harness level: all operations applied, commit not yet called
    "harness.ops_done",
    "idm_commit.start",
    "idm_commit.after_idm",
    "qs_commit.start",
    "qs_commit.after_cid",
    "be_commit.entry",
    "arc_commit.after_db",
    "arc_commit.after_op_ts_max",
    "arc_commit.after_name_cache",
    "arc_commit.after_idx_exists",
    "arc_commit.after_idl_cache",
    "arc_commit.after_allids",
    "arc_commit.after_maxid",
    "arc_commit.after_keyhandles",
    "arc_commit.done",
    // commit returned
    "done",
];

const MODV: u32 = 32;
const IND: [&str; 5] = ["legalname", "mail", "displayname", "description", "spn"];
const ACP_BASE: [&str; 3] = ["name", "uuid", "class"];

fn secs(n: u64) -> Duration {
    T0 + Duration::from_secs(n)
}

// ===================================================================================
// the writer's stamp

/// Stamp version `n` into everything. `raise`: also raise the domain functional level (the only
/// transaction that changes the in-memory schema and the domain version).
fn stamp(
    w: &mut QueryServerWriteTransaction<'_>,
    n: u32,
    raise: bool,
) -> Result<(), OperationError> {
    let v = format!("v{n}");
    for i in 1..=4 {
        w.internal_modify_uuid(
            u_e(i),
            &ModifyList::new_list(vec![
                kanidmd_lib::modify::m_purge(Attribute::Description),
                kanidmd_lib::modify::m_pres(Attribute::Description, &Value::new_utf8s(&v)),
                kanidmd_lib::modify::m_purge(Attribute::DisplayName),
                kanidmd_lib::modify::m_pres(Attribute::DisplayName, &Value::new_utf8s(&v)),
            ]),
        )?;
    }
    // group member set = binary code of n
    let mut mods = vec![kanidmd_lib::modify::m_purge(Attribute::Member)];
    for i in 0..5 {
        if (n % MODV) & (1 << i) != 0 {
            mods.push(kanidmd_lib::modify::m_pres(
                Attribute::Member,
                &Value::Refer(u_s(i)),
            ));
        }
    }
    w.internal_modify_uuid(U_GV, &ModifyList::new_list(mods))?;
    // rename
    w.internal_modify_uuid(
        U_REN,
        &ModifyList::new_purge_and_set(Attribute::Name, Value::new_iname(&format!("rn{n}"))),
    )?;
    // domain display name
    w.internal_modify_uuid(
        UUID_DOMAIN_INFO,
        &ModifyList::new_purge_and_set(
            Attribute::DomainDisplayName,
            Value::new_utf8s(&format!("dom v{n}")),
        ),
    )?;
    // access control profile: searchable attributes = binary code of n
    let mut mods = vec![kanidmd_lib::modify::m_purge(Attribute::AcpSearchAttr)];
    for a in ACP_BASE {
        mods.push(kanidmd_lib::modify::m_pres(
            Attribute::AcpSearchAttr,
            &Value::new_iutf8(a),
        ));
    }
    for (i, a) in IND.iter().enumerate() {
        if (n % MODV) & (1 << i) != 0 {
            mods.push(kanidmd_lib::modify::m_pres(
                Attribute::AcpSearchAttr,
                &Value::new_iutf8(a),
            ));
        }
    }
    w.internal_modify_uuid(U_ACP, &ModifyList::new_list(mods))?;
    if raise {
        w.domain_raise(DOMAIN_TGT_LEVEL)?;
    }
    Ok(())
}

// ===================================================================================
// the reader's observation

#[derive(Clone, Debug, PartialEq, Eq)]
enum Seen {
    /// version modulo MODV
    V(u32),
    Absent,
    Multiple(Vec<u32>),
    Error(String),
}

impl Seen {
    fn show(&self) -> String {
        match self {
            Seen::V(v) => format!("v{v}"),
            Seen::Absent => "absent".into(),
            Seen::Multiple(s) => format!("matched under several versions {s:?}"),
            Seen::Error(e) => format!("error({e})"),
        }
    }
}

#[derive(Clone, Debug, PartialEq, Eq)]
struct PathObs {
    path: String,
    /// component class used in signatures: schema | acp | dinfo | data
    class: &'static str,
    /// which public call returned this
    call: String,
    seen: Seen,
}

fn parse_v(s: &str, prefix: &str) -> Option<u32> {
    s.strip_prefix(prefix)
        .and_then(|x| x.parse::<u32>().ok())
        .map(|n| n % MODV)
}

fn one_of(found: Vec<u32>) -> Seen {
    match found.len() {
        0 => Seen::Absent,
        1 => Seen::V(found[0] % MODV),
        _ => Seen::Multiple(found),
    }
}

/// Everything one read transaction can be handed, as versions. `cands`: versions (not reduced)
/// that lookups by value are tried with. `with_schema`: also record schema / domain version
/// (only meaningful for the level-raise writer).
fn observe_versions(
    r: &mut QueryServerReadTransaction<'_>,
    cands: &[u32],
    with_schema: bool,
) -> Vec<PathObs> {
    let mut out = Vec::new();
    let mut push = |path: String, class: &'static str, call: String, seen: Seen| {
        out.push(PathObs {
            path,
            class,
            call,
            seen,
        })
    };
    let err = |e: OperationError| Seen::Error(format!("{e:?}"));
    // by uuid
    for i in 1..=4 {
        let seen = match r.internal_search_uuid(u_e(i)) {
            Ok(e) => e
                .get_ava_single_proto_string(Attribute::Description)
                .and_then(|d| parse_v(&d, "v"))
                .map(Seen::V)
                .unwrap_or(Seen::Absent),
            Err(e) => err(e),
        };
        push(
            format!("get.e{i}"),
            "data",
            format!("internal_search_uuid(E{i}).description"),
            seen,
        );
    }
    // by equality index on displayname, and by an unindexed scan on description
    for (label, attr) in [("idx", Attribute::DisplayName), ("scan", Attribute::Description)] {
        let mut per: BTreeMap<u32, Vec<u32>> = BTreeMap::new();
        let mut failed = None;
        for c in cands {
            match r.internal_search(filter!(f_eq(
                attr.clone(),
                PartialValue::new_utf8s(&format!("v{c}"))
            ))) {
                Ok(es) => {
                    for e in es {
                        for i in 1..=4 {
                            if e.get_uuid() == u_e(i) {
                                per.entry(i).or_default().push(*c);
                            }
                        }
                    }
                }
                Err(e) => failed = Some(e),
            }
        }
        for i in 1..=4 {
            let seen = match &failed {
                Some(e) => Seen::Error(format!("{e:?}")),
                None => one_of(per.get(&i).cloned().unwrap_or_default()),
            };
            push(
                format!("{label}.e{i}"),
                "data",
                format!("internal_search({attr} = \"v<c>\") returning E{i}, c over {cands:?}"),
                seen,
            );
        }
    }
    // rename: name index, spn map, the entry itself
    {
        let mut found = Vec::new();
        let mut failed = None;
        for c in cands {
            match r.name_to_uuid(&format!("rn{c}")) {
                Ok(u) if u == U_REN => found.push(*c),
                Ok(_) => {}
                Err(OperationError::NoMatchingEntries) => {}
                Err(e) => failed = Some(e),
            }
        }
        push(
            "name.ren".into(),
            "data",
            format!("name_to_uuid(\"rn<c>\") == REN, c over {cands:?}"),
            failed.map(err).unwrap_or_else(|| one_of(found)),
        );
        let seen = match r.uuid_to_spn(U_REN) {
            Ok(Some(v)) => {
                let s = format!("{v:?}");
                // Spn("rn5", "example.com")
                s.split('"')
                    .find_map(|x| parse_v(x, "rn"))
                    .map(Seen::V)
                    .unwrap_or(Seen::Absent)
            }
            Ok(None) => Seen::Absent,
            Err(e) => err(e),
        };
        push("spn.ren".into(), "data", "uuid_to_spn(REN)".into(), seen);
        let seen = match r.internal_search_uuid(U_REN) {
            Ok(e) => e
                .get_ava_single_proto_string(Attribute::Name)
                .and_then(|d| parse_v(&d, "rn"))
                .map(Seen::V)
                .unwrap_or(Seen::Absent),
            Err(e) => err(e),
        };
        push(
            "get.ren".into(),
            "data",
            "internal_search_uuid(REN).name".into(),
            seen,
        );
    }
    // group membership, forward and reverse
    {
        let seen = match r.internal_search_uuid(U_GV) {
            Ok(e) => {
                let mut n = 0;
                if let Some(m) = e.get_ava_refer(Attribute::Member) {
                    for i in 0..5 {
                        if m.contains(&u_s(i)) {
                            n |= 1 << i;
                        }
                    }
                }
                Seen::V(n)
            }
            Err(e) => err(e),
        };
        push(
            "member.gv".into(),
            "data",
            "internal_search_uuid(GV).member".into(),
            seen,
        );
        let seen = match r.internal_search(filter!(f_eq(
            Attribute::MemberOf,
            PartialValue::Refer(U_GV)
        ))) {
            Ok(es) => {
                let mut n = 0;
                for e in es {
                    for i in 0..5 {
                        if e.get_uuid() == u_s(i) {
                            n |= 1 << i;
                        }
                    }
                }
                Seen::V(n)
            }
            Err(e) => err(e),
        };
        push(
            "memberof.gv".into(),
            "data",
            "internal_search(memberof = GV)".into(),
            seen,
        );
    }
    // domain info
    {
        let d = r.get_domain_display_name().to_string();
        push(
            "dinfo.display".into(),
            "dinfo",
            "get_domain_display_name()".into(),
            if d == "Kanidm example.com" {
                Seen::V(0)
            } else {
                parse_v(&d, "dom v").map(Seen::V).unwrap_or(Seen::Absent)
            },
        );
        if with_schema {
            let dv = r.get_domain_version();
            push(
                "dinfo.version".into(),
                "dinfo",
                "get_domain_version()".into(),
                Seen::V(if dv >= DOMAIN_TGT_LEVEL { 1 } else { 0 }),
            );
            let has = r
                .get_schema()
                .get_classes()
                .keys()
                .any(|k| k.as_str() == "account_signup_request");
            push(
                "schema.class".into(),
                "schema",
                "get_schema().get_classes() contains account_signup_request".into(),
                Seen::V(if has { 1 } else { 0 }),
            );
        }
    }
    // effective access of the probe identity
    {
        let seen = match probe_visible(r) {
            Ok(vis) => {
                let mut n = 0;
                for (i, a) in IND.iter().enumerate() {
                    if vis.contains(*a) {
                        n |= 1 << i;
                    }
                }
                Seen::V(n)
            }
            Err(e) => err(e),
        };
        push(
            "acp.visible".into(),
            "acp",
            "impersonate_search_ext_uuid(TARGET, probe identity) visible attribute set".into(),
            seen,
        );
    }
    out
}

/// signed circular distance of b from a
fn cdiff(a: u32, b: u32) -> i32 {
    let d = (b + MODV - a) % MODV;
    if d >= MODV / 2 {
        d as i32 - MODV as i32
    } else {
        d as i32
    }
}

/// Violations, one witness per signature. Kept outside the per-worker accumulators because the
/// number of distinct (reader point, writer progress, pair) signatures can exceed the
/// accumulator's storage cap; they are handed to the run after all workers finished.
static VIOLATIONS: Mutex<Vec<(String, Json)>> = Mutex::new(Vec::new());

fn store_violation(sig: &str, witness: Json) {
    if let Ok(mut v) = VIOLATIONS.lock() {
        v.push((sig.to_string(), witness));
    }
}

struct Finding {
    /// signature suffix: "<A<B>" | "repeat-read" ...
    kind: &'static str,
    suffix: String,
    explanation: String,
}

/// Judge one read transaction's two passes.
fn judge(p1: &[PathObs], p2: &[PathObs]) -> (Vec<Finding>, u64) {
    let mut findings = Vec::new();
    let mut read_errors = 0;
    // repeat read
    for (a, b) in p1.iter().zip(p2.iter()) {
        if matches!(a.seen, Seen::Error(_)) || matches!(b.seen, Seen::Error(_)) {
            read_errors += 1;
            continue;
        }
        if a.seen != b.seen {
            findings.push(Finding {
                kind: "repeat",
                suffix: a.class.to_string(),
                explanation: format!(
                    "inside one read transaction {} returned {} the first time and {} the second time",
                    a.call,
                    a.seen.show(),
                    b.seen.show()
                ),
            });
        }
    }
    // constancy over all paths of both passes
    let all: Vec<&PathObs> = p1.iter().chain(p2.iter()).collect();
    // every (observation, version) pair; a lookup that matched under several versions counts
    // as an observation of each of them
    let mut obs: Vec<(&PathObs, u32)> = Vec::new();
    for o in &all {
        match &o.seen {
            Seen::V(v) => obs.push((o, *v)),
            Seen::Multiple(vs) => vs.iter().for_each(|v| obs.push((o, *v % MODV))),
            _ => {}
        }
    }
    if let Some(refv) = obs.first().map(|(_, v)| *v) {
        let d = |v: u32| cdiff(refv, v);
        let show = |o: &PathObs| format!("{} returned {}", o.call, o.seen.show());
        // The settings (schema, access controls, domain info) are plain snapshots taken at fixed
        // steps, so which of THEM disagree is a function of the schedule alone; where the data
        // sits relative to them also depends on cache temperature. The pair reported in the
        // signature is therefore chosen among the settings first.
        let data: Vec<&(&PathObs, u32)> = obs.iter().filter(|(o, _)| o.class == "data").collect();
        fn first_of<'a>(
            order: &[&str],
            set: &[&(&'a PathObs, u32)],
            want: i32,
            refv: u32,
        ) -> Option<(&'a PathObs, u32)> {
            order.iter().find_map(|c| {
                set.iter()
                    .find(|(o, v)| o.class == *c && cdiff(refv, *v) == want)
                    .map(|(o, v)| (*o, *v))
            })
        }
        let mut pair: Option<(&PathObs, &PathObs)> = None;
        // first among access controls / domain info / data (observable in every configuration);
        // the schema (observable only with the level-raise writer) is named only when it is the
        // sole component that disagrees
        for with_schema in [false, true] {
            if pair.is_some() {
                break;
            }
            let nondata: Vec<&(&PathObs, u32)> = obs
                .iter()
                .filter(|(o, _)| o.class != "data" && (with_schema || o.class != "schema"))
                .collect();
            let nmin = nondata.iter().map(|(_, v)| d(*v)).min();
            let nmax = nondata.iter().map(|(_, v)| d(*v)).max();
            if let (Some(nmin), Some(nmax)) = (nmin, nmax) {
                if nmin != nmax {
                    let lo = first_of(&["schema", "acp", "dinfo"], &nondata, nmin, refv);
                    let hi = first_of(&["dinfo", "acp", "schema"], &nondata, nmax, refv);
                    if let (Some((l, _)), Some((h, _))) = (lo, hi) {
                        pair = Some((l, h));
                    }
                } else {
                    let x = nmin;
                    let anchor =
                        first_of(&["dinfo", "acp", "schema"], &nondata, x, refv).map(|(o, _)| o);
                    let below = data.iter().find(|(_, v)| d(*v) < x).map(|(o, _)| *o);
                    let above = data.iter().find(|(_, v)| d(*v) > x).map(|(o, _)| *o);
                    if let Some(anchor) = anchor {
                        if let Some(b) = below {
                            pair = Some((b, anchor));
                        } else if let Some(a) = above {
                            pair = Some((anchor, a));
                        }
                    }
                }
            } else if with_schema {
                // no settings observed at all: data against data
                let dmin = data.iter().min_by_key(|(_, v)| d(*v));
                let dmax = data.iter().max_by_key(|(_, v)| d(*v));
                if let (Some((l, lv)), Some((h, hv))) = (dmin, dmax) {
                    if d(*lv) != d(*hv) {
                        pair = Some((*l, *h));
                    }
                }
            }
        }
        if let Some((l, h)) = pair {
            findings.push(Finding {
                kind: "mix",
                suffix: format!("{}<{}", l.class, h.class),
                explanation: format!(
                    "one read transaction was handed different committed versions: {} while {}",
                    show(l),
                    show(h)
                ),
            });
        }
    }
    // lookups that found an always-present object under no version at all
    if findings.iter().all(|f| f.kind != "mix") {
        if let Some(o) = all.iter().find(|o| matches!(o.seen, Seen::Absent)) {
            findings.push(Finding {
                kind: "anomaly",
                suffix: format!("{}-lookup-anomaly", o.class),
                explanation: format!(
                    "an object that exists in every committed state was reported {} by {}",
                    o.seen.show(),
                    o.call
                ),
            });
        }
    }
    (findings, read_errors)
}

fn passes_json(p1: &[PathObs], p2: &[PathObs]) -> Json {
    json!(p1
        .iter()
        .zip(p2.iter())
        .map(|(a, b)| format!("{} [{}]: pass1={} pass2={}", a.path, a.class, a.seen.show(), b.seen.show()))
        .collect::<Vec<_>>())
}

// ===================================================================================
// configurations and servers

#[derive(Clone, Copy, Debug)]
struct Config {
    name: &'static str,
    /// writer raises the domain level (one transaction per server; schema observable)
    raise: bool,
    arcsize: Option<usize>,
    filler: u32,
    /// reopen the server before each scenario (all caches cold)
    cold: bool,
}

const CONFIGS: [Config; 4] = [
    Config {
        name: "level-raise/large-cache",
        raise: true,
        arcsize: Some(4096),
        filler: 0,
        cold: false,
    },
    Config {
        name: "plain/tiny-cache",
        raise: false,
        arcsize: Some(8),
        filler: 150,
        cold: false,
    },
    Config {
        name: "plain/large-cache-warm",
        raise: false,
        arcsize: Some(4096),
        filler: 40,
        cold: false,
    },
    Config {
        name: "plain/large-cache-cold",
        raise: false,
        arcsize: Some(4096),
        filler: 40,
        cold: true,
    },
];

const POOL: u32 = 6;

fn build_pristine(dir: &Path, cfg: &Config, idx: usize) -> Result<PathBuf, String> {
    let p = dir.join(format!("pristine-{idx}.db"));
    let level = if cfg.raise {
        DOMAIN_PREVIOUS_TGT_LEVEL
    } else {
        DOMAIN_TGT_LEVEL
    };
    let rt = kvcore::srv::rt();
    rt.block_on(async {
        let srv = open_level(&p, POOL, cfg.arcsize, secs(0), level).await?;
        build_fixture(&srv, secs(1)).await?;
        build_filler(&srv, secs(2), cfg.filler).await?;
        // version 0 of the ACP code: only the base attributes
        let mut w = srv.qs.write(secs(3)).await.map_err(|e| format!("{e:?}"))?;
        let mut mods = vec![kanidmd_lib::modify::m_purge(Attribute::AcpSearchAttr)];
        for a in ACP_BASE {
            mods.push(kanidmd_lib::modify::m_pres(
                Attribute::AcpSearchAttr,
                &Value::new_iutf8(a),
            ));
        }
        w.internal_modify_uuid(U_ACP, &ModifyList::new_list(mods))
            .map_err(|e| format!("{e:?}"))?;
        w.commit().map_err(|e| format!("{e:?}"))?;
        drop(srv);
        Ok::<(), String>(())
    })?;
    Ok(p)
}

fn open_cfg(file: &Path, cfg: &Config, ct: Duration) -> Result<Arc<Srv>, String> {
    let level = if cfg.raise {
        DOMAIN_PREVIOUS_TGT_LEVEL
    } else {
        DOMAIN_TGT_LEVEL
    };
    let rt = kvcore::srv::rt();
    rt.block_on(open_level(file, POOL, cfg.arcsize, ct, level))
        .map(Arc::new)
}

// ===================================================================================
// one forced interleaving

type Passes = (Vec<PathObs>, Vec<PathObs>);

#[derive(Debug)]
enum Sched {
    /// reader parks at p, writer runs until q, reader finishes, writer finishes
    ReaderFirst { p: &'static str, q: &'static str },
    /// writer parks at q, a whole reader runs, writer finishes
    WriterParked { q: &'static str },
}

impl Sched {
    fn p(&self) -> &'static str {
        match self {
            Sched::ReaderFirst { p, .. } => p,
            Sched::WriterParked { .. } => "whole-read",
        }
    }
    fn q(&self) -> &'static str {
        match self {
            Sched::ReaderFirst { q, .. } | Sched::WriterParked { q } => q,
        }
    }
    fn label(&self) -> String {
        match self {
            Sched::ReaderFirst { p, q } => format!("reader@{p}|writer-runs-to@{q}|reader-finishes"),
            Sched::WriterParked { q } => format!("writer@{q}|whole-reader-runs"),
        }
    }
}

const PARK_TIMEOUT: StdDuration = StdDuration::from_secs(30);
const FINISH_TIMEOUT: StdDuration = StdDuration::from_secs(120);

fn spawn_reader(
    srv: Arc<Srv>,
    ctl: Option<Arc<PauseCtl>>,
    cands: Vec<u32>,
    with_schema: bool,
) -> mpsc::Receiver<Result<Passes, String>> {
    let (tx, rx) = mpsc::channel();
    let _ = std::thread::Builder::new()
        .name("c06-reader".into())
        .stack_size(32 << 20)
        .spawn(move || {
            if let Some(c) = ctl {
                pause_attach(Some((c, "reader")));
            }
            let rt = kvcore::srv::rt();
            let res = rt.block_on(async {
                let mut r = srv.qs.read().await.map_err(|e| format!("read: {e:?}"))?;
                pause("harness.read_returned");
                let a = observe_versions(&mut r, &cands, with_schema);
                let b = observe_versions(&mut r, &cands, with_schema);
                drop(r);
                Ok((a, b))
            });
            pause_attach(None);
            // let go of the server BEFORE reporting: the controller may replace the database
            // file as soon as it has the result
            drop(rt);
            drop(srv);
            let _ = tx.send(res);
        });
    rx
}

fn spawn_writer(
    srv: Arc<Srv>,
    ctl: Option<Arc<PauseCtl>>,
    n: u32,
    raise: bool,
    ct: Duration,
) -> mpsc::Receiver<Result<(), String>> {
    let (tx, rx) = mpsc::channel();
    let _ = std::thread::Builder::new()
        .name("c06-writer".into())
        .stack_size(32 << 20)
        .spawn(move || {
            if let Some(c) = ctl {
                pause_attach(Some((c, "writer")));
            }
            let rt = kvcore::srv::rt();
            let res = rt.block_on(async {
                let mut w = srv
                    .idms
                    .proxy_write(ct)
                    .await
                    .map_err(|e| format!("proxy_write: {e:?}"))?;
                stamp(&mut w.qs_write, n, raise).map_err(|e| format!("stamp: {e:?}"))?;
                pause("harness.ops_done");
                w.commit().map_err(|e| format!("commit: {e:?}"))
            });
            pause_attach(None);
            drop(rt);
            drop(srv);
            let _ = tx.send(res);
        });
    rx
}

fn whole_read(srv: &Arc<Srv>, cands: &[u32], with_schema: bool) -> Result<Passes, String> {
    spawn_reader(srv.clone(), None, cands.to_vec(), with_schema)
        .recv_timeout(FINISH_TIMEOUT)
        .map_err(|_| "reader did not finish".to_string())?
}

/// Drop a server handle and wait until every other thread has let go of it, so that its
/// database file may be replaced. False if some (stuck) thread still holds it.
fn release_server(srv: &mut Option<Arc<Srv>>) -> bool {
    match srv.take() {
        None => true,
        Some(s) => {
            let t0 = std::time::Instant::now();
            while Arc::strong_count(&s) > 1 && t0.elapsed() < StdDuration::from_secs(20) {
                std::thread::sleep(StdDuration::from_millis(2));
            }
            let sole = Arc::strong_count(&s) == 1;
            drop(s);
            sole
        }
    }
}

enum ScenarioEnd {
    Judged,
    /// this pair cannot be scheduled that way (a thread did not reach its point in time)
    Unschedulable(String),
    /// threads may be stuck: the server must not be reused
    Broken(String),
}

/// Run one forced interleaving for writer version `n` on `srv` and judge it.
fn run_scenario(
    srv: &Arc<Srv>,
    cfg: &Config,
    sched: &Sched,
    n: u32,
    acc: &mut Acc,
    seen_sigs: &Mutex<BTreeSet<String>>,
    matrix: &Mutex<BTreeMap<String, String>>,
) -> ScenarioEnd {
    let cands: Vec<u32> = (n.saturating_sub(2)..=n + 1).collect();
    let ct = secs(100 + n as u64);
    let ctl_r = PauseCtl::new();
    let ctl_w = PauseCtl::new();
    let writer_done_point = sched.q() == "done";
    let mut reader_rx = None;
    // 1. reader first?
    if let Sched::ReaderFirst { p, .. } = sched {
        ctl_r.arm("reader", p);
        reader_rx = Some(spawn_reader(
            srv.clone(),
            Some(ctl_r.clone()),
            cands.clone(),
            cfg.raise,
        ));
        if !ctl_r.wait_parked(PARK_TIMEOUT) {
            ctl_r.release();
            let fin = reader_rx.take().map(|rx| rx.recv_timeout(FINISH_TIMEOUT).is_ok());
            return if fin == Some(true) {
                ScenarioEnd::Unschedulable(format!("reader never parked at {p}"))
            } else {
                ScenarioEnd::Broken(format!("reader neither parked at {p} nor finished"))
            };
        }
    }
    // 2. writer runs to q
    if !writer_done_point {
        ctl_w.arm("writer", sched.q());
    }
    let writer_rx = spawn_writer(srv.clone(), Some(ctl_w.clone()), n, cfg.raise, ct);
    let mut writer_result: Option<Result<(), String>> = None;
    if writer_done_point {
        match writer_rx.recv_timeout(FINISH_TIMEOUT) {
            Ok(r) => writer_result = Some(r),
            Err(_) => {
                ctl_r.release();
                return ScenarioEnd::Broken(
                    "writer could not complete while the reader was parked".into(),
                );
            }
        }
    } else if !ctl_w.wait_parked(PARK_TIMEOUT) {
        // not reached: let everything finish
        ctl_w.release();
        ctl_r.release();
        let wf = writer_rx.recv_timeout(FINISH_TIMEOUT).is_ok();
        let rf = reader_rx
            .take()
            .map(|rx| rx.recv_timeout(FINISH_TIMEOUT).is_ok())
            .unwrap_or(true);
        return if wf && rf {
            ScenarioEnd::Unschedulable(format!("writer never parked at {}", sched.q()))
        } else {
            ScenarioEnd::Broken(format!("writer did not reach {} and threads did not finish", sched.q()))
        };
    }
    // 3. the reader finishes its observations while the writer is still parked
    let passes = match sched {
        Sched::ReaderFirst { .. } => {
            ctl_r.release();
            match reader_rx.take().map(|rx| rx.recv_timeout(FINISH_TIMEOUT)) {
                Some(Ok(r)) => r,
                _ => {
                    ctl_w.release();
                    return ScenarioEnd::Broken(
                        "reader could not finish while the writer was parked".into(),
                    );
                }
            }
        }
        Sched::WriterParked { .. } => whole_read(srv, &cands, cfg.raise),
    };
    // 4. the writer finishes
    if writer_result.is_none() {
        ctl_w.release();
        match writer_rx.recv_timeout(FINISH_TIMEOUT) {
            Ok(r) => writer_result = Some(r),
            Err(_) => return ScenarioEnd::Broken("writer did not finish after release".into()),
        }
    }
    match &writer_result {
        Some(Ok(())) => acc.count("writer.committed"),
        other => {
            acc.count("writer.failed");
            return ScenarioEnd::Broken(format!("writer transaction failed: {other:?}"));
        }
    }
    let (p1, p2) = match passes {
        Ok(x) => x,
        Err(e) => return ScenarioEnd::Broken(format!("reader failed: {e}")),
    };
    acc.eval();
    acc.observe("interleavings", &sched.label());
    if acc.samples.len() < 4 {
        acc.sample(json!({"configuration": cfg.name, "schedule": sched.label(), "reader_pass_1": format!("{:?}", p1.iter().take(6).collect::<Vec<_>>())}));
    }
    acc.count("interleavings_executed");
    if sched.q() != "harness.ops_done" {
        acc.nontrivial(&format!("{}|{}", cfg.name, sched.label()));
    }
    let (findings, read_errors) = judge(&p1, &p2);
    acc.count_n("read_api_errors_not_judged", read_errors);
    {
        let cell = if findings.is_empty() {
            let v = p1.iter().find_map(|o| match o.seen {
                Seen::V(v) => Some(v),
                _ => None,
            });
            if v == Some(n % MODV) { "new".to_string() } else { "old".to_string() }
        } else {
            findings.iter().map(|f| if f.kind == "repeat" { format!("repeat:{}", f.suffix) } else { f.suffix.clone() }).collect::<Vec<_>>().join(",")
        };
        if let Ok(mut m) = matrix.lock() {
            m.insert(format!("{} | {} | {}", cfg.name, sched.q(), sched.p()), cell);
        }
    }
    if findings.is_empty() {
        acc.count("reader.consistent");
        let v = p1.iter().find_map(|o| match o.seen {
            Seen::V(v) => Some(v),
            _ => None,
        });
        acc.count(if v == Some(n % MODV) {
            "reader.consistent.saw_new"
        } else {
            "reader.consistent.saw_old"
        });
    }
    let trace_r: Vec<String> = ctl_r.trace().iter().map(|(_, p)| p.to_string()).collect();
    let trace_w: Vec<String> = ctl_w.trace().iter().map(|(_, p)| p.to_string()).collect();
    for f in findings {
        let sig = match f.kind {
            "repeat" => format!("c06/repeat-read-differs/{}/{}/{}", sched.p(), sched.q(), f.suffix),
            _ => format!("c06/{}/{}/{}", sched.p(), sched.q(), f.suffix),
        };
        acc.count("reader.inconsistent");
        acc.count(&format!("violations.{}", if f.kind == "repeat" { "repeat-read" } else { "mixed-versions" }));
        acc.observe("violating_interleavings", &format!("{} => {}", sched.label(), f.suffix));
        let fresh = seen_sigs.lock().map(|mut s| s.insert(sig.clone())).unwrap_or(true);
        if fresh {
            store_violation(
                &sig,
                json!({
                    "config": cfg.name,
                    "schedule": sched.label(),
                    "writer_transaction": format!("version {n} (previous committed version {})", n - 1),
                    "explanation": f.explanation,
                    "all_observations_of_the_read_transaction": passes_json(&p1, &p2),
                    "reader_pause_trace": trace_r,
                    "writer_pause_trace": trace_w,
                    "note": "versions are shown modulo 32; every value listed was returned to the reader by the named public read API inside ONE read transaction",
                }),
            );
        } else {
            acc.count("violation_witnesses_not_stored_duplicate_signature");
        }
    }
    // 5. quiescent control: a fresh reader must now see version n everywhere
    match whole_read(srv, &cands, cfg.raise) {
        Ok((a, b)) => {
            let (f, _) = judge(&a, &b);
            let all_new = a.iter().chain(b.iter()).all(|o| o.seen == Seen::V(n % MODV) || (cfg.raise && o.seen == Seen::V(1)));
            if f.is_empty() && all_new {
                acc.count("control.quiescent_reader_sees_new_version_everywhere");
            } else {
                let sig = "c06/quiescent/after-commit/not-uniformly-new".to_string();
                let fresh = seen_sigs.lock().map(|mut s| s.insert(sig.clone())).unwrap_or(true);
                if fresh {
                    store_violation(
                        &sig,
                        json!({"config": cfg.name, "after_schedule": sched.label(), "expected_version": n % MODV,
                               "observations": passes_json(&a, &b),
                               "explanation": "with no transaction in flight a fresh read transaction does not see the last committed version through every path"}),
                    );
                }
            }
        }
        Err(e) => return ScenarioEnd::Broken(format!("control reader failed: {e}")),
    }
    ScenarioEnd::Judged
}

fn all_schedules() -> Vec<Sched> {
    let mut v = Vec::new();
    for q in WRITER_POINTS {
        v.push(Sched::WriterParked { q });
        for p in READER_POINTS {
            v.push(Sched::ReaderFirst { p, q });
        }
    }
    v
}

// ===================================================================================
// un-forced stress

fn stress(
    srv: &Arc<Srv>,
    cfg: &Config,
    readers: usize,
    wall: StdDuration,
    start_n: u32,
    seed: u64,
    acc: &mut Acc,
    seen_sigs: &Mutex<BTreeSet<String>>,
) {
    let stop = Arc::new(AtomicBool::new(false));
    let latest = Arc::new(AtomicU64::new(start_n as u64));
    let mut hs = Vec::new();
    let cfgc = *cfg;
    for ri in 0..readers {
        let srv = srv.clone();
        let stop = stop.clone();
        let latest = latest.clone();
        hs.push(std::thread::spawn(move || {
            let mut acc = Acc::new();
            let mut out: Vec<(Vec<Finding>, Passes)> = Vec::new();
            let rt = kvcore::srv::rt();
            let mut rng = Rng::new(kvcore::rng::mix(seed, ri as u64, 66));
            while !stop.load(Ordering::Relaxed) {
                let l = latest.load(Ordering::Relaxed) as u32;
                let cands: Vec<u32> = (l.saturating_sub(3)..=l + 3).collect();
                let res: Result<Passes, String> = rt.block_on(async {
                    let mut r = srv.qs.read().await.map_err(|e| format!("{e:?}"))?;
                    if rng.chance(1, 3) {
                        std::thread::yield_now();
                    }
                    let a = observe_versions(&mut r, &cands, cfgc.raise);
                    let b = observe_versions(&mut r, &cands, cfgc.raise);
                    Ok((a, b))
                });
                match res {
                    Ok((a, b)) => {
                        acc.eval();
                        acc.count("stress.read_transactions");
                        let (mut f, e) = judge(&a, &b);
                        acc.count_n("read_api_errors_not_judged", e);
                        // a lookup by value can miss only because the candidate window moved
                        // on; under stress that alone is not judged
                        f.retain(|x| x.kind != "anomaly");
                        if f.is_empty() {
                            acc.count("stress.consistent");
                        } else if out.len() < 40 {
                            out.push((f, (a, b)));
                        } else {
                            acc.count("stress.inconsistent_not_stored");
                        }
                    }
                    Err(_) => acc.count("stress.read_begin_failed"),
                }
            }
            (acc, out)
        }));
    }
    // the writer, on this thread
    {
        let rt = kvcore::srv::rt();
        let t0 = std::time::Instant::now();
        let mut n = start_n;
        while t0.elapsed() < wall {
            n += 1;
            let r: Result<(), String> = rt.block_on(async {
                let mut w = srv
                    .idms
                    .proxy_write(secs(10_000 + n as u64))
                    .await
                    .map_err(|e| format!("{e:?}"))?;
                stamp(&mut w.qs_write, n, false).map_err(|e| format!("{e:?}"))?;
                w.commit().map_err(|e| format!("{e:?}"))
            });
            match r {
                Ok(()) => {
                    latest.store(n as u64, Ordering::Relaxed);
                    acc.count("stress.writer_commits");
                }
                Err(e) => {
                    acc.count("stress.writer_failed");
                    acc.sample(json!({"stress_writer_error": e}));
                    n -= 1;
                }
            }
        }
    }
    stop.store(true, Ordering::Relaxed);
    for h in hs {
        if let Ok((a, out)) = h.join() {
            acc.merge(a);
            for (fs, (p1, p2)) in out {
                for f in fs {
                    // one stable signature: which pair disagrees first is a matter of timing
                    // here; the forced matrix carries the fine-grained cause classes
                    let sig = match f.kind {
                        "repeat" => format!("c06/repeat-read-differs/unforced/stress/{}", f.suffix),
                        _ => "c06/unforced/stress/mixed-versions".to_string(),
                    };
                    acc.observe("stress_disagreeing_pairs", &f.suffix);
                    acc.count("stress.inconsistent");
                    acc.observe("violating_interleavings", &format!("unforced stress => {}", f.suffix));
                    let fresh = seen_sigs.lock().map(|mut s| s.insert(sig.clone())).unwrap_or(true);
                    if fresh {
                        store_violation(
                            &sig,
                            json!({"config": cfg.name, "schedule": format!("un-forced: {readers} reader threads against one committing writer"),
                                   "explanation": f.explanation,
                                   "all_observations_of_the_read_transaction": passes_json(&p1, &p2),
                                   "note": "versions are shown modulo 32"}),
                        );
                    }
                }
            }
        }
    }
}

// ===================================================================================

pub fn run(args: Args) {
    let mut run = Run::new(
        args.clone(),
        "exploration",
        "case = one read transaction observed under a schedule: forced schedules are all pairs (reader pause point p of 10, writer progress q of 16) with the reader parked at p while the writer runs to q and the reader then finishing, plus for every q a whole reader while the writer is parked at q, on each server configuration (writer = level raise with schema change / plain stamps; cache small, large-warm, large-cold); then an un-forced stress of N reader threads against one writer. Non-trivial = the writer's commit overlaps the reader's transaction (q beyond 'operations done'); distinct by (configuration, schedule)",
    );
    run.assume("pause points sit between existing snapshot-acquisition / publication steps, never inside a lock, so every forced schedule is one that real threads can produce");
    run.assume("the oracle judges only values returned to the reader by public read APIs inside one read transaction; versions are compared modulo 32");
    run.assume("the forced matrix is exhaustive over hook points, not over hardware schedules");
    let tier = args.tier;
    let sc = Scratch::new("c06");
    let dir = sc.path().to_path_buf();
    // --replay <file>: re-run exactly the configuration and schedule of a recorded witness
    let replay: Option<Json> = args
        .replay
        .as_ref()
        .and_then(|p| kvcore::run::load_replay(p))
        .filter(|w| w["schedule"].is_string());
    let replay_stress = replay
        .as_ref()
        .map(|w| w["schedule"].as_str().unwrap_or("").starts_with("un-forced"))
        .unwrap_or(false);
    let cfg_ids: Vec<usize> = match &replay {
        Some(w) => (0..CONFIGS.len())
            .filter(|i| json!(CONFIGS[*i].name) == w["config"])
            .collect(),
        None => tier.pick(vec![0usize, 1], vec![0, 1, 2, 3]),
    };
    let mut pristine: BTreeMap<usize, PathBuf> = BTreeMap::new();
    for i in &cfg_ids {
        match build_pristine(&dir, &CONFIGS[*i], *i) {
            Ok(p) => {
                pristine.insert(*i, p);
            }
            Err(e) => {
                run.acc.inconclusive(&format!("pristine database: {e}"));
                drop(sc);
                run.finish();
            }
        }
    }
    let seen_sigs: Mutex<BTreeSet<String>> = Mutex::new(BTreeSet::new());
    let matrix: Mutex<BTreeMap<String, String>> = Mutex::new(BTreeMap::new());
    // jobs: (config, chunk of schedules)
    let mut scheds = all_schedules();
    if let Some(w) = &replay {
        scheds.retain(|s| json!(s.label()) == w["schedule"]);
        println!("replaying {} schedule(s) on {:?}: {}", scheds.len(), cfg_ids, w["schedule"]);
    }
    run.extra("forced_schedules_per_configuration", json!(scheds.len()));
    let mut jobs: Vec<(usize, Vec<usize>)> = Vec::new();
    for ci in &cfg_ids {
        // the level-raise writer needs a fresh server per scenario anyway: small chunks
        let chunk = if CONFIGS[*ci].raise { 6 } else { 22 };
        let idx: Vec<usize> = (0..scheds.len()).collect();
        for c in idx.chunks(chunk) {
            jobs.push((*ci, c.to_vec()));
        }
    }
    {
        let jobs = &jobs;
        let scheds = &scheds;
        let pristine = &pristine;
        let dir = &dir;
        let seen = &seen_sigs;
        let matrix = &matrix;
        run.parallel(args.workers, |w, nw| {
            let mut acc = Acc::new();
            for (ji, (ci, idxs)) in jobs.iter().enumerate() {
                if ji % nw != w {
                    continue;
                }
                let cfg = &CONFIGS[*ci];
                let mut generation = 0;
                let mut file = dir.join(format!("f-{w}-{ji}-{generation}.db"));
                let mut srv: Option<Arc<Srv>> = None;
                let mut n: u32 = 0;
                for si in idxs {
                    let sched = &scheds[*si];
                    // a fresh server when needed
                    if srv.is_none() || cfg.raise {
                        if !release_server(&mut srv) {
                            // a stuck thread still has the old file open: leave it alone
                            generation += 1;
                            file = dir.join(format!("f-{w}-{ji}-{generation}.db"));
                            acc.count("server_handle_still_held_by_a_thread");
                        }
                        if let Err(e) = copy_db(&pristine[ci], &file) {
                            acc.inconclusive(&format!("copy: {e:?}"));
                            break;
                        }
                        n = 0;
                    }
                    if srv.is_none() || cfg.cold {
                        // drop all handles before reopening
                        if !release_server(&mut srv) {
                            acc.count("server_handle_still_held_by_a_thread");
                            acc.inconclusive("a thread still holds the server that should be reopened");
                            break;
                        }
                        match open_cfg(&file, cfg, secs(50)) {
                            Ok(s) => srv = Some(s),
                            Err(e) => {
                                acc.inconclusive(&format!("open: {e}"));
                                break;
                            }
                        }
                    }
                    let Some(s) = srv.clone() else { break };
                    if !cfg.cold {
                        // warm the caches through the same paths the reader will use
                        let c: Vec<u32> = (n.saturating_sub(1)..=n + 1).collect();
                        let _ = whole_read(&s, &c, cfg.raise);
                        let _ = whole_read(&s, &c, cfg.raise);
                    }
                    n += 1;
                    match run_scenario(&s, cfg, sched, n, &mut acc, seen, matrix) {
                        ScenarioEnd::Judged => {}
                        ScenarioEnd::Unschedulable(why) => {
                            acc.count("unschedulable_pairs");
                            acc.observe("unschedulable", &format!("{}: {why}", sched.label()));
                            // the writer may or may not have committed; start over
                            drop(s);
                            if !release_server(&mut srv) {
                                generation += 1;
                                file = dir.join(format!("f-{w}-{ji}-{generation}.db"));
                            }
                        }
                        ScenarioEnd::Broken(why) => {
                            acc.count("scenario_broken");
                            acc.inconclusive(&format!("{} / {}: {why}", cfg.name, sched.label()));
                            drop(s);
                            if !release_server(&mut srv) {
                                generation += 1;
                                file = dir.join(format!("f-{w}-{ji}-{generation}.db"));
                            }
                        }
                    }
                }
                if release_server(&mut srv) {
                    for p in db_files(&file) {
                        let _ = std::fs::remove_file(p);
                    }
                }
            }
            acc
        });
    }
    // stress
    if (replay.is_none() || replay_stress) && pristine.contains_key(&1) {
        let ci = 1usize; // plain writer, tiny cache
        let cfg = CONFIGS[ci];
        let wall = StdDuration::from_secs(tier.pick(4, 60));
        let readers = tier.pick(6usize, 12usize).min(args.workers.max(2));
        let file = dir.join("stress.db");
        let mut acc = Acc::new();
        match copy_db(&pristine[&ci], &file)
            .map_err(|e| format!("{e:?}"))
            .and_then(|_| {
                let rt = kvcore::srv::rt();
                rt.block_on(open_level(&file, (readers + 3) as u32, cfg.arcsize, secs(50), DOMAIN_TGT_LEVEL))
                    .map(Arc::new)
            }) {
            Ok(srv) => {
                stress(&srv, &cfg, readers, wall, 0, args.seed, &mut acc, &seen_sigs);
                drop(srv);
            }
            Err(e) => acc.inconclusive(&format!("stress server: {e}")),
        }
        run.acc.merge(acc);
        run.extra("stress", json!({"reader_threads": readers, "wall_seconds": wall.as_secs(), "config": cfg.name}));
    }

    if let Ok(mut v) = VIOLATIONS.lock() {
        v.sort_by(|a, b| a.0.cmp(&b.0));
        for (sig, witness) in v.drain(..) {
            run.acc.violations.push(kvcore::run::Violation {
                signature: sig,
                detail: witness,
            });
        }
    }
    run.extra(
        "forced_matrix (configuration | writer progress | reader point -> what the reader saw)",
        json!(matrix.lock().map(|m| m.clone()).unwrap_or_default()),
    );
    // thresholds (a replay judges one schedule only)
    if replay.is_some() {
        drop(sc);
        run.finish();
    }
    let executed = run.acc.get("interleavings_executed");
    let expected = (scheds.len() * cfg_ids.len()) as u64;
    run.extra("forced_schedules_expected", json!(expected));
    run.require(
        executed + run.acc.get("unschedulable_pairs") >= expected,
        &format!("only {executed} of {expected} forced interleavings were executed"),
    );
    run.require(
        executed * 10 >= expected * 8,
        "more than 20% of the forced interleavings could not be scheduled",
    );
    run.require(
        run.acc.get("control.quiescent_reader_sees_new_version_everywhere") >= executed / 2,
        "the quiescent control (fresh reader sees the committed version through every path) passed too rarely",
    );
    run.require(run.acc.get("reader.consistent.saw_old") > 0, "no forced reader saw the old version consistently");
    run.require(run.acc.get("reader.consistent.saw_new") > 0, "no forced reader saw the new version consistently");
    run.require(run.acc.get("stress.writer_commits") >= 10, "stress writer committed fewer than 10 transactions");
    run.require(run.acc.get("stress.read_transactions") >= 100, "stress readers completed fewer than 100 read transactions");
    let distinct = run.acc.sets.get("interleavings").map(|s| s.len()).unwrap_or(0);
    run.require(distinct >= scheds.len() * 8 / 10, "too few distinct interleavings observed");
    if run.acc.get("unschedulable_pairs") == 0 && run.acc.get("scenario_broken") == 0 {
        // exhaustive over the hook-point matrix only
        run.exhaustive = Some(true);
    }
    drop(sc);
    run.finish();
}
