//! C05 A crash at any point recovers to the before or after state.
//!
//! Oracle: for a write transaction T on a database file F, the parent computes BEFORE (an
//! identical copy of F on which a child process only started the server) and AFTER (an identical
//! copy on which a child ran T to completion). A third child runs T and is killed at crash point
//! k (process abort at the k-th storage point; thorough: SIGKILL at entry of its N-th
//! pwrite64 / fdatasync). The parent then reads every table of the crashed file (sqlite recovers
//! its WAL) - it must equal BEFORE or AFTER exactly -, starts a normal server on it - its dump must
//! equal the dump of a normal start on the matching twin -, commits one more transaction whose
//! change id must be greater than every change id in the dump, and runs `QueryServer::verify`.

use crate::fx::*;
use kanidmd_lib::prelude::*;
use kanidmd_lib::value::Value;
use kanidmd_lib::verif::{storage_count, storage_log, storage_set, StoragePlan};
use kvcore::{Acc, Args, Rng, Run, Scratch};
use serde_json::{json, Value as Json};
use std::os::unix::process::ExitStatusExt;
use std::path::{Path, PathBuf};
use std::process::{Command, Stdio};
use std::sync::Mutex;

#[derive(Clone, Copy, Debug, PartialEq, Eq, PartialOrd, Ord)]
pub enum Txn {
    Create,
    Rename,
    Delete,
    Purge,
    SchemaReindex,
    /// a consumer applies the incremental changes of a supplier
    ReplApply,
}

const ALL_TXNS: [Txn; 6] = [
    Txn::Create,
    Txn::Rename,
    Txn::Delete,
    Txn::Purge,
    Txn::SchemaReindex,
    Txn::ReplApply,
];

impl Txn {
    fn name(&self) -> &'static str {
        match self {
            Txn::Create => "create-with-indexes",
            Txn::Rename => "rename",
            Txn::Delete => "delete-to-recycle",
            Txn::Purge => "purge-recycled",
            Txn::SchemaReindex => "schema-change-with-reindex",
            Txn::ReplApply => "replication-apply",
        }
    }
    fn from_name(s: &str) -> Option<Txn> {
        ALL_TXNS.iter().copied().find(|t| t.name() == s)
    }
    fn level(&self) -> u32 {
        match self {
            Txn::SchemaReindex => DOMAIN_PREVIOUS_TGT_LEVEL,
            _ => DOMAIN_TGT_LEVEL,
        }
    }
    /// simulated time of the transaction
    fn ct(&self) -> Duration {
        match self {
            // a recycled entry becomes purgeable after RECYCLEBIN_MAX_AGE (7 days)
            Txn::Purge => T0 + Duration::from_secs(8 * 86400),
            _ => T0 + Duration::from_secs(30),
        }
    }
}

const POOL: u32 = 4;
const U_PURGE: Uuid = fu(40);

fn secs(n: u64) -> Duration {
    T0 + Duration::from_secs(n)
}

fn apply(txn: Txn, w: &mut QueryServerWriteTransaction<'_>) -> Result<(), OperationError> {
    match txn {
        Txn::Create => {
            let mut es = Vec::new();
            for i in 0..3u32 {
                let mut e = person(fu(50 + i), &format!("fs_crash_new{i}"), "crash create");
                e.add_ava(
                    Attribute::Mail,
                    Value::new_email_address_primary_s(&format!("crash{i}@example.com"))
                        .ok_or(OperationError::InvalidState)?,
                );
                es.push(e);
            }
            es.push(group(fu(60), "fs_crash_group", &[fu(50), fu(51), U_PROBE]));
            w.internal_create(es)
        }
        Txn::Rename => w.internal_modify_uuid(
            U_MOD,
            &ModifyList::new_purge_and_set(Attribute::Name, Value::new_iname("fs_mod_renamed")),
        ),
        Txn::Delete => w.internal_delete_uuid(U_DEL),
        Txn::Purge => w.purge_recycled().map(|_| ()),
        Txn::SchemaReindex => w.domain_raise(DOMAIN_TGT_LEVEL),
        // needs the supplier: handled by the child itself
        Txn::ReplApply => Err(OperationError::InvalidState),
    }
}

// ===================================================================================
// the child process

fn marker_syscall() {
    // visible to strace as `fdatasync(-1) = -1 EBADF`; delimits the transaction in the log
    unsafe {
        libc::fdatasync(-1);
    }
}

/// `faultsim C05CHILD '<json spec>'`
pub fn child(args: Args) -> ! {
    let spec: Json = args
        .rest
        .first()
        .and_then(|s| serde_json::from_str(s).ok())
        .unwrap_or(Json::Null);
    let path = PathBuf::from(spec["path"].as_str().unwrap_or(""));
    let mode = spec["mode"].as_str().unwrap_or("");
    let txn = Txn::from_name(spec["txn"].as_str().unwrap_or(""));
    let arcsize = spec["arcsize"].as_u64().map(|x| x as usize);
    let k = spec["k"].as_u64().unwrap_or(0);
    let (Some(txn), false) = (txn, path.as_os_str().is_empty()) else {
        eprintln!("bad child spec");
        std::process::exit(3);
    };
    let rt = kvcore::srv::rt();
    let code = rt.block_on(async {
        let srv = match open_level(&path, POOL, arcsize, secs(10), txn.level()).await {
            Ok(s) => s,
            Err(e) => {
                eprintln!("child open: {e}");
                return 4;
            }
        };
        // the supplier of the replication transaction lives in a second file
        let supplier = if txn == Txn::ReplApply {
            let p2 = PathBuf::from(spec["path2"].as_str().unwrap_or(""));
            match open_level(&p2, POOL, arcsize, secs(10), txn.level()).await {
                Ok(s) => Some(s),
                Err(e) => {
                    eprintln!("child open supplier: {e}");
                    return 4;
                }
            }
        } else {
            None
        };
        if mode == "open-only" {
            drop(srv);
            return 0;
        }
        marker_syscall();
        storage_set(match mode {
            "abort" => StoragePlan::AbortAt(k),
            _ => StoragePlan::Count,
        });
        let mut w = match srv.qs.write(txn.ct()).await {
            Ok(w) => w,
            Err(e) => {
                eprintln!("child write: {e:?}");
                return 5;
            }
        };
        let applied = match &supplier {
            None => apply(txn, &mut w),
            Some(sup) => async {
                let mut sr = sup.qs.read().await?;
                let ruv = w.consumer_get_state()?;
                let ctx = sr.supplier_provide_changes(ruv)?;
                if !matches!(
                    ctx,
                    kanidmd_lib::repl::proto::ReplIncrementalContext::V1 { .. }
                ) {
                    eprintln!("child: supplier did not provide incremental changes");
                    return Err(OperationError::InvalidState);
                }
                match w.consumer_apply_changes(ctx)? {
                    kanidmd_lib::repl::proto::ConsumerState::Ok => Ok(()),
                    kanidmd_lib::repl::proto::ConsumerState::RefreshRequired => {
                        eprintln!("child: consumer demands a refresh");
                        Err(OperationError::InvalidState)
                    }
                }
            }
            .await,
        };
        if let Err(e) = applied {
            eprintln!("child op: {e:?}");
            return 6;
        }
        let n_ops = storage_count();
        if let Err(e) = w.commit() {
            eprintln!("child commit: {e:?}");
            return 7;
        }
        let n = storage_count();
        let log = storage_log();
        storage_set(StoragePlan::Off);
        marker_syscall();
        println!(
            "CHILD {}",
            json!({"n": n, "n_ops": n_ops, "tail": log.iter().rev().take(3).rev().collect::<Vec<_>>()})
        );
        drop(srv);
        0
    });
    std::process::exit(code);
}

// ===================================================================================
// the parent

#[derive(Debug)]
struct ChildResult {
    code: Option<i32>,
    signal: Option<i32>,
    report: Option<Json>,
    stderr: String,
}

fn spawn_child(spec: &Json, strace: Option<&[String]>) -> Result<ChildResult, String> {
    let exe = std::env::current_exe().map_err(|e| format!("current_exe: {e:?}"))?;
    let mut cmd = match strace {
        Some(sa) => {
            let mut c = Command::new("strace");
            c.args(sa);
            c.arg(&exe);
            c
        }
        None => Command::new(&exe),
    };
    cmd.arg("C05CHILD")
        .arg(spec.to_string())
        .env("RUST_LOG", "off")
        .env("RUST_BACKTRACE", "0")
        .stdin(Stdio::null())
        .stdout(Stdio::piped())
        .stderr(Stdio::piped());
    let out = cmd.output().map_err(|e| format!("spawn: {e:?}"))?;
    let stdout = String::from_utf8_lossy(&out.stdout);
    let report = stdout
        .lines()
        .find_map(|l| l.strip_prefix("CHILD "))
        .and_then(|j| serde_json::from_str(j).ok());
    let mut stderr = String::from_utf8_lossy(&out.stderr).to_string();
    if stderr.len() > 600 {
        stderr.truncate(600);
    }
    Ok(ChildResult {
        code: out.status.code(),
        signal: out.status.signal(),
        report,
        stderr,
    })
}

#[derive(Clone, Copy, Debug)]
struct Shape {
    name: &'static str,
    filler: u32,
    arcsize: Option<usize>,
}

const SHAPES: [Shape; 2] = [
    Shape {
        name: "small",
        filler: 0,
        arcsize: Some(2048),
    },
    Shape {
        name: "filled-tinycache",
        filler: 150,
        arcsize: Some(8),
    },
];

fn build_pristine(dir: &Path, shape: &Shape, idx: usize, level: u32) -> Result<PathBuf, String> {
    let p = dir.join(format!("pristine-{idx}-l{level}.db"));
    let rt = kvcore::srv::rt();
    rt.block_on(async {
        let srv = open_level(&p, POOL, shape.arcsize, secs(0), level).await?;
        build_fixture(&srv, secs(1)).await?;
        build_filler(&srv, secs(2), shape.filler).await?;
        // an entry that sits in the recycle bin, for the purge transaction
        let mut w = srv.qs.write(secs(3)).await.map_err(|e| format!("{e:?}"))?;
        w.internal_create(vec![person(U_PURGE, "fs_purge", "to be purged")])
            .map_err(|e| format!("{e:?}"))?;
        w.commit().map_err(|e| format!("{e:?}"))?;
        let mut w = srv.qs.write(secs(4)).await.map_err(|e| format!("{e:?}"))?;
        w.internal_delete_uuid(U_PURGE).map_err(|e| format!("{e:?}"))?;
        w.commit().map_err(|e| format!("{e:?}"))?;
        drop(srv);
        Ok::<(), String>(())
    })?;
    Ok(p)
}

/// A supplier / consumer pair of one domain: the consumer was refreshed from the supplier, then
/// the supplier committed more changes. Returns (consumer file, supplier file).
fn build_repl_pair(dir: &Path, shape: &Shape, idx: usize) -> Result<(PathBuf, PathBuf), String> {
    let ps = dir.join(format!("pristine-{idx}-supplier.db"));
    let pc = dir.join(format!("pristine-{idx}-consumer.db"));
    let rt = kvcore::srv::rt();
    rt.block_on(async {
        let sup = open(&ps, POOL, shape.arcsize, secs(0)).await?;
        build_fixture(&sup, secs(1)).await?;
        build_filler(&sup, secs(2), shape.filler.min(60)).await?;
        let con = open(&pc, POOL, shape.arcsize, secs(0)).await?;
        {
            let mut sr = sup.qs.read().await.map_err(|e| format!("{e:?}"))?;
            let mut cw = con.qs.write(secs(4)).await.map_err(|e| format!("{e:?}"))?;
            let ctx = sr.supplier_provide_refresh().map_err(|e| format!("provide refresh: {e:?}"))?;
            cw.consumer_apply_refresh(ctx).map_err(|e| format!("apply refresh: {e:?}"))?;
            cw.commit().map_err(|e| format!("refresh commit: {e:?}"))?;
        }
        // changes the consumer has not seen
        let mut w = sup.qs.write(secs(6)).await.map_err(|e| format!("{e:?}"))?;
        w.internal_create(vec![
            person(fu(70), "fs_repl_new0", "made on the supplier"),
            group(fu(71), "fs_repl_group", &[fu(70), U_PROBE]),
        ])
        .map_err(|e| format!("{e:?}"))?;
        w.internal_modify_uuid(
            U_MOD,
            &ModifyList::new_purge_and_set(Attribute::Name, Value::new_iname("fs_mod_on_supplier")),
        )
        .map_err(|e| format!("{e:?}"))?;
        w.internal_delete_uuid(U_DEL).map_err(|e| format!("{e:?}"))?;
        w.commit().map_err(|e| format!("{e:?}"))?;
        drop(sup);
        drop(con);
        Ok::<(), String>(())
    })?;
    Ok((pc, ps))
}

fn supplier_copy_path(file: &Path) -> PathBuf {
    PathBuf::from(format!("{}.supplier", file.to_string_lossy()))
}

/// Put fresh copies of the pristine file(s) in place and return the child spec for them.
fn place_files(
    pristine: &Path,
    pristine2: Option<&Path>,
    file: &Path,
    shape: &Shape,
    txn: Txn,
    mode: &str,
) -> Result<Json, String> {
    copy_db(pristine, file).map_err(|e| format!("copy: {e:?}"))?;
    let mut spec = json!({"path": file.to_string_lossy(), "txn": txn.name(), "mode": mode, "arcsize": shape.arcsize});
    if let Some(p2) = pristine2 {
        let f2 = supplier_copy_path(file);
        copy_db(p2, &f2).map_err(|e| format!("copy supplier: {e:?}"))?;
        spec["path2"] = json!(f2.to_string_lossy());
    }
    Ok(spec)
}

fn remove_files(file: &Path) {
    for p in db_files(file).into_iter().chain(db_files(&supplier_copy_path(file))) {
        let _ = std::fs::remove_file(p);
    }
}

/// State of a twin (uncrashed) run: raw tables, and the dump a normal server start produces.
struct Twin {
    raw: RawDb,
    dump: kvcore::srv::Dump,
}

/// Start a normal server on `file`, dump it. Optionally commit one more transaction, check its
/// change id, and verify.
struct Restarted {
    dump: kvcore::srv::Dump,
    /// problems found by the follow-up checks (next change id, verify)
    next_cid_problem: Option<String>,
    verify_problem: Option<String>,
}

fn restart_and_check(file: &Path, shape: &Shape, txn: Txn, follow_up: bool) -> Result<Restarted, String> {
    let rt = kvcore::srv::rt();
    rt.block_on(async {
        // a restart happens after the crash: later than the transaction's time
        let ct0 = txn.ct() + Duration::from_secs(20);
        // a normal start of this build: targets DOMAIN_TGT_LEVEL (and so completes a domain raise
        // that had rolled back; the uncrashed BEFORE twin goes through exactly the same start)
        let srv = open(file, POOL, shape.arcsize, ct0).await?;
        let dump = kvcore::srv::dump(&srv.qs).await;
        let mut next_cid_problem = None;
        let mut verify_problem = None;
        if follow_up {
            let mut all = Vec::new();
            for e in dump.entries.values() {
                collect_cids(e, &mut all);
            }
            let max_before = all.iter().map(|(t, _)| *t).max().unwrap_or(Duration::ZERO);
            // deliberately an EARLIER simulated time than the crashed transaction's: the server
            // must still issue a greater change id
            let ct1 = secs(12);
            let r: Result<(), String> = async {
                let mut w = srv.qs.write(ct1).await.map_err(|e| format!("begin: {e:?}"))?;
                w.internal_modify_uuid(
                    U_MARK,
                    &ModifyList::new_purge_and_set(
                        Attribute::Description,
                        Value::new_utf8s("after-crash"),
                    ),
                )
                .map_err(|e| format!("modify: {e:?}"))?;
                w.commit().map_err(|e| format!("commit: {e:?}"))
            }
            .await;
            match r {
                Err(e) => next_cid_problem = Some(format!("the next transaction failed: {e}")),
                Ok(()) => {
                    let d2 = kvcore::srv::dump(&srv.qs).await;
                    let mut mine = Vec::new();
                    if let Some(e) = d2.entries.get(&U_MARK) {
                        if let Some(a) = kvcore::srv::dump_attrs(e).and_then(|a| a.get("last_modified_cid")) {
                            collect_cids(a, &mut mine);
                        }
                        let desc = kvcore::srv::dump_strs(e, "description");
                        if desc != vec!["after-crash".to_string()] {
                            next_cid_problem = Some(format!("the next transaction is not visible: description {desc:?}"));
                        }
                    }
                    match mine.iter().map(|(t, _)| *t).max() {
                        None => next_cid_problem = Some("marker entry has no last_modified_cid".into()),
                        Some(t) if t <= max_before => {
                            next_cid_problem = Some(format!(
                                "change id issued after restart {t:?} is not greater than the greatest change id in the recovered database {max_before:?}"
                            ))
                        }
                        Some(_) => {}
                    }
                }
            }
            let vr = srv.qs.verify().await;
            if !vr.is_empty() {
                let mut s = format!("{vr:?}");
                s.truncate(1200);
                verify_problem = Some(s);
            }
        }
        drop(srv);
        Ok(Restarted {
            dump,
            next_cid_problem,
            verify_problem,
        })
    })
}

/// Raw view through a read-write connection (sqlite must be able to recover the WAL of a
/// crashed process).
fn raw_db_rw(path: &Path) -> Result<RawDb, String> {
    crate::fx::raw_db_flags(path, true)
}

#[derive(Clone, Debug)]
#[allow(dead_code)] // fields are shown through Debug in witnesses
enum Crash {
    /// abort() at the k-th storage point of the transaction
    Hook(u64),
    /// SIGKILL at entry of the n-th `syscall` of the process (n counted from process start)
    Syscall { name: &'static str, n: u64, ordinal_in_txn: u64 },
}

struct Plan {
    shape: usize,
    txn: Txn,
    pristine: PathBuf,
    /// second database of the transaction (the replication supplier)
    pristine2: Option<PathBuf>,
    before: Twin,
    after: Twin,
    n: u64,
    n_ops: u64,
    /// quick tier: restart only a part of the operation-phase crash points
    thin: bool,
}

fn make_twin(dir: &Path, tag: &str, pristine: &Path, pristine2: Option<&Path>, shape: &Shape, txn: Txn, mode: &str) -> Result<(Twin, Option<Json>), String> {
    let f = dir.join(format!("twin-{tag}.db"));
    let spec = place_files(pristine, pristine2, &f, shape, txn, mode)?;
    let r = spawn_child(&spec, None)?;
    if r.code != Some(0) {
        return Err(format!("twin child ({mode}) failed: {r:?}"));
    }
    let raw = raw_db_rw(&f)?;
    let rs = restart_and_check(&f, shape, txn, false)?;
    remove_files(&f);
    Ok((Twin { raw, dump: rs.dump }, r.report))
}

fn judge_crash(
    plan: &Plan,
    crash: &Crash,
    file: &Path,
    acc: &mut Acc,
) -> Result<(), String> {
    let shape = &SHAPES[plan.shape];
    let mut spec = place_files(&plan.pristine, plan.pristine2.as_deref(), file, shape, plan.txn, "count")?;
    let res = match crash {
        Crash::Hook(k) => {
            spec["mode"] = json!("abort");
            spec["k"] = json!(k);
            spawn_child(&spec, None)?
        }
        Crash::Syscall { name, n, .. } => {
            let sa: Vec<String> = vec![
                "-f".into(),
                "-o".into(),
                "/dev/null".into(),
                "-e".into(),
                "trace=pwrite64,fsync,fdatasync,ftruncate".into(),
                "-e".into(),
                format!("inject={name}:signal=KILL:when={n}"),
            ];
            spawn_child(&spec, Some(&sa))?
        }
    };
    let case = json!({"shape": shape.name, "transaction": plan.txn.name(), "crash": format!("{crash:?}"),
        "storage_points_of_transaction": plan.n, "of_which_before_commit_call": plan.n_ops});
    acc.eval();
    let expected_signal = match crash {
        Crash::Hook(_) => libc::SIGABRT,
        Crash::Syscall { .. } => libc::SIGKILL,
    };
    if res.signal != Some(expected_signal) {
        // the crash point was not reached (or the child failed otherwise): nothing to judge
        acc.count("crash_point_not_reached");
        if res.code != Some(0) {
            acc.count("child_failed_otherwise");
            acc.sample(json!({"child_failed": case, "code": res.code, "signal": res.signal, "stderr": res.stderr}));
        }
        return Ok(());
    }
    acc.count(&format!("crashed.{}", plan.txn.name()));
    let in_commit = match crash {
        Crash::Hook(k) => *k > plan.n_ops,
        Crash::Syscall { .. } => true,
    };
    if in_commit {
        acc.nontrivial(&format!("{}|{}|{crash:?}", shape.name, plan.txn.name()));
    }
    match crash {
        Crash::Hook(k) => acc.observe(
            "crash_points",
            &format!(
                "{}:{}",
                plan.txn.name(),
                if *k == plan.n {
                    "after-COMMIT"
                } else if *k == plan.n - 1 {
                    "before-COMMIT"
                } else if *k > plan.n_ops {
                    "stmt-in-commit-phase"
                } else {
                    "stmt-in-operation-phase"
                }
            ),
        ),
        Crash::Syscall { name, .. } => acc.observe("crash_points", &format!("{}:syscall-{name}", plan.txn.name())),
    }

    // 1. the file itself, after sqlite's recovery
    let raw = raw_db_rw(file)?;
    let side = if raw == plan.before.raw {
        "before"
    } else if raw == plan.after.raw {
        "after"
    } else {
        let db = raw_diff(&plan.before.raw, &raw);
        let da = raw_diff(&plan.after.raw, &raw);
        acc.violation(
            "c05/recovered-file-is-neither-before-nor-after",
            json!({"case": case, "what": "after the crash the tables of the database file equal neither the state before the transaction nor the state after it",
                   "differs_from_before": db, "differs_from_after": da}),
        );
        return Ok(());
    };
    acc.count(&format!("recovered.{side}"));
    acc.count(&format!("recovered.{}.{side}", plan.txn.name()));

    // 2. a normal server start on it
    let rs = restart_and_check(file, shape, plan.txn, true)?;
    let twin = if side == "before" { &plan.before } else { &plan.after };
    if rs.dump != twin.dump {
        let mut d = twin.dump.diff(&rs.dump);
        d.truncate(10);
        acc.violation(
            &format!("c05/restarted-server-differs-from-{side}-state"),
            json!({"case": case, "what": format!("the database file equals the {side} state, but a normal server start on it yields a different set of entries than a normal start on the uncrashed {side} twin"), "diff": d}),
        );
    }
    if let Some(p) = rs.next_cid_problem {
        acc.violation(
            "c05/change-id-after-restart-not-greater",
            json!({"case": case, "recovered_to": side, "what": p}),
        );
    } else {
        acc.count("next_change_id_greater");
    }
    if let Some(p) = rs.verify_problem {
        acc.violation(
            "c05/verify-fails-after-recovery",
            json!({"case": case, "recovered_to": side, "what": "QueryServer::verify reports inconsistencies on the restarted server", "verify": p}),
        );
    } else {
        acc.count("verify_clean");
    }
    Ok(())
}

/// Count the syscalls of the transaction window with a tracing (non-injecting) strace run.
/// Returns for each syscall name the process-wide ordinals (1 based) that fall inside the window.
fn syscall_window(dir: &Path, tag: &str, plan: &Plan) -> Result<Vec<(&'static str, Vec<u64>)>, String> {
    let shape = &SHAPES[plan.shape];
    let f = dir.join(format!("sc-{tag}.db"));
    let log = dir.join(format!("sc-{tag}.log"));
    let spec = place_files(&plan.pristine, plan.pristine2.as_deref(), &f, shape, plan.txn, "count")?;
    let sa: Vec<String> = vec![
        "-f".into(),
        "-o".into(),
        log.to_string_lossy().to_string(),
        "-e".into(),
        "trace=pwrite64,fsync,fdatasync,ftruncate".into(),
    ];
    let r = spawn_child(&spec, Some(&sa))?;
    if r.code != Some(0) {
        return Err(format!("counting strace run failed: {r:?}"));
    }
    let text = std::fs::read_to_string(&log).map_err(|e| format!("strace log: {e:?}"))?;
    // the child's main thread is the first pid in the log
    let main_pid = text
        .lines()
        .next()
        .and_then(|l| l.split_whitespace().next())
        .unwrap_or("")
        .to_string();
    let mut counts: std::collections::BTreeMap<&'static str, u64> = Default::default();
    let mut inside = false;
    let mut markers = 0;
    let mut out: std::collections::BTreeMap<&'static str, Vec<u64>> = Default::default();
    for l in text.lines() {
        let mut it = l.splitn(2, char::is_whitespace);
        let pid = it.next().unwrap_or("");
        let rest = it.next().unwrap_or("").trim_start();
        if pid != main_pid {
            continue;
        }
        for name in ["pwrite64", "fdatasync", "fsync", "ftruncate"] {
            if rest.starts_with(&format!("{name}(")) {
                let c = counts.entry(name).or_insert(0);
                *c += 1;
                if name == "fdatasync" && rest.starts_with("fdatasync(-1") {
                    markers += 1;
                    inside = markers == 1;
                } else if inside {
                    out.entry(name).or_default().push(*c);
                }
            }
        }
    }
    remove_files(&f);
    let _ = std::fs::remove_file(&log);
    if markers != 2 {
        return Err(format!("expected 2 marker syscalls in the strace log, saw {markers}"));
    }
    Ok(out.into_iter().collect())
}

pub fn run(args: Args) {
    let mut run = Run::new(
        args.clone(),
        "fault_enumeration",
        "case = (database shape, write transaction, crash point): a child process runs the transaction on a copy of one pristine database file and aborts at the k-th storage point of the transaction for every k in 1..N (N learnt by a counting child; the re-index transaction is sampled: all of the operation phase, head and tail of the commit, an even spread between); quick takes every 4th point of the operation phase and samples the replication transaction too; thorough adds SIGKILL at entry of every pwrite64 / fdatasync / fsync / ftruncate the process issues inside the transaction. Non-trivial = crash inside the commit phase (after the first dirty write); distinct by (shape, transaction, crash point)",
    );
    run.assume("process death is not power loss: the page cache survives, so missing or mis-ordered fsync calls are invisible to this check");
    run.assume("BEFORE and AFTER are produced by uncrashed twin child processes from byte-identical copies of the same file; kanidm's start-up rewrites built-in entries deterministically (same file, same simulated time), which the twins share with the crashed run");
    run.assume("the abort hook sits at IdlSqliteWriteTransaction::get_conn and around COMMIT; crash points inside sqlite's own write path are reached only by the strace tier");
    let tier = args.tier;
    let sc = Scratch::new("c05");
    let dir = sc.path().to_path_buf();
    let nshapes = tier.pick(1usize, 2usize);
    // --replay <file>: re-run exactly the crash of a recorded witness
    let replay: Option<Json> = args
        .replay
        .as_ref()
        .and_then(|p| kvcore::run::load_replay(p))
        .filter(|w| w["case"]["transaction"].is_string());
    let only: Option<String> = match &replay {
        Some(w) => w["case"]["transaction"].as_str().map(|s| s.to_string()),
        None => std::env::var("FS_TXNS").ok(),
    };
    let txns: Vec<Txn> = ALL_TXNS
        .iter()
        .copied()
        .filter(|t| only.as_ref().map(|o| o.split(',').any(|x| x == t.name())).unwrap_or(true))
        .collect();
    let want_strace = match &replay {
        Some(w) => w["case"]["crash"].as_str().map(|c| c.starts_with("Syscall")).unwrap_or(false),
        None => tier == kvcore::Tier::Thorough,
    };
    let nshapes = if replay.is_some() { 2 } else { nshapes };
    let have_strace = want_strace
        && Command::new("strace")
            .arg("-V")
            .stdout(Stdio::null())
            .stderr(Stdio::null())
            .status()
            .map(|s| s.success())
            .unwrap_or(false);

    // phase 1: pristine files, twins, counts
    let mut plans: Vec<Plan> = Vec::new();
    {
        let jobs: Vec<(usize, Txn)> = (0..nshapes)
            .flat_map(|s| txns.iter().map(move |t| (s, *t)))
            .collect();
        let mut pristine: std::collections::BTreeMap<(usize, u32), PathBuf> = Default::default();
        for s in 0..nshapes {
            for level in [DOMAIN_TGT_LEVEL, DOMAIN_PREVIOUS_TGT_LEVEL] {
                match build_pristine(&dir, &SHAPES[s], s, level) {
                    Ok(p) => {
                        pristine.insert((s, level), p);
                    }
                    Err(e) => {
                        run.acc.inconclusive(&format!("pristine database: {e}"));
                        drop(sc);
                        run.finish();
                    }
                }
            }
        }
        let mut pairs: std::collections::BTreeMap<usize, (PathBuf, PathBuf)> = Default::default();
        if txns.contains(&Txn::ReplApply) {
            for s in 0..nshapes {
                match build_repl_pair(&dir, &SHAPES[s], s) {
                    Ok(p) => {
                        pairs.insert(s, p);
                    }
                    Err(e) => run.acc.inconclusive(&format!("replication pair: {e}")),
                }
            }
        }
        let pairs = &pairs;
        let out: Mutex<Vec<Plan>> = Mutex::new(Vec::new());
        let jobs = &jobs;
        let pristine = &pristine;
        let dir = &dir;
        let outr = &out;
        run.parallel(args.workers.min(jobs.len()).max(1), |w, n| {
            let mut acc = Acc::new();
            for (i, (s, t)) in jobs.iter().enumerate() {
                if i % n != w {
                    continue;
                }
                let shape = &SHAPES[*s];
                let (p, p2) = if *t == Txn::ReplApply {
                    match pairs.get(s) {
                        Some((c, su)) => (c.clone(), Some(su.clone())),
                        None => continue,
                    }
                } else {
                    (pristine[&(*s, t.level())].clone(), None)
                };
                let tag = format!("{s}-{}", t.name());
                let r: Result<Plan, String> = (|| {
                    let (before, _) = make_twin(dir, &format!("{tag}-b"), &p, p2.as_deref(), shape, *t, "open-only")?;
                    let (after, rep) = make_twin(dir, &format!("{tag}-a"), &p, p2.as_deref(), shape, *t, "count")?;
                    let (after2, _) = make_twin(dir, &format!("{tag}-a2"), &p, p2.as_deref(), shape, *t, "count")?;
                    if after.raw != after2.raw || after.dump != after2.dump {
                        return Err(format!(
                            "two uncrashed runs of {} differ (transaction not deterministic): {:?}",
                            t.name(),
                            raw_diff(&after.raw, &after2.raw)
                        ));
                    }
                    if before.raw == after.raw {
                        return Err(format!("transaction {} changes nothing", t.name()));
                    }
                    let rep = rep.ok_or("counting child printed no report")?;
                    Ok(Plan {
                        shape: *s,
                        txn: *t,
                        pristine: p.clone(),
                        pristine2: p2.clone(),
                        before,
                        after,
                        n: rep["n"].as_u64().unwrap_or(0),
                        n_ops: rep["n_ops"].as_u64().unwrap_or(0),
                        thin: tier == kvcore::Tier::Quick,
                    })
                })();
                match r {
                    Ok(pl) => {
                        acc.count(&format!("control.completes.{}", t.name()));
                        acc.sample(json!({"transaction": t.name(), "shape": shape.name, "storage_points": pl.n, "before_commit_call": pl.n_ops,
                            "tables_changed_by_it": raw_diff(&pl.before.raw, &pl.after.raw).len()}));
                        if let Ok(mut o) = outr.lock() {
                            o.push(pl);
                        }
                    }
                    Err(e) => acc.inconclusive(&format!("preparing {}: {e}", t.name())),
                }
            }
            acc
        });
        plans.extend(out.into_inner().unwrap_or_default());
        plans.sort_by_key(|p| (p.shape, p.txn));
    }

    // phase 2: crash points
    let mut cases: Vec<(usize, Crash)> = Vec::new();
    let mut sampled = Vec::new();
    for (pi, p) in plans.iter().enumerate() {
        let cap: u64 = tier.pick(40, 200);
        let ks: Vec<u64> = if p.n <= 400 {
            // quick tier: of the crash points that lie before the transaction's first write to
            // the file (its operation phase) every 4th only
            (1..=p.n)
                .filter(|k| !p.thin || *k > p.n_ops || *k % 4 == 0)
                .collect()
        } else {
            let step = tier.pick(8u64, 2u64);
            let mut v: std::collections::BTreeSet<u64> = (1..=p.n_ops.min(p.n))
                .filter(|k| *k % step == 0 || *k <= 4)
                .collect();
            v.extend((p.n_ops + 1)..=(p.n_ops + 6).min(p.n));
            v.extend((p.n - 14)..=p.n);
            let rest = cap.saturating_sub(20).max(8);
            for i in 0..rest {
                v.insert(p.n_ops + 6 + (i * (p.n - 20 - p.n_ops)) / rest);
            }
            let v: Vec<u64> = v.into_iter().filter(|x| *x >= 1 && *x <= p.n).collect();
            sampled.push(format!(
                "{}:{} {} of {}",
                SHAPES[p.shape].name,
                p.txn.name(),
                v.len(),
                p.n
            ));
            v
        };
        for k in ks {
            cases.push((pi, Crash::Hook(k)));
        }
    }
    if have_strace {
        let windows: Mutex<Vec<(usize, Vec<(&'static str, Vec<u64>)>)>> = Mutex::new(Vec::new());
        let plans_r = &plans;
        let dir = &dir;
        let wr = &windows;
        run.parallel(args.workers.min(plans.len()).max(1), |w, n| {
            let mut acc = Acc::new();
            for (pi, p) in plans_r.iter().enumerate() {
                if pi % n != w {
                    continue;
                }
                match syscall_window(dir, &format!("{pi}"), p) {
                    Ok(win) => {
                        if let Ok(mut g) = wr.lock() {
                            g.push((pi, win));
                        }
                    }
                    Err(e) => acc.inconclusive(&format!("strace counting run for {}: {e}", p.txn.name())),
                }
            }
            acc
        });
        let mut sys_summary = Vec::new();
        for (pi, win) in windows.into_inner().unwrap_or_default() {
            for (name, ords) in win {
                sys_summary.push(json!({"transaction": plans[pi].txn.name(), "shape": SHAPES[plans[pi].shape].name, "syscall": name, "count_inside_transaction": ords.len()}));
                let cap = 160usize;
                let step = (ords.len() / cap).max(1);
                for (j, n) in ords.iter().enumerate() {
                    if ords.len() > cap && j % step != 0 && j + 12 < ords.len() {
                        continue;
                    }
                    cases.push((pi, Crash::Syscall { name, n: *n, ordinal_in_txn: j as u64 + 1 }));
                }
            }
        }
        run.extra("syscalls_inside_transactions", json!(sys_summary));
    } else if want_strace {
        run.acc.inconclusive("strace is not usable here: the syscall-level crash tier could not run");
    }
    if let Some(w) = &replay {
        cases.retain(|(pi, c)| {
            json!(format!("{c:?}")) == w["case"]["crash"]
                && json!(SHAPES[plans[*pi].shape].name) == w["case"]["shape"]
        });
        if cases.is_empty() {
            // a point that this tier does not sample
            let k = w["case"]["crash"]
                .as_str()
                .and_then(|m| m.strip_prefix("Hook("))
                .and_then(|m| m.strip_suffix(')'))
                .and_then(|m| m.parse::<u64>().ok());
            if let Some(k) = k {
                for (pi, p) in plans.iter().enumerate() {
                    if json!(SHAPES[p.shape].name) == w["case"]["shape"] && k <= p.n {
                        cases.push((pi, Crash::Hook(k)));
                    }
                }
            }
        }
        println!("replaying {} crash case(s): {}", cases.len(), w["case"]);
    }
    run.extra("crash_cases_enumerated", json!(cases.len()));
    run.extra("transactions_with_sampled_crash_points", json!(sampled));
    let mut order: Vec<usize> = (0..cases.len()).collect();
    Rng::new(kvcore::rng::mix(args.seed, 5, 5)).shuffle(&mut order);
    {
        let plans = &plans;
        let cases = &cases;
        let order = &order;
        let dir = &dir;
        run.parallel(args.workers, |w, n| {
            let mut acc = Acc::new();
            let file = dir.join(format!("crash-{w}.db"));
            for (i, ci) in order.iter().enumerate() {
                if i % n != w {
                    continue;
                }
                let (pi, crash) = &cases[*ci];
                if let Err(e) = judge_crash(&plans[*pi], crash, &file, &mut acc) {
                    acc.count("harness_error");
                    acc.inconclusive(&format!("{} {crash:?}: {e}", plans[*pi].txn.name()));
                }
            }
            acc
        });
    }

    // thresholds (a replay judges one case only)
    if replay.is_some() {
        drop(plans);
        drop(sc);
        run.finish();
    }
    for t in &txns {
        run.require(
            run.acc.get(&format!("control.completes.{}", t.name())) > 0,
            &format!("transaction {} never completed in an uncrashed twin", t.name()),
        );
        run.require(
            run.acc.get(&format!("crashed.{}", t.name())) >= 8,
            &format!("fewer than 8 crashes observed inside transaction {}", t.name()),
        );
        run.require(
            run.acc.get(&format!("recovered.{}.before", t.name())) > 0,
            &format!("no crash of {} recovered to the before state", t.name()),
        );
        run.require(
            run.acc.get(&format!("recovered.{}.after", t.name())) > 0,
            &format!("no crash of {} recovered to the after state (crash just after COMMIT)", t.name()),
        );
    }
    run.require(run.acc.get("verify_clean") >= 50, "fewer than 50 recovered servers verified");
    if have_strace {
        let sys = run
            .acc
            .sets
            .get("crash_points")
            .map(|s| s.iter().filter(|p| p.contains("syscall-pwrite64")).count())
            .unwrap_or(0);
        run.require(sys > 0, "no crash was injected at a pwrite64 syscall");
    }
    if sampled.is_empty() && !have_strace {
        run.exhaustive = Some(true);
    }
    drop(plans);
    drop(sc);
    run.finish();
}
