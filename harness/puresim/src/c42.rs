//! C42 SCIM filter text round-trips and honours precedence.
//!
//! Subject: the filter printer (`Display`) and peg parser of `kanidm_proto::scim_v1` (the copy the
//! server uses) and the stand-alone copy in `scim_proto::filter`. Oracle: for generated trees inside
//! the stated domain (valid SCIM attribute names, scalar values, printed nesting within the limit)
//! `parse(print(f)) == f`; un-parenthesised `and`/`or` token strings group with AND binding tighter
//! (compared modulo associativity, which the statement does not fix); printed nesting beyond the
//! documented limit is rejected.

use kanidm_proto::attribute::{Attribute, SubAttribute};
use kanidm_proto::scim_v1 as k;
use kvcore::{Acc, Args, Rng, Run};
use scim_proto::filter as l;
use serde_json::{json, Value as Json};
use std::str::FromStr;

/// SCIM_FILTER_MAX_DEPTH in both sources. The un-nested top level uses one of the 128 levels, so at
/// most 127 nested parentheses/brackets parse.
const LIMIT: usize = 128;

#[derive(Clone, Copy, Debug, PartialEq, Eq)]
enum Op {
    Eq,
    Ne,
    Co,
    Sw,
    Ew,
    Gt,
    Lt,
    Ge,
    Le,
}
const OPS: [Op; 9] = [Op::Eq, Op::Ne, Op::Co, Op::Sw, Op::Ew, Op::Gt, Op::Lt, Op::Ge, Op::Le];

impl Op {
    fn txt(&self) -> &'static str {
        match self {
            Op::Eq => "eq",
            Op::Ne => "ne",
            Op::Co => "co",
            Op::Sw => "sw",
            Op::Ew => "ew",
            Op::Gt => "gt",
            Op::Lt => "lt",
            Op::Ge => "ge",
            Op::Le => "le",
        }
    }
    fn tag(&self) -> &'static str {
        match self {
            Op::Eq => "Equal",
            Op::Ne => "NotEqual",
            Op::Co => "Contains",
            Op::Sw => "StartsWith",
            Op::Ew => "EndsWith",
            Op::Gt => "Greater",
            Op::Lt => "Less",
            Op::Ge => "GreaterOrEqual",
            Op::Le => "LessOrEqual",
        }
    }
}

/// Abstract filter tree, independent of either crate's types.
#[derive(Clone, Debug, PartialEq)]
enum F {
    Or(Box<F>, Box<F>),
    And(Box<F>, Box<F>),
    Not(Box<F>),
    Pres(String, Option<String>),
    Cmp(Op, String, Option<String>, Json),
    Complex(String, Box<C>),
}

#[derive(Clone, Debug, PartialEq)]
enum C {
    Or(Box<C>, Box<C>),
    And(Box<C>, Box<C>),
    Not(Box<C>),
    Pres(String),
    Cmp(Op, String, Json),
}

impl F {
    /// nesting of the printed form: number of nested parentheses / brackets (Display wraps every
    /// node in parentheses, so a leaf prints at nesting 1)
    fn printed_depth(&self) -> usize {
        match self {
            F::Or(a, b) | F::And(a, b) => 1 + a.printed_depth().max(b.printed_depth()),
            F::Not(e) => 2 + e.printed_depth(),
            F::Pres(..) | F::Cmp(..) => 1,
            F::Complex(_, c) => 1 + c.printed_depth(),
        }
    }
    fn has_complex(&self) -> bool {
        match self {
            F::Or(a, b) | F::And(a, b) => a.has_complex() || b.has_complex(),
            F::Not(e) => e.has_complex(),
            F::Complex(..) => true,
            _ => false,
        }
    }
    fn kind(&self) -> &'static str {
        match self {
            F::Or(..) => "or",
            F::And(..) => "and",
            F::Not(..) => "not",
            F::Pres(_, None) => "present",
            F::Pres(_, Some(_)) => "present-subattr",
            F::Cmp(_, _, _, v) => val_kind(v),
            F::Complex(..) => "complex",
        }
    }
    fn children(&self) -> Vec<F> {
        match self {
            F::Or(a, b) | F::And(a, b) => vec![(**a).clone(), (**b).clone()],
            F::Not(e) => vec![(**e).clone()],
            _ => vec![],
        }
    }
    fn nodes(&self) -> usize {
        match self {
            F::Or(a, b) | F::And(a, b) => 1 + a.nodes() + b.nodes(),
            F::Not(e) => 1 + e.nodes(),
            F::Complex(_, c) => 1 + c.nodes(),
            _ => 1,
        }
    }
}

impl C {
    fn printed_depth(&self) -> usize {
        match self {
            C::Or(a, b) | C::And(a, b) => 1 + a.printed_depth().max(b.printed_depth()),
            C::Not(e) => 2 + e.printed_depth(),
            C::Pres(..) | C::Cmp(..) => 1,
        }
    }
    fn nodes(&self) -> usize {
        match self {
            C::Or(a, b) | C::And(a, b) => 1 + a.nodes() + b.nodes(),
            C::Not(e) => 1 + e.nodes(),
            _ => 1,
        }
    }
}

fn val_kind(v: &Json) -> &'static str {
    match v {
        Json::String(_) => "value-string",
        Json::Number(n) if n.is_f64() => "value-float",
        Json::Number(_) => "value-integer",
        Json::Bool(_) => "value-bool",
        Json::Null => "value-null",
        _ => "value-nonscalar",
    }
}

// ---------- the two subjects ------------------------------------------------------------------

trait Subject {
    const NAME: &'static str;
    type T: PartialEq + std::fmt::Debug;
    fn build(f: &F) -> Self::T;
    fn print(t: &Self::T) -> String;
    fn parse(s: &str) -> Result<Self::T, String>;
    fn back(t: &Self::T) -> F;
    /// does a bracket continue the depth count of the enclosing expression
    const BRACKET_COUNTS: bool;
}

struct Proto;
struct Libs;

fn k_path(a: &str, s: &Option<String>) -> k::AttrPath {
    k::AttrPath { a: Attribute::from(a), s: s.as_ref().map(|x| SubAttribute::from(x.as_str())) }
}

fn k_build_c(c: &C) -> k::ScimComplexFilter {
    use k::ScimComplexFilter as X;
    match c {
        C::Or(a, b) => X::Or(Box::new(k_build_c(a)), Box::new(k_build_c(b))),
        C::And(a, b) => X::And(Box::new(k_build_c(a)), Box::new(k_build_c(b))),
        C::Not(e) => X::Not(Box::new(k_build_c(e))),
        C::Pres(a) => X::Present(SubAttribute::from(a.as_str())),
        C::Cmp(op, a, v) => {
            let a = SubAttribute::from(a.as_str());
            let v = v.clone();
            match op {
                Op::Eq => X::Equal(a, v),
                Op::Ne => X::NotEqual(a, v),
                Op::Co => X::Contains(a, v),
                Op::Sw => X::StartsWith(a, v),
                Op::Ew => X::EndsWith(a, v),
                Op::Gt => X::Greater(a, v),
                Op::Lt => X::Less(a, v),
                Op::Ge => X::GreaterOrEqual(a, v),
                Op::Le => X::LessOrEqual(a, v),
            }
        }
    }
}

fn k_back_c(c: &k::ScimComplexFilter) -> C {
    use k::ScimComplexFilter as X;
    let s = |a: &SubAttribute| a.as_str().to_string();
    match c {
        X::Or(a, b) => C::Or(Box::new(k_back_c(a)), Box::new(k_back_c(b))),
        X::And(a, b) => C::And(Box::new(k_back_c(a)), Box::new(k_back_c(b))),
        X::Not(e) => C::Not(Box::new(k_back_c(e))),
        X::Present(a) => C::Pres(s(a)),
        X::Equal(a, v) => C::Cmp(Op::Eq, s(a), v.clone()),
        X::NotEqual(a, v) => C::Cmp(Op::Ne, s(a), v.clone()),
        X::Contains(a, v) => C::Cmp(Op::Co, s(a), v.clone()),
        X::StartsWith(a, v) => C::Cmp(Op::Sw, s(a), v.clone()),
        X::EndsWith(a, v) => C::Cmp(Op::Ew, s(a), v.clone()),
        X::Greater(a, v) => C::Cmp(Op::Gt, s(a), v.clone()),
        X::Less(a, v) => C::Cmp(Op::Lt, s(a), v.clone()),
        X::GreaterOrEqual(a, v) => C::Cmp(Op::Ge, s(a), v.clone()),
        X::LessOrEqual(a, v) => C::Cmp(Op::Le, s(a), v.clone()),
    }
}

impl Subject for Proto {
    const NAME: &'static str = "kanidm_proto";
    const BRACKET_COUNTS: bool = true;
    type T = k::ScimFilter;
    fn build(f: &F) -> k::ScimFilter {
        use k::ScimFilter as X;
        match f {
            F::Or(a, b) => X::Or(Box::new(Self::build(a)), Box::new(Self::build(b))),
            F::And(a, b) => X::And(Box::new(Self::build(a)), Box::new(Self::build(b))),
            F::Not(e) => X::Not(Box::new(Self::build(e))),
            F::Pres(a, s) => X::Present(k_path(a, s)),
            F::Cmp(op, a, s, v) => {
                let p = k_path(a, s);
                let v = v.clone();
                match op {
                    Op::Eq => X::Equal(p, v),
                    Op::Ne => X::NotEqual(p, v),
                    Op::Co => X::Contains(p, v),
                    Op::Sw => X::StartsWith(p, v),
                    Op::Ew => X::EndsWith(p, v),
                    Op::Gt => X::Greater(p, v),
                    Op::Lt => X::Less(p, v),
                    Op::Ge => X::GreaterOrEqual(p, v),
                    Op::Le => X::LessOrEqual(p, v),
                }
            }
            F::Complex(a, c) => X::Complex(Attribute::from(a.as_str()), Box::new(k_build_c(c))),
        }
    }
    fn print(t: &k::ScimFilter) -> String {
        t.to_string()
    }
    fn parse(s: &str) -> Result<k::ScimFilter, String> {
        k::ScimFilter::from_str(s).map_err(|e| e.to_string())
    }
    fn back(t: &k::ScimFilter) -> F {
        use k::ScimFilter as X;
        let p = |p: &k::AttrPath| (p.a.as_str().to_string(), p.s.as_ref().map(|s| s.as_str().to_string()));
        let cmp = |op: Op, ap: &k::AttrPath, v: &Json| {
            let (a, s) = p(ap);
            F::Cmp(op, a, s, v.clone())
        };
        match t {
            X::Or(a, b) => F::Or(Box::new(Self::back(a)), Box::new(Self::back(b))),
            X::And(a, b) => F::And(Box::new(Self::back(a)), Box::new(Self::back(b))),
            X::Not(e) => F::Not(Box::new(Self::back(e))),
            X::Present(ap) => {
                let (a, s) = p(ap);
                F::Pres(a, s)
            }
            X::Equal(a, v) => cmp(Op::Eq, a, v),
            X::NotEqual(a, v) => cmp(Op::Ne, a, v),
            X::Contains(a, v) => cmp(Op::Co, a, v),
            X::StartsWith(a, v) => cmp(Op::Sw, a, v),
            X::EndsWith(a, v) => cmp(Op::Ew, a, v),
            X::Greater(a, v) => cmp(Op::Gt, a, v),
            X::Less(a, v) => cmp(Op::Lt, a, v),
            X::GreaterOrEqual(a, v) => cmp(Op::Ge, a, v),
            X::LessOrEqual(a, v) => cmp(Op::Le, a, v),
            X::Complex(a, c) => F::Complex(a.as_str().to_string(), Box::new(k_back_c(c))),
        }
    }
}

// scim_proto's AttrPath has private fields: values are built and read through its serde form
// (externally tagged enums), which is independent of the parser under test.
fn l_json_c(c: &C) -> Json {
    match c {
        C::Or(a, b) => json!({"Or": [l_json_c(a), l_json_c(b)]}),
        C::And(a, b) => json!({"And": [l_json_c(a), l_json_c(b)]}),
        C::Not(e) => json!({"Not": l_json_c(e)}),
        C::Pres(a) => json!({"Present": a}),
        C::Cmp(op, a, v) => json!({op.tag(): [a, v]}),
    }
}
fn l_json(f: &F) -> Json {
    match f {
        F::Or(a, b) => json!({"Or": [l_json(a), l_json(b)]}),
        F::And(a, b) => json!({"And": [l_json(a), l_json(b)]}),
        F::Not(e) => json!({"Not": l_json(e)}),
        F::Pres(a, s) => json!({"Present": {"a": a, "s": s}}),
        F::Cmp(op, a, s, v) => json!({op.tag(): [{"a": a, "s": s}, v]}),
        F::Complex(a, c) => json!({"Complex": [a, l_json_c(c)]}),
    }
}
fn op_of(tag: &str) -> Option<Op> {
    OPS.iter().copied().find(|o| o.tag() == tag)
}
fn l_unjson_c(j: &Json) -> C {
    let (tag, body) = j.as_object().and_then(|m| m.iter().next()).expect("tagged");
    match tag.as_str() {
        "Or" => C::Or(Box::new(l_unjson_c(&body[0])), Box::new(l_unjson_c(&body[1]))),
        "And" => C::And(Box::new(l_unjson_c(&body[0])), Box::new(l_unjson_c(&body[1]))),
        "Not" => C::Not(Box::new(l_unjson_c(body))),
        "Present" => C::Pres(body.as_str().unwrap_or("").to_string()),
        t => C::Cmp(op_of(t).expect("op"), body[0].as_str().unwrap_or("").to_string(), body[1].clone()),
    }
}
fn l_unjson(j: &Json) -> F {
    let (tag, body) = j.as_object().and_then(|m| m.iter().next()).expect("tagged");
    let path = |p: &Json| (p["a"].as_str().unwrap_or("").to_string(), p["s"].as_str().map(|s| s.to_string()));
    match tag.as_str() {
        "Or" => F::Or(Box::new(l_unjson(&body[0])), Box::new(l_unjson(&body[1]))),
        "And" => F::And(Box::new(l_unjson(&body[0])), Box::new(l_unjson(&body[1]))),
        "Not" => F::Not(Box::new(l_unjson(body))),
        "Present" => {
            let (a, s) = path(body);
            F::Pres(a, s)
        }
        "Complex" => F::Complex(body[0].as_str().unwrap_or("").to_string(), Box::new(l_unjson_c(&body[1]))),
        t => {
            let (a, s) = path(&body[0]);
            F::Cmp(op_of(t).expect("op"), a, s, body[1].clone())
        }
    }
}

impl Subject for Libs {
    const NAME: &'static str = "scim_proto";
    const BRACKET_COUNTS: bool = false;
    type T = l::ScimFilter;
    fn build(f: &F) -> l::ScimFilter {
        serde_json::from_value(l_json(f)).expect("scim_proto filter from its serde form")
    }
    #[allow(clippy::to_string_trait_impl)]
    fn print(t: &l::ScimFilter) -> String {
        t.to_string()
    }
    fn parse(s: &str) -> Result<l::ScimFilter, String> {
        l::ScimFilter::from_str(s).map_err(|e| e.to_string())
    }
    fn back(t: &l::ScimFilter) -> F {
        l_unjson(&serde_json::to_value(t).expect("scim_proto filter to its serde form"))
    }
}

// ---------- generators -----------------------------------------------------------------------------

const KNOWN: [&str; 14] = [
    "name", "displayname", "mail", "member", "memberof", "uuid", "class", "spn", "description", "emails", "userName", "legalname",
    "gidnumber", "ssh_publickey",
];
const SUBS: [&str; 6] = ["value", "type", "primary", "display", "familyName", "x-1_y"];
/// valid SCIM names that are also words of the filter grammar
const KEYWORDISH: [&str; 10] = ["not", "and", "or", "pr", "eq", "ne", "co", "notx", "orx", "ande"];

fn gen_name(rng: &mut Rng, acc: &mut Acc) -> String {
    match rng.below(10) {
        0..=4 => rng.pick(&KNOWN).to_string(),
        5 => {
            acc.count("gen.name.keywordish");
            rng.pick(&KEYWORDISH).to_string()
        }
        _ => {
            // ALPHA *(ALPHA / DIGIT / "-" / "_")
            const A: &[u8] = b"abcdefghijklmnopqrstuvwxyzABCDEFGHIJKLMNOPQRSTUVWXYZ";
            const N: &[u8] = b"abcdefghijklmnopqrstuvwxyzABCDEFGHIJKLMNOPQRSTUVWXYZ0123456789-_";
            let len = rng.range(1, 12) as usize;
            let mut s = String::new();
            s.push(*rng.pick(A) as char);
            for _ in 1..len {
                s.push(*rng.pick(N) as char);
            }
            acc.count("gen.name.random");
            s
        }
    }
}

fn gen_sub(rng: &mut Rng, acc: &mut Acc) -> String {
    if rng.chance(2, 3) {
        rng.pick(&SUBS).to_string()
    } else {
        gen_name(rng, acc)
    }
}

fn gen_string(rng: &mut Rng) -> String {
    const POOL: [&str; 40] = [
        "a", "b", "Z", "0", "9", " ", "  ", "\"", "\\", "\\\"", "(", ")", "[", "]", "\n", "\t", "\r", "\u{1}", "\u{1f}", "\u{7f}", "/", "'", ".", "@",
        "\u{e9}", "\u{4e16}\u{754c}", "\u{1F600}", "\u{2028}", " and ", " or ", "not (", " pr", " eq ", "true", "null", "1", "{", "}", ",", ":",
    ];
    let n = rng.below(9) as usize;
    (0..n).map(|_| *rng.pick(&POOL)).collect()
}

/// (value, judged): floats outside the exactly-parsable class are generated only on request
fn gen_value(rng: &mut Rng, acc: &mut Acc) -> Json {
    match rng.below(12) {
        0..=4 => {
            acc.count("gen.value.string");
            Json::String(gen_string(rng))
        }
        5 => {
            acc.count("gen.value.integer");
            json!(rng.below(2000) as i64 - 1000)
        }
        6 => {
            acc.count("gen.value.integer");
            json!(rng.next() as i64)
        }
        7 => {
            acc.count("gen.value.integer");
            json!(rng.next()) // u64, may exceed i64::MAX
        }
        8 => {
            acc.count("gen.value.float");
            // decimal with a short digit string: exact under any decimal conversion (see float_exact)
            let digits = rng.range(1, 15) as u32;
            let m = rng.below(10u64.pow(digits)) as i64 * if rng.bool() { -1 } else { 1 };
            let e = rng.below(21) as i32 - 10;
            let f: f64 = format!("{m}e{e}").parse().unwrap_or(0.0);
            if float_exact(f) {
                json!(f)
            } else {
                acc.count("gen.value.float.replaced_inexact_class");
                json!((m % 1_000_000) as f64 / 4.0)
            }
        }
        9 => {
            acc.count("gen.value.bool");
            json!(rng.bool())
        }
        10 => {
            acc.count("gen.value.null");
            Json::Null
        }
        _ => {
            acc.count("gen.value.float");
            json!([0.0, -0.0, 1.0, -1.5, 0.25, 1e10, 2.5e-7, 100.0][rng.usize(8)])
        }
    }
}

/// Is the JSON text of this double converted back exactly by *any* JSON number parser, including
/// serde_json's default (non `float_roundtrip`) mode? That mode computes
/// `digits as f64 (*|/) 10^|exp|`, which is correctly rounded iff the digit string (with every
/// printed trailing zero) fits 2^53 and the decimal exponent is within +-22.
fn float_exact(f: f64) -> bool {
    if !f.is_finite() {
        return false;
    }
    let t = json!(f).to_string();
    let t = t.trim_start_matches('-');
    let (mant, exp) = match t.split_once(['e', 'E']) {
        Some((m, e)) => (m, e.parse::<i32>().unwrap_or(9999)),
        None => (t, 0),
    };
    let (ip, fp) = mant.split_once('.').unwrap_or((mant, ""));
    let digits = format!("{ip}{fp}");
    let sig: u128 = digits.parse().unwrap_or(u128::MAX);
    let e = exp - fp.len() as i32;
    sig <= (1u128 << 53) && e.abs() <= 22
}

fn gen_c(rng: &mut Rng, acc: &mut Acc, depth: usize) -> C {
    let leaf = depth == 0 || rng.chance(2, 5);
    if leaf {
        if rng.chance(1, 6) {
            C::Pres(gen_sub(rng, acc))
        } else {
            let op = *rng.pick(&OPS);
            acc.count(&format!("gen.op.{}", op.txt()));
            C::Cmp(op, gen_sub(rng, acc), gen_value(rng, acc))
        }
    } else {
        match rng.below(5) {
            0 | 1 => C::And(Box::new(gen_c(rng, acc, depth - 1)), Box::new(gen_c(rng, acc, depth - 1))),
            2 | 3 => C::Or(Box::new(gen_c(rng, acc, depth - 1)), Box::new(gen_c(rng, acc, depth - 1))),
            _ => C::Not(Box::new(gen_c(rng, acc, depth - 1))),
        }
    }
}

fn gen_leaf(rng: &mut Rng, acc: &mut Acc) -> F {
    let a = gen_name(rng, acc);
    let s = if rng.chance(1, 3) {
        acc.count("gen.subattr_path");
        Some(gen_sub(rng, acc))
    } else {
        None
    };
    if rng.chance(1, 6) {
        acc.count("gen.op.pr");
        F::Pres(a, s)
    } else {
        let op = *rng.pick(&OPS);
        acc.count(&format!("gen.op.{}", op.txt()));
        F::Cmp(op, a, s, gen_value(rng, acc))
    }
}

fn gen_f(rng: &mut Rng, acc: &mut Acc, depth: usize) -> F {
    let leaf = depth == 0 || rng.chance(1, 3);
    if leaf {
        if rng.chance(1, 6) {
            acc.count("gen.complex");
            let cd = rng.below(4) as usize;
            F::Complex(gen_name(rng, acc), Box::new(gen_c(rng, acc, cd)))
        } else {
            gen_leaf(rng, acc)
        }
    } else {
        match rng.below(5) {
            0 | 1 => {
                acc.count("gen.and");
                F::And(Box::new(gen_f(rng, acc, depth - 1)), Box::new(gen_f(rng, acc, depth - 1)))
            }
            2 | 3 => {
                acc.count("gen.or");
                F::Or(Box::new(gen_f(rng, acc, depth - 1)), Box::new(gen_f(rng, acc, depth - 1)))
            }
            _ => {
                acc.count("gen.not");
                F::Not(Box::new(gen_f(rng, acc, depth - 1)))
            }
        }
    }
}

/// A chain whose printed nesting is exactly `target` (>= 1), built from and/or/not/complex links.
fn gen_chain(rng: &mut Rng, acc: &mut Acc, target: usize, allow_complex: bool) -> F {
    // innermost
    let mut d;
    let mut f = if allow_complex && target >= 3 && rng.chance(1, 3) {
        let cd = rng.range(1, (target - 1).min(6) as u64) as usize;
        // a complex chain of depth cd
        let mut c = C::Pres("value".into());
        let mut k = 1;
        while k < cd {
            if cd - k >= 2 && rng.chance(1, 3) {
                c = C::Not(Box::new(c));
                k += 2;
            } else {
                let leaf = C::Cmp(Op::Eq, "type".into(), json!("x"));
                c = if rng.bool() { C::And(Box::new(leaf), Box::new(c)) } else { C::Or(Box::new(c), Box::new(leaf)) };
                k += 1;
            }
        }
        d = 1 + k;
        F::Complex("emails".into(), Box::new(c))
    } else {
        d = 1;
        gen_leaf(rng, acc)
    };
    while d < target {
        if target - d >= 2 && rng.chance(1, 4) {
            f = F::Not(Box::new(f));
            d += 2;
        } else {
            let leaf = gen_leaf(rng, acc);
            f = match rng.below(4) {
                0 => F::And(Box::new(leaf), Box::new(f)),
                1 => F::And(Box::new(f), Box::new(leaf)),
                2 => F::Or(Box::new(leaf), Box::new(f)),
                _ => F::Or(Box::new(f), Box::new(leaf)),
            };
            d += 1;
        }
    }
    f
}

// ---------- round trip ----------------------------------------------------------------------------

fn roundtrip_fails<S: Subject>(f: &F) -> Option<(String, String)> {
    let t = S::build(f);
    let text = S::print(&t);
    match S::parse(&text) {
        Ok(p) if p == t => None,
        Ok(p) => Some((text, format!("parsed as {:?}", S::back(&p)))),
        Err(e) => Some((text, format!("rejected: {e}"))),
    }
}

/// Greedy shrink to a minimal sub-tree that still fails.
fn shrink<S: Subject>(f: &F) -> F {
    let mut cur = f.clone();
    'outer: loop {
        for ch in cur.children() {
            if roundtrip_fails::<S>(&ch).is_some() {
                cur = ch;
                continue 'outer;
            }
        }
        return cur;
    }
}

fn check_roundtrip<S: Subject>(acc: &mut Acc, f: &F, via: &str) {
    acc.eval();
    let depth = f.printed_depth();
    let t = S::build(f);
    let text = S::print(&t);
    let parsed = S::parse(&text);
    acc.count(&format!("{}.roundtrip.{via}", S::NAME));
    if depth < LIMIT {
        // inside the stated domain: must come back equal
        if f.nodes() > 1 {
            acc.nontrivial(&format!("{}|{text}", S::NAME));
        }
        acc.observe("printed_depths_within_limit", &format!("{depth:03}"));
        let ok = matches!(&parsed, Ok(p) if *p == t);
        if ok {
            acc.count("roundtrip.equal");
            if acc.samples.len() < 3 && f.nodes() > 4 && f.has_complex() {
                acc.sample(json!({"subject": S::NAME, "printed": text, "printed_depth": depth, "result": "parse(print(f)) == f"}));
            }
        } else {
            let min = shrink::<S>(f);
            let (mtext, what) = roundtrip_fails::<S>(&min).unwrap_or((text.clone(), "only the whole tree fails".into()));
            let rejected = what.starts_with("rejected");
            let cls = match &min {
                F::Pres(a, s) | F::Cmp(_, a, s, _) if KEYWORDISH.contains(&a.as_str()) || s.as_ref().map(|s| KEYWORDISH.contains(&s.as_str())).unwrap_or(false) => {
                    "keyword-like-attribute-name".to_string()
                }
                m => m.kind().to_string(),
            };
            let sig = if rejected { format!("c42/printed-form-rejected/{cls}/{}", S::NAME) } else { format!("c42/roundtrip-differs/{cls}/{}", S::NAME) };
            acc.violation(
                &sig,
                json!({"subject": S::NAME, "minimal_filter": format!("{min:?}"), "minimal_printed": mtext, "outcome": what,
                       "original_printed": text.chars().take(2000).collect::<String>(), "printed_depth": depth,
                       "explanation": "printing the filter and parsing the text back does not yield the same filter"}),
            );
        }
    } else if depth == LIMIT {
        // 128 nested levels: the counting convention (does the flat level count) is not fixed by
        // the statement; observed, not judged
        acc.count(if parsed.is_ok() { "depth.at_128.accepted_not_judged" } else { "depth.at_128.rejected_not_judged" });
    } else {
        acc.nontrivial(&format!("{}|deep|{text}", S::NAME));
        let deep_through_bracket_only = !S::BRACKET_COUNTS && f.has_complex();
        match parsed {
            Err(_) => acc.count("depth.over_limit.rejected"),
            Ok(_) if deep_through_bracket_only => acc.count("depth.over_limit.accepted_bracket_restarts_count_not_judged"),
            Ok(_) => acc.violation(
                &format!("c42/depth/over-limit-accepted/{}", S::NAME),
                json!({"subject": S::NAME, "printed_depth": depth, "limit": LIMIT, "printed_prefix": text.chars().take(300).collect::<String>(),
                       "explanation": "nesting deeper than the documented limit was parsed"}),
            ),
        }
    }
}

// ---------- precedence ----------------------------------------------------------------------------

#[derive(Clone, Debug)]
enum Atom {
    Leaf(F),
    Group(Vec<(Atom, bool)>), // (atom, joined-to-next-by-and?) ; last flag unused
    NotGroup(Vec<(Atom, bool)>),
    Complex(String, Vec<(CAtom, bool)>),
}
#[derive(Clone, Debug)]
enum CAtom {
    Leaf(C),
    Group(Vec<(CAtom, bool)>),
    NotGroup(Vec<(CAtom, bool)>),
}

/// canonical form modulo associativity
#[derive(Clone, Debug, PartialEq)]
enum Nf {
    Or(Vec<Nf>),
    And(Vec<Nf>),
    Not(Box<Nf>),
    Leaf(String),
    Complex(String, Box<Nf>),
}

fn nf_or(parts: Vec<Nf>) -> Nf {
    let mut out = Vec::new();
    for p in parts {
        match p {
            Nf::Or(v) => out.extend(v),
            x => out.push(x),
        }
    }
    if out.len() == 1 {
        out.remove(0)
    } else {
        Nf::Or(out)
    }
}
fn nf_and(parts: Vec<Nf>) -> Nf {
    let mut out = Vec::new();
    for p in parts {
        match p {
            Nf::And(v) => out.extend(v),
            x => out.push(x),
        }
    }
    if out.len() == 1 {
        out.remove(0)
    } else {
        Nf::And(out)
    }
}

fn nf_of_c(c: &C) -> Nf {
    match c {
        C::Or(a, b) => nf_or(vec![nf_of_c(a), nf_of_c(b)]),
        C::And(a, b) => nf_and(vec![nf_of_c(a), nf_of_c(b)]),
        C::Not(e) => Nf::Not(Box::new(nf_of_c(e))),
        leaf => Nf::Leaf(format!("{leaf:?}")),
    }
}
fn nf_of_f(f: &F) -> Nf {
    match f {
        F::Or(a, b) => nf_or(vec![nf_of_f(a), nf_of_f(b)]),
        F::And(a, b) => nf_and(vec![nf_of_f(a), nf_of_f(b)]),
        F::Not(e) => Nf::Not(Box::new(nf_of_f(e))),
        F::Complex(a, c) => Nf::Complex(a.clone(), Box::new(nf_of_c(c))),
        leaf => Nf::Leaf(format!("{leaf:?}")),
    }
}

/// the reference reading of a token sequence: OR of AND-runs
fn nf_of_seq<A>(seq: &[(A, bool)], atom: &dyn Fn(&A) -> Nf) -> Nf {
    let mut ors = Vec::new();
    let mut run = Vec::new();
    for (i, (a, and_next)) in seq.iter().enumerate() {
        run.push(atom(a));
        let last = i + 1 == seq.len();
        if last || !*and_next {
            ors.push(nf_and(std::mem::take(&mut run)));
        }
    }
    nf_or(ors)
}
fn nf_of_catom(a: &CAtom) -> Nf {
    match a {
        CAtom::Leaf(c) => nf_of_c(c),
        CAtom::Group(s) => nf_of_seq(s, &nf_of_catom),
        CAtom::NotGroup(s) => Nf::Not(Box::new(nf_of_seq(s, &nf_of_catom))),
    }
}
fn nf_of_atom(a: &Atom) -> Nf {
    match a {
        Atom::Leaf(f) => nf_of_f(f),
        Atom::Group(s) => nf_of_seq(s, &nf_of_atom),
        Atom::NotGroup(s) => Nf::Not(Box::new(nf_of_seq(s, &nf_of_atom))),
        Atom::Complex(n, s) => Nf::Complex(n.clone(), Box::new(nf_of_seq(s, &nf_of_catom))),
    }
}

fn sep(rng: &mut Rng, odd: bool) -> String {
    if !odd {
        return " ".into();
    }
    let n = rng.range(1, 3);
    (0..n).map(|_| *rng.pick(&[' ', ' ', '\t', '\n'])).collect()
}

fn val_txt(v: &Json) -> String {
    v.to_string()
}
fn leaf_txt(f: &F, rng: &mut Rng, odd: bool) -> String {
    match f {
        F::Pres(a, s) => format!("{}{}{}pr", a, s.as_ref().map(|s| format!(".{s}")).unwrap_or_default(), sep(rng, odd)),
        F::Cmp(op, a, s, v) => format!(
            "{}{}{}{}{}{}",
            a,
            s.as_ref().map(|s| format!(".{s}")).unwrap_or_default(),
            sep(rng, odd),
            op.txt(),
            sep(rng, odd),
            val_txt(v)
        ),
        _ => unreachable!("leaf"),
    }
}
fn cleaf_txt(c: &C, rng: &mut Rng, odd: bool) -> String {
    match c {
        C::Pres(a) => format!("{a}{}pr", sep(rng, odd)),
        C::Cmp(op, a, v) => format!("{a}{}{}{}{}", sep(rng, odd), op.txt(), sep(rng, odd), val_txt(v)),
        _ => unreachable!("leaf"),
    }
}
fn cseq_txt(s: &[(CAtom, bool)], rng: &mut Rng, odd: bool) -> String {
    let mut out = String::new();
    for (i, (a, and_next)) in s.iter().enumerate() {
        out.push_str(&match a {
            CAtom::Leaf(c) => cleaf_txt(c, rng, odd),
            CAtom::Group(g) => format!("({})", cseq_txt(g, rng, odd)),
            CAtom::NotGroup(g) => format!("not{}({})", sep(rng, odd), cseq_txt(g, rng, odd)),
        });
        if i + 1 < s.len() {
            out.push_str(&format!("{}{}{}", sep(rng, odd), if *and_next { "and" } else { "or" }, sep(rng, odd)));
        }
    }
    out
}
fn seq_txt(s: &[(Atom, bool)], rng: &mut Rng, odd: bool) -> String {
    let mut out = String::new();
    for (i, (a, and_next)) in s.iter().enumerate() {
        out.push_str(&match a {
            Atom::Leaf(f) => leaf_txt(f, rng, odd),
            Atom::Group(g) => format!("({})", seq_txt(g, rng, odd)),
            Atom::NotGroup(g) => format!("not{}({})", sep(rng, odd), seq_txt(g, rng, odd)),
            Atom::Complex(n, g) => format!("{n}[{}]", cseq_txt(g, rng, odd)),
        });
        if i + 1 < s.len() {
            out.push_str(&format!("{}{}{}", sep(rng, odd), if *and_next { "and" } else { "or" }, sep(rng, odd)));
        }
    }
    out
}

fn gen_cseq(rng: &mut Rng, acc: &mut Acc, depth: usize) -> Vec<(CAtom, bool)> {
    let n = rng.range(1, 5) as usize;
    (0..n)
        .map(|_| {
            let a = if depth > 0 && rng.chance(1, 5) {
                if rng.bool() {
                    CAtom::Group(gen_cseq(rng, acc, depth - 1))
                } else {
                    CAtom::NotGroup(gen_cseq(rng, acc, depth - 1))
                }
            } else {
                CAtom::Leaf(gen_c(rng, acc, 0))
            };
            (a, rng.bool())
        })
        .collect()
}
fn gen_seq(rng: &mut Rng, acc: &mut Acc, depth: usize) -> Vec<(Atom, bool)> {
    let n = rng.range(2, 6) as usize;
    (0..n)
        .map(|_| {
            let a = if depth > 0 && rng.chance(1, 5) {
                match rng.below(3) {
                    0 => Atom::Group(gen_seq(rng, acc, depth - 1)),
                    1 => Atom::NotGroup(gen_seq(rng, acc, depth - 1)),
                    _ => Atom::Complex(gen_name(rng, acc), gen_cseq(rng, acc, 1)),
                }
            } else {
                Atom::Leaf(gen_leaf(rng, acc))
            };
            (a, rng.bool())
        })
        .collect()
}

/// every word of the filter grammar; a token string whose attribute names collide with one is not
/// judged for precedence when it is rejected (the statement's precedence clause says nothing on it)
const RESERVED: [&str; 13] = ["not", "and", "or", "pr", "eq", "ne", "co", "sw", "ew", "gt", "lt", "ge", "le"];
fn is_reserved(s: &str) -> bool {
    RESERVED.contains(&s)
}
fn c_has_reserved(c: &C) -> bool {
    match c {
        C::Or(a, b) | C::And(a, b) => c_has_reserved(a) || c_has_reserved(b),
        C::Not(e) => c_has_reserved(e),
        C::Pres(a) | C::Cmp(_, a, _) => is_reserved(a),
    }
}
fn f_has_reserved(f: &F) -> bool {
    match f {
        F::Or(a, b) | F::And(a, b) => f_has_reserved(a) || f_has_reserved(b),
        F::Not(e) => f_has_reserved(e),
        F::Pres(a, s) | F::Cmp(_, a, s, _) => is_reserved(a) || s.as_ref().map(|s| is_reserved(s)).unwrap_or(false),
        F::Complex(a, c) => is_reserved(a) || c_has_reserved(c),
    }
}
fn cseq_has_reserved(s: &[(CAtom, bool)]) -> bool {
    s.iter().any(|(a, _)| match a {
        CAtom::Leaf(c) => c_has_reserved(c),
        CAtom::Group(g) | CAtom::NotGroup(g) => cseq_has_reserved(g),
    })
}
fn seq_has_reserved(s: &[(Atom, bool)]) -> bool {
    s.iter().any(|(a, _)| match a {
        Atom::Leaf(f) => f_has_reserved(f),
        Atom::Group(g) | Atom::NotGroup(g) => seq_has_reserved(g),
        Atom::Complex(n, g) => is_reserved(n) || cseq_has_reserved(g),
    })
}

fn mixes(seq: &[(Atom, bool)]) -> bool {
    // at top level: an `or` somewhere before an `and` or vice versa
    let ops: Vec<bool> = seq.iter().take(seq.len().saturating_sub(1)).map(|x| x.1).collect();
    ops.iter().any(|x| *x) && ops.iter().any(|x| !*x)
}

/// Names as the subject's own types canonicalise them (kanidm_proto maps known attribute names,
/// case-insensitively, onto its enum): the expected grouping must use the same spelling.
fn canon_f<S: Subject>(f: &F) -> F {
    S::back(&S::build(f))
}
fn canon_c<S: Subject>(c: &C) -> C {
    match canon_f::<S>(&F::Complex("emails".into(), Box::new(c.clone()))) {
        F::Complex(_, c) => *c,
        _ => c.clone(),
    }
}
fn canon_cseq<S: Subject>(s: &[(CAtom, bool)]) -> Vec<(CAtom, bool)> {
    s.iter()
        .map(|(a, b)| {
            (
                match a {
                    CAtom::Leaf(c) => CAtom::Leaf(canon_c::<S>(c)),
                    CAtom::Group(g) => CAtom::Group(canon_cseq::<S>(g)),
                    CAtom::NotGroup(g) => CAtom::NotGroup(canon_cseq::<S>(g)),
                },
                *b,
            )
        })
        .collect()
}
fn canon_seq<S: Subject>(s: &[(Atom, bool)]) -> Vec<(Atom, bool)> {
    s.iter()
        .map(|(a, b)| {
            (
                match a {
                    Atom::Leaf(f) => Atom::Leaf(canon_f::<S>(f)),
                    Atom::Group(g) => Atom::Group(canon_seq::<S>(g)),
                    Atom::NotGroup(g) => Atom::NotGroup(canon_seq::<S>(g)),
                    Atom::Complex(n, g) => {
                        let n2 = match canon_f::<S>(&F::Complex(n.clone(), Box::new(C::Pres("value".into())))) {
                            F::Complex(n2, _) => n2,
                            _ => n.clone(),
                        };
                        Atom::Complex(n2, canon_cseq::<S>(g))
                    }
                },
                *b,
            )
        })
        .collect()
}

fn check_precedence<S: Subject>(acc: &mut Acc, seq: &[(Atom, bool)], rng: &mut Rng, odd: bool) {
    acc.eval();
    let text = seq_txt(seq, rng, odd);
    let want = nf_of_seq(&canon_seq::<S>(seq), &nf_of_atom);
    acc.count(&format!("{}.precedence", S::NAME));
    match S::parse(&text) {
        Err(e) => {
            if odd {
                acc.count("precedence.odd_whitespace_rejected_not_judged");
            } else if seq_has_reserved(seq) {
                acc.count("precedence.reserved_word_as_name_rejected_not_judged");
            } else {
                // every token string produced here is in the grammar of RFC 7644 filters
                acc.violation(
                    &format!("c42/precedence/token-string-rejected/{}", S::NAME),
                    json!({"subject": S::NAME, "text": text, "error": e, "explanation": "an un-parenthesised and/or token string was rejected"}),
                );
            }
        }
        Ok(t) => {
            let got = nf_of_f(&S::back(&t));
            if mixes(seq) {
                acc.nontrivial(&format!("{}|prec|{text}", S::NAME));
                acc.count("precedence.mixed_and_or");
            }
            if got == want {
                acc.count("precedence.agrees");
                if acc.samples.len() < 6 && mixes(seq) && text.len() < 200 {
                    acc.sample(json!({"subject": S::NAME, "text": text, "grouping": format!("{got:?}").chars().take(400).collect::<String>()}));
                }
            } else {
                acc.violation(
                    &format!("c42/precedence/and-or-grouping/{}", S::NAME),
                    json!({"subject": S::NAME, "text": text, "expected_grouping": format!("{want:?}"), "parsed_grouping": format!("{got:?}"),
                           "explanation": "AND must bind tighter than OR"}),
                );
            }
        }
    }
}

/// the canonical example of the statement, for every pair of operators
fn check_canonical<S: Subject>(acc: &mut Acc) {
    for o1 in OPS {
        for o2 in OPS {
            for o3 in OPS {
                acc.eval();
                let text = format!("a {} 1 or b {} \"x\" and c {} true", o1.txt(), o2.txt(), o3.txt());
                let with_parens = format!("a {} 1 or (b {} \"x\" and c {} true)", o1.txt(), o2.txt(), o3.txt());
                let wrong = format!("(a {} 1 or b {} \"x\") and c {} true", o1.txt(), o2.txt(), o3.txt());
                let (p, q, w) = (S::parse(&text), S::parse(&with_parens), S::parse(&wrong));
                acc.nontrivial_distinct();
                match (p, q, w) {
                    (Ok(p), Ok(q), Ok(w)) => {
                        if p != q || p == w || !matches!(S::back(&p), F::Or(..)) {
                            acc.violation(
                                &format!("c42/precedence/and-or-grouping/{}", S::NAME),
                                json!({"subject": S::NAME, "text": text, "parsed": format!("{:?}", S::back(&p)), "explanation": "`a or b and c` must equal `a or (b and c)`"}),
                            );
                        } else {
                            acc.count("precedence.canonical_agrees");
                        }
                    }
                    (p, q, w) => acc.violation(
                        &format!("c42/precedence/token-string-rejected/{}", S::NAME),
                        json!({"subject": S::NAME, "text": text, "results": format!("{:?} / {:?} / {:?}", p.is_ok(), q.is_ok(), w.is_ok())}),
                    ),
                }
            }
        }
    }
}

/// plain nests of parentheses / not around one atom, on both sides of the limit
fn check_plain_depth<S: Subject>(acc: &mut Acc) {
    for extra in 0..=300usize {
        for style in 0..2 {
            acc.eval();
            let (text, depth) = if style == 0 {
                (format!("{}a pr{}", "(".repeat(extra), ")".repeat(extra)), extra)
            } else {
                (format!("{}a pr{}", "not (".repeat(extra), ")".repeat(extra)), extra)
            };
            let r = S::parse(&text);
            acc.nontrivial_distinct();
            if depth < LIMIT {
                match r {
                    Ok(_) => acc.count("depth.plain.within_limit.accepted"),
                    Err(e) => acc.violation(
                        &format!("c42/depth/within-limit-rejected/{}", S::NAME),
                        json!({"subject": S::NAME, "nesting": depth, "style": style, "error": e}),
                    ),
                }
            } else if depth == LIMIT {
                acc.count(if r.is_ok() { "depth.at_128.accepted_not_judged" } else { "depth.at_128.rejected_not_judged" });
            } else {
                match r {
                    Err(_) => acc.count("depth.plain.over_limit.rejected"),
                    Ok(_) => acc.violation(
                        &format!("c42/depth/over-limit-accepted/{}", S::NAME),
                        json!({"subject": S::NAME, "nesting": depth, "style": style, "limit": LIMIT}),
                    ),
                }
            }
        }
    }
}

fn wide_floats<S: Subject>(acc: &mut Acc, rng: &mut Rng, n: usize) {
    // doubles whose JSON text needs a correctly rounding decimal conversion
    for i in 0..n {
        let f = match i % 3 {
            0 => f64::from_bits(rng.next()),
            1 => (rng.range(1 << 52, 1 << 53) as f64) * 10f64.powi(rng.below(3) as i32), // integer valued, 16-18 digits
            _ => rng.next() as f64 / (1u64 << 20) as f64,
        };
        if !f.is_finite() {
            continue;
        }
        acc.eval();
        let t = F::Cmp(*rng.pick(&OPS), "a".into(), None, json!(f));
        let exact_class = float_exact(f);
        acc.count(if exact_class { "float.exact_class" } else { "float.wide_class" });
        acc.nontrivial(&format!("{}|float|{f:e}", S::NAME));
        match roundtrip_fails::<S>(&t) {
            None => acc.count("float.wide.roundtrip_equal"),
            Some((text, what)) => {
                acc.count("float.wide.roundtrip_differs");
                let sig = format!("c42/roundtrip-differs/float-precision/{}", S::NAME);
                if acc.violations.iter().filter(|v| v.signature == sig).count() >= 3 {
                    acc.count("float.wide.roundtrip_differs.witness_not_stored");
                    continue;
                }
                acc.violation(
                    &format!("c42/roundtrip-differs/float-precision/{}", S::NAME),
                    json!({"subject": S::NAME, "filter": format!("{t:?}"), "printed": text, "outcome": what, "in_exact_class": exact_class,
                           "explanation": "the printed decimal form of a finite double comparison value is parsed back to a different double (JSON number parsing without correct rounding)"}),
                );
            }
        }
    }
}

fn one_subject<S: Subject>(acc: &mut Acc, rng: &mut Rng, trees: u64, w: usize) {
    if w == 0 {
        check_canonical::<S>(acc);
        check_plain_depth::<S>(acc);
        wide_floats::<S>(acc, rng, 3000);
    }
    for i in 0..trees {
        match i % 8 {
            0..=4 => {
                let d = rng.range(0, 7) as usize;
                let f = gen_f(rng, acc, d);
                check_roundtrip::<S>(acc, &f, "random_tree");
            }
            5 => {
                // chains around the limit (both sides)
                let target = if rng.chance(1, 3) { rng.range(120, 140) } else { rng.range(2, 200) } as usize;
                let cx = rng.bool();
                let f = gen_chain(rng, acc, target, cx);
                check_roundtrip::<S>(acc, &f, "deep_chain");
            }
            _ => {
                let odd = rng.chance(1, 5);
                let seq = gen_seq(rng, acc, 2);
                check_precedence::<S>(acc, &seq, rng, odd);
            }
        }
    }
}

pub fn run(args: Args) {
    let mut run = Run::new(
        args.clone(),
        "exploration",
        "random filter trees (all ten operators, attribute paths with sub-attributes, complex attribute filters, string/integer/float/bool/null values with escapes; names drawn from known attributes, random valid SCIM names and grammar keywords), deep and/or/not/complex chains on both sides of the nesting limit, and un-parenthesised and/or token strings; non-trivial = a tree with more than one node, a chain over the limit, or a token string mixing `and` and `or` at one level; distinct by (subject, printed text)",
    );
    run.assume("the abstract tree is converted into kanidm_proto's public enum directly and into scim_proto's through its serde form (its AttrPath fields are private); neither route touches the parser under test");
    run.assume("inside random trees floats are drawn from doubles whose JSON text is exact under any decimal conversion (digit string <= 2^53, |decimal exponent| <= 22); doubles outside that class are judged in a dedicated single-leaf check under their own signature c42/roundtrip-differs/float-precision/*");
    run.assume("printed nesting counts parentheses and brackets; 127 nested levels and fewer must parse, 129 and more must be rejected, exactly 128 is recorded but not judged (the statement does not fix whether the flat level counts)");
    if let Some(p) = &args.replay {
        if let Some(w) = kvcore::run::load_replay(p) {
            println!("replay witness: {w}");
            for key in ["minimal_printed", "text", "original_printed"] {
                if let Some(t) = w.get(key).and_then(|t| t.as_str()) {
                    println!("kanidm_proto parse({key}) = {:?}", Proto::parse(t).map(|f| Proto::back(&f)));
                    println!("scim_proto  parse({key}) = {:?}", Libs::parse(t).map(|f| Libs::back(&f)));
                }
            }
        }
    }
    let total: u64 = args.tier.pick(240_000, 3_000_000);
    let seed = args.seed;
    let workers = args.workers;
    run.parallel(workers, |w, n| {
        let mut acc = Acc::new();
        let mut rng = Rng::new(kvcore::rng::mix(seed, w as u64, 42));
        let per = total / n as u64 / 2;
        one_subject::<Proto>(&mut acc, &mut rng, per, w);
        one_subject::<Libs>(&mut acc, &mut rng, per, w);
        acc
    });
    run.extra("limit", json!(LIMIT));
    for op in ["pr", "eq", "ne", "co", "sw", "ew", "gt", "lt", "ge", "le"] {
        let seen = run.acc.get(&format!("gen.op.{op}")) > 0;
        run.require(seen, &format!("operator {op} never generated"));
    }
    for k in [
        "gen.and", "gen.or", "gen.not", "gen.complex", "gen.subattr_path", "gen.name.keywordish", "gen.name.random", "gen.value.string",
        "gen.value.integer", "gen.value.float", "gen.value.bool", "gen.value.null", "roundtrip.equal", "precedence.agrees", "precedence.mixed_and_or",
        "precedence.canonical_agrees", "depth.over_limit.rejected", "depth.plain.within_limit.accepted", "depth.plain.over_limit.rejected",
        "float.wide_class", "float.exact_class", "kanidm_proto.roundtrip.random_tree", "kanidm_proto.roundtrip.deep_chain", "kanidm_proto.precedence", "scim_proto.roundtrip.random_tree",
        "scim_proto.precedence",
    ] {
        let seen = run.acc.get(k) > 0;
        run.require(seen, &format!("{k} never observed"));
    }
    let deep_ok = run.acc.sets.get("printed_depths_within_limit").map(|s| s.contains("127") && s.len() >= 60).unwrap_or(false);
    run.require(deep_ok, "no accepted filter at the deepest allowed nesting (127) or too few distinct depths");
    run.finish();
}
