//! Real replication payloads captured from a real pair of in-memory servers.
//!
//! Used by C14 (frames carrying real contexts) and C12 (storage encodings that travelled through a
//! real refresh / incremental exchange).

use kanidmd_lib::entry::{Entry, EntryInit, EntryNew};
use kanidmd_lib::prelude::*;
use kanidmd_lib::repl::proto::{ReplIncrementalContext, ReplRefreshContext, ReplRuvRange};
use kvcore::srv;

pub struct Captured {
    /// `ReplRefreshContext` of a freshly initialised server with a little content (JSON)
    pub refresh: String,
    /// `ReplRuvRange` reported by the consumer after the refresh (JSON)
    pub ruv_after_refresh: String,
    /// incremental context carrying a handful of changed entries (JSON)
    pub incremental_small: String,
    /// incremental context carrying creations, modifications and tombstones (JSON)
    pub incremental_mixed: String,
    /// `ReplRuvRange` reported once the consumer is up to date (JSON)
    pub ruv_up_to_date: String,
    /// what the supplier answers to an up-to-date consumer (JSON, normally NoChangesAvailable)
    pub incremental_nochange: String,
    /// what the supplier answers to a consumer of another domain (JSON, DomainMismatch)
    pub incremental_mismatch: String,
    /// dumps of both servers after the last exchange
    pub dump_a: srv::Dump,
    pub dump_b: srv::Dump,
}

fn j<T: serde::Serialize>(t: &T) -> String {
    serde_json::to_string(t).expect("serialise replication context")
}

async fn incr(a: &QueryServer, b: &QueryServer, ct: Duration) -> (String, String) {
    let state: ReplRuvRange = {
        let mut rd = b.read().await.expect("read b");
        rd.consumer_get_state().expect("consumer state")
    };
    let sj = j(&state);
    let changes: ReplIncrementalContext = {
        let mut rd = a.read().await.expect("read a");
        rd.supplier_provide_changes(state).expect("provide changes")
    };
    let cj = j(&changes);
    let mut wr = b.write(ct).await.expect("write b");
    wr.consumer_apply_changes(changes).expect("apply changes");
    wr.commit().expect("commit b");
    (sj, cj)
}

fn person(name: &str, u: Uuid) -> kanidmd_lib::entry::EntryInitNew {
    entry_init!(
        (Attribute::Class, EntryClass::Object.to_value()),
        (Attribute::Class, EntryClass::Account.to_value()),
        (Attribute::Class, EntryClass::Person.to_value()),
        (Attribute::Name, Value::new_iname(name)),
        (Attribute::Uuid, Value::Uuid(u)),
        (Attribute::Description, Value::new_utf8s("captured \"payload\" \\ entry")),
        (Attribute::DisplayName, Value::new_utf8s(name))
    )
}

fn group(name: &str, u: Uuid, members: &[Uuid]) -> kanidmd_lib::entry::EntryInitNew {
    let mut e = entry_init!(
        (Attribute::Class, EntryClass::Object.to_value()),
        (Attribute::Class, EntryClass::Group.to_value()),
        (Attribute::Name, Value::new_iname(name)),
        (Attribute::Uuid, Value::Uuid(u))
    );
    for m in members {
        e.add_ava(Attribute::Member, Value::Refer(*m));
    }
    e
}

pub async fn capture(seed: u64) -> Captured {
    let mut rng = kvcore::Rng::new(kvcore::rng::mix(seed, 0xC14, 0xCAFE));
    let a = srv::mk_mem_server().await;
    let b = srv::mk_mem_server().await;
    let mut ct = srv::T0 + Duration::from_secs(10);
    let people: Vec<Uuid> = (0..6).map(|_| rng.uuid()).collect();
    let groups: Vec<Uuid> = (0..3).map(|_| rng.uuid()).collect();
    {
        let mut wr = a.write(ct).await.expect("write a");
        let es: Vec<_> = people
            .iter()
            .take(3)
            .enumerate()
            .map(|(i, u)| person(&format!("cap_person_{i}"), *u))
            .collect();
        wr.internal_create(es).expect("create people");
        wr.internal_create(vec![group("cap_group_0", groups[0], &people[..2])])
            .expect("create group");
        wr.commit().expect("commit a");
    }
    ct += Duration::from_secs(5);
    // refresh b from a
    let refresh: ReplRefreshContext = {
        let mut rd = a.read().await.expect("read a");
        rd.supplier_provide_refresh().expect("provide refresh")
    };
    let refresh_json = j(&refresh);
    {
        let mut wr = b.write(ct).await.expect("write b");
        wr.consumer_apply_refresh(refresh).expect("apply refresh");
        wr.commit().expect("commit b");
    }
    ct += Duration::from_secs(5);
    // small change
    {
        let mut wr = a.write(ct).await.expect("write a");
        wr.internal_modify_uuid(
            people[0],
            &ModifyList::new_purge_and_set(
                Attribute::DisplayName,
                Value::new_utf8s("renamed \u{00e9}\u{4e16} \"q\""),
            ),
        )
        .expect("modify");
        wr.commit().expect("commit a");
    }
    ct += Duration::from_secs(5);
    let (ruv_after_refresh, incremental_small) = incr(&a, &b, ct).await;
    ct += Duration::from_secs(5);
    // mixed changes: creations, membership, deletes
    {
        let mut wr = a.write(ct).await.expect("write a");
        let es: Vec<_> = people
            .iter()
            .enumerate()
            .skip(3)
            .map(|(i, u)| person(&format!("cap_person_{i}"), *u))
            .collect();
        wr.internal_create(es).expect("create more people");
        wr.internal_create(vec![
            group("cap_group_1", groups[1], &people[2..5]),
            group("cap_group_2", groups[2], &[groups[1]]),
        ])
        .expect("create groups");
        wr.internal_delete_uuid(people[1]).expect("delete");
        wr.commit().expect("commit a");
    }
    ct += Duration::from_secs(5);
    let (_, incremental_mixed) = incr(&a, &b, ct).await;
    ct += Duration::from_secs(5);
    let (ruv_up_to_date, incremental_nochange) = incr(&a, &b, ct).await;
    // a consumer from another domain
    let incremental_mismatch = {
        let other = ReplRuvRange::V1 {
            domain_uuid: rng.uuid(),
            ranges: Default::default(),
        };
        let mut rd = a.read().await.expect("read a");
        j(&rd.supplier_provide_changes(other).expect("provide changes"))
    };
    let dump_a = srv::dump(&a).await;
    let dump_b = srv::dump(&b).await;
    Captured {
        refresh: refresh_json,
        ruv_after_refresh,
        incremental_small,
        incremental_mixed,
        ruv_up_to_date,
        incremental_nochange,
        incremental_mismatch,
        dump_a,
        dump_b,
    }
}
