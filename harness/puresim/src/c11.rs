//! C11 Replicated session and key revocations are never lost.
//!
//! The real `repl_merge_valueset` of the session / OAuth2 session / API token / key-internal /
//! audit-log value sets, composed exactly as `Entry::merge_state` composes it for one attribute
//! (the side with the greater attribute change id takes the left role, on equal ids the stored
//! side does; `None` from the merge means "take the left value"). Oracle: every order and
//! grouping of 2 and 3 replicas gives the same result (compared through the storage encoding), the
//! result equals an independent per-key reference (documented state order; earliest revocation
//! for sessions; bounded newest-first union for audit strings; newest replica for API tokens),
//! merging a state with itself changes nothing.
//!
//! Trimming: a revocation whose change id is older than the trim point is one whose changelog
//! window has expired; the statement allows it to disappear. Keys for which any input carries such
//! a revocation ("expired" keys) are excluded from every comparison and only counted.

use kanidmd_lib::prelude::*;
use kanidmd_lib::value::{ApiToken, AuthType, KeyStatus, KeyUsage, Oauth2Session, Session, SessionExtMetadata, SessionState};
use kanidmd_lib::valueset::{
    KeyInternalData, ValueSet, ValueSetApiTokenSet, ValueSetAuditLogString, ValueSetKeyInternal, ValueSetOauth2Session, ValueSetSession,
    AUDIT_LOG_STRING_CAPACITY,
};
use kvcore::{Acc, Args, Rng, Run};
use serde_json::{json, Value as Json};
use std::collections::{BTreeMap, BTreeSet};
use std::fmt::Debug;
use time::OffsetDateTime;

fn cid(ts: u64, server: u8) -> Cid {
    Cid { ts: Duration::from_secs(ts), s_uuid: Uuid::from_u128(0xC11_0000_0000 + server as u128) }
}
fn odt(secs: u64) -> OffsetDateTime {
    OffsetDateTime::UNIX_EPOCH + Duration::from_secs(1_700_000_000 + secs)
}
fn key_uuid(i: usize) -> Uuid {
    Uuid::from_u128(0x5E55_0000_0000_0000_0000_0000_0000_0000u128 + i as u128)
}

/// One replica's view of the attribute: keys present with their state, and the attribute's
/// last-change id on that replica.
type View<St> = BTreeMap<usize, St>;

trait Family {
    const NAME: &'static str;
    type St: Clone + Debug + PartialEq;
    /// small lattice for exhaustive enumeration (without "absent")
    fn lattice() -> Vec<Self::St>;
    fn random_state(rng: &mut Rng) -> Self::St;
    fn build(view: &View<Self::St>) -> ValueSet;
    fn extract(vs: &ValueSet) -> View<Self::St>;
    /// is this state a revocation whose change id is older than the trim point
    fn expired(st: &Self::St, trim: &Cid) -> bool;
    fn is_revoked(st: &Self::St) -> bool;
    /// independent statement of the merged result: key -> allowed states (missing = must be absent)
    fn reference(inputs: &[(Cid, View<Self::St>)], trim: &Cid) -> BTreeMap<usize, Vec<Self::St>>;
    /// narrower cause class when two compositions disagree on one key
    fn disagree_class(a: Option<&Self::St>, b: Option<&Self::St>) -> String {
        let _ = (a, b);
        "order-dependent".into()
    }
}

// ---------------------------------------------------------------------------------------------
// sessions

fn session_reference(inputs: &[(Cid, View<SessionState>)], trim: &Cid) -> BTreeMap<usize, Vec<SessionState>> {
    let mut keys = BTreeSet::new();
    for (_, v) in inputs {
        keys.extend(v.keys().copied());
    }
    let mut out = BTreeMap::new();
    for k in keys {
        let states: Vec<&SessionState> = inputs.iter().filter_map(|(_, v)| v.get(&k)).collect();
        // documented order: revoked (earliest change id) > expires (latest) > never expires
        let revs: Vec<&Cid> = states.iter().filter_map(|s| if let SessionState::RevokedAt(c) = s { Some(c) } else { None }).collect();
        let exps: Vec<&OffsetDateTime> = states.iter().filter_map(|s| if let SessionState::ExpiresAt(t) = s { Some(t) } else { None }).collect();
        let st = if let Some(c) = revs.iter().min() {
            SessionState::RevokedAt((*c).clone())
        } else if let Some(t) = exps.iter().max() {
            SessionState::ExpiresAt(**t)
        } else {
            SessionState::NeverExpires
        };
        match &st {
            SessionState::RevokedAt(c) if c < trim => {} // window expired: gone
            _ => {
                out.insert(k, vec![st]);
            }
        }
    }
    out
}

fn session_lattice() -> Vec<SessionState> {
    vec![
        SessionState::NeverExpires,
        SessionState::ExpiresAt(odt(1000)),
        SessionState::ExpiresAt(odt(2000)),
        SessionState::RevokedAt(cid(10, 7)), // older than the middle trim point (20)
        SessionState::RevokedAt(cid(30, 8)),
        SessionState::RevokedAt(cid(40, 9)),
    ]
}
fn session_random(rng: &mut Rng) -> SessionState {
    match rng.below(5) {
        0 => SessionState::NeverExpires,
        1 | 2 => SessionState::ExpiresAt(odt(rng.below(6) * 500)),
        _ => SessionState::RevokedAt(cid(rng.below(50), rng.below(3) as u8)),
    }
}

struct Sess;
impl Family for Sess {
    const NAME: &'static str = "session";
    type St = SessionState;
    fn lattice() -> Vec<SessionState> {
        session_lattice()
    }
    fn random_state(rng: &mut Rng) -> SessionState {
        session_random(rng)
    }
    fn build(view: &View<SessionState>) -> ValueSet {
        let mut it = view.iter().map(|(k, st)| {
            (
                key_uuid(*k),
                Session {
                    label: format!("session {k}"),
                    state: st.clone(),
                    // distinct issue times (immutable per session)
                    issued_at: odt(*k as u64),
                    issued_by: IdentityId::User(key_uuid(9000 + *k)),
                    cred_id: key_uuid(8000 + *k),
                    scope: if k % 2 == 0 { SessionScope::ReadOnly } else { SessionScope::PrivilegeCapable },
                    type_: if k % 3 == 0 { AuthType::Passkey } else { AuthType::PasswordTotp },
                    ext_metadata: SessionExtMetadata::None,
                },
            )
        });
        let (u, s) = it.next().expect("non-empty view");
        let mut vs = ValueSetSession::new(u, s);
        for (u, s) in it {
            vs.push(u, s);
        }
        vs
    }
    fn extract(vs: &ValueSet) -> View<SessionState> {
        vs.as_session_map()
            .map(|m| m.iter().map(|(u, s)| ((u.as_u128() & 0xffff_ffff) as usize, s.state.clone())).collect())
            .unwrap_or_default()
    }
    fn expired(st: &SessionState, trim: &Cid) -> bool {
        matches!(st, SessionState::RevokedAt(c) if c < trim)
    }
    fn is_revoked(st: &SessionState) -> bool {
        matches!(st, SessionState::RevokedAt(_))
    }
    fn reference(inputs: &[(Cid, View<SessionState>)], trim: &Cid) -> BTreeMap<usize, Vec<SessionState>> {
        session_reference(inputs, trim)
    }
}

struct OSess;
impl Family for OSess {
    const NAME: &'static str = "oauth2session";
    type St = SessionState;
    fn lattice() -> Vec<SessionState> {
        session_lattice()
    }
    fn random_state(rng: &mut Rng) -> SessionState {
        session_random(rng)
    }
    fn build(view: &View<SessionState>) -> ValueSet {
        let mut it = view.iter().map(|(k, st)| {
            (
                key_uuid(*k),
                Oauth2Session {
                    parent: if k % 2 == 0 { Some(key_uuid(7000 + *k)) } else { None },
                    state: st.clone(),
                    issued_at: odt(*k as u64),
                    rs_uuid: key_uuid(6000 + (*k % 2)),
                },
            )
        });
        let (u, s) = it.next().expect("non-empty view");
        let mut vs = ValueSetOauth2Session::new(u, s);
        for (u, s) in it {
            vs.push(u, s);
        }
        vs
    }
    fn extract(vs: &ValueSet) -> View<SessionState> {
        vs.as_oauth2session_map()
            .map(|m| m.iter().map(|(u, s)| ((u.as_u128() & 0xffff_ffff) as usize, s.state.clone())).collect())
            .unwrap_or_default()
    }
    fn expired(st: &SessionState, trim: &Cid) -> bool {
        matches!(st, SessionState::RevokedAt(c) if c < trim)
    }
    fn is_revoked(st: &SessionState) -> bool {
        matches!(st, SessionState::RevokedAt(_))
    }
    fn reference(inputs: &[(Cid, View<SessionState>)], trim: &Cid) -> BTreeMap<usize, Vec<SessionState>> {
        session_reference(inputs, trim)
    }
}

// ---------------------------------------------------------------------------------------------
// key internal: valid < retained < revoked; each with the change id at which it was set

type KeySt = (KeyStatus, Cid);

struct Keys;
impl Family for Keys {
    const NAME: &'static str = "keyinternal";
    type St = KeySt;
    fn lattice() -> Vec<KeySt> {
        vec![
            (KeyStatus::Valid, cid(5, 1)), // creation id: the same on every replica
            (KeyStatus::Retained, cid(30, 2)),
            (KeyStatus::Retained, cid(40, 3)),
            (KeyStatus::Revoked, cid(10, 7)), // older than the middle trim point (20)
            (KeyStatus::Revoked, cid(30, 8)),
            (KeyStatus::Revoked, cid(40, 9)),
        ]
    }
    fn random_state(rng: &mut Rng) -> KeySt {
        match rng.below(4) {
            0 => (KeyStatus::Valid, cid(5, 1)),
            1 => (KeyStatus::Retained, cid(rng.below(50), rng.below(3) as u8)),
            _ => (KeyStatus::Revoked, cid(rng.below(50), rng.below(3) as u8)),
        }
    }
    fn build(view: &View<KeySt>) -> ValueSet {
        let it = view.iter().map(|(k, (status, status_cid))| {
            (
                format!("key{k:06}").into(),
                KeyInternalData {
                    usage: if k % 2 == 0 { KeyUsage::JwsEs256 } else { KeyUsage::JweA128GCM },
                    valid_from: 1000 + *k as u64,
                    status: *status,
                    status_cid: status_cid.clone(),
                    der: vec![*k as u8; 8].into(),
                },
            )
        });
        ValueSetKeyInternal::from_key_iter(it).expect("key internal set")
    }
    fn extract(vs: &ValueSet) -> View<KeySt> {
        vs.as_key_internal_map()
            .map(|m| {
                m.iter()
                    .map(|(id, d)| (id.as_str().trim_start_matches("key").parse::<usize>().unwrap_or(usize::MAX), (d.status, d.status_cid.clone())))
                    .collect()
            })
            .unwrap_or_default()
    }
    fn expired(st: &KeySt, trim: &Cid) -> bool {
        st.0 == KeyStatus::Revoked && &st.1 < trim
    }
    fn is_revoked(st: &KeySt) -> bool {
        st.0 == KeyStatus::Revoked
    }
    fn reference(inputs: &[(Cid, View<KeySt>)], _trim: &Cid) -> BTreeMap<usize, Vec<KeySt>> {
        // The statement fixes the status lattice (revoked dominates) and order independence, not a
        // tie-break between equal statuses set at different change ids: any of them is allowed,
        // provided every order and grouping picks the same one (checked separately).
        let mut keys = BTreeSet::new();
        for (_, v) in inputs {
            keys.extend(v.keys().copied());
        }
        let mut out = BTreeMap::new();
        for k in keys {
            let states: Vec<&KeySt> = inputs.iter().filter_map(|(_, v)| v.get(&k)).collect();
            let top = states.iter().map(|s| s.0).max().expect("non-empty");
            let mut allowed: Vec<KeySt> = states.iter().filter(|s| s.0 == top).map(|s| (*s).clone()).collect();
            allowed.dedup();
            out.insert(k, allowed);
        }
        out
    }
    fn disagree_class(a: Option<&KeySt>, b: Option<&KeySt>) -> String {
        match (a, b) {
            (Some(x), Some(y)) if x.0 == y.0 && x.1 != y.1 => format!("order-dependent-status-cid/{}", x.0),
            _ => "order-dependent".into(),
        }
    }
}

// ---------------------------------------------------------------------------------------------
// audit log strings: key = change id of the log line; bounded, newest kept

struct Audit;
impl Audit {
    fn key_cid(k: usize) -> Cid {
        cid(100 + (k as u64) / 2, (k % 2) as u8)
    }
}
impl Family for Audit {
    const NAME: &'static str = "auditlogstring";
    type St = ();
    fn lattice() -> Vec<()> {
        vec![()]
    }
    fn random_state(_rng: &mut Rng) {}
    fn build(view: &View<()>) -> ValueSet {
        let mut it = view.keys().map(|k| (Self::key_cid(*k), format!("audit line {k} \"q\"")));
        let mut vs: ValueSet = ValueSetAuditLogString::new(it.next().expect("non-empty view"));
        for (c, s) in it {
            vs.insert_checked(Value::AuditLogString(c, s)).expect("insert audit string");
        }
        vs
    }
    fn extract(vs: &ValueSet) -> View<()> {
        vs.as_audit_log_string()
            .map(|m| m.keys().map(|c| (((c.ts.as_secs() - 100) * 2 + (c.s_uuid.as_u128() & 1) as u64) as usize, ())).collect())
            .unwrap_or_default()
    }
    fn expired(_st: &(), _trim: &Cid) -> bool {
        false
    }
    fn is_revoked(_st: &()) -> bool {
        false
    }
    fn reference(inputs: &[(Cid, View<()>)], _trim: &Cid) -> BTreeMap<usize, Vec<()>> {
        let mut all: BTreeSet<(Cid, usize)> = BTreeSet::new();
        for (_, v) in inputs {
            for k in v.keys() {
                all.insert((Self::key_cid(*k), *k));
            }
        }
        // bounded: the newest AUDIT_LOG_STRING_CAPACITY lines survive
        all.iter().rev().take(AUDIT_LOG_STRING_CAPACITY).map(|(_, k)| (*k, vec![()])).collect()
    }
}

// ---------------------------------------------------------------------------------------------
// API tokens: no merge strategy, the newest replica's attribute wins as a whole

struct Tokens;
impl Family for Tokens {
    const NAME: &'static str = "apitoken";
    type St = Option<u64>; // expiry
    fn lattice() -> Vec<Option<u64>> {
        vec![None, Some(1000), Some(2000)]
    }
    fn random_state(rng: &mut Rng) -> Option<u64> {
        if rng.bool() {
            None
        } else {
            Some(rng.below(5) * 1000)
        }
    }
    fn build(view: &View<Option<u64>>) -> ValueSet {
        let mut it = view.iter().map(|(k, st)| {
            (
                key_uuid(*k),
                ApiToken {
                    label: format!("token {k}"),
                    expiry: st.map(odt),
                    issued_at: odt(*k as u64),
                    issued_by: IdentityId::User(key_uuid(9000 + *k)),
                    scope: if k % 2 == 0 { ApiTokenScope::ReadOnly } else { ApiTokenScope::ReadWrite },
                },
            )
        });
        let (u, s) = it.next().expect("non-empty view");
        let mut vs = ValueSetApiTokenSet::new(u, s);
        for (u, s) in it {
            vs.push(u, s);
        }
        vs
    }
    fn extract(vs: &ValueSet) -> View<Option<u64>> {
        vs.as_apitoken_map()
            .map(|m| {
                m.iter()
                    .map(|(u, t)| ((u.as_u128() & 0xffff_ffff) as usize, t.expiry.map(|e| (e - odt(0)).whole_seconds() as u64)))
                    .collect()
            })
            .unwrap_or_default()
    }
    fn expired(_st: &Option<u64>, _trim: &Cid) -> bool {
        false
    }
    fn is_revoked(_st: &Option<u64>) -> bool {
        false
    }
    fn reference(inputs: &[(Cid, View<Option<u64>>)], _trim: &Cid) -> BTreeMap<usize, Vec<Option<u64>>> {
        let newest = inputs.iter().max_by(|a, b| a.0.cmp(&b.0)).expect("inputs");
        newest.1.iter().map(|(k, v)| (*k, vec![*v])).collect()
    }
}

// ---------------------------------------------------------------------------------------------
// composition exactly as Entry::merge_state does it for one attribute present on both sides

#[derive(Clone)]
struct Rep {
    vs: ValueSet,
    cid: Cid,
}

/// `left` is the incoming entry's attribute, `right` the stored one.
fn compose(left: &Rep, right: &Rep, trim: &Cid) -> Rep {
    let take_left = left.cid > right.cid;
    if take_left {
        let vs = left.vs.repl_merge_valueset(&right.vs, trim).unwrap_or_else(|| left.vs.clone());
        Rep { vs, cid: left.cid.clone() }
    } else {
        let vs = right.vs.repl_merge_valueset(&left.vs, trim).unwrap_or_else(|| right.vs.clone());
        Rep { vs, cid: right.cid.clone() }
    }
}

fn enc(vs: &ValueSet) -> Json {
    serde_json::to_value(vs.to_db_valueset_v2()).unwrap_or(Json::Null)
}

fn view_dbg<St: Debug>(v: &View<St>) -> String {
    format!("{v:?}")
}

/// All ways of merging the inputs: (label, result)
fn compositions(reps: &[Rep], trim: &Cid) -> Vec<(String, Rep)> {
    let mut out = Vec::new();
    match reps.len() {
        1 => out.push(("x*x".to_string(), compose(&reps[0], &reps[0], trim))),
        2 => {
            out.push(("0*1".into(), compose(&reps[0], &reps[1], trim)));
            out.push(("1*0".into(), compose(&reps[1], &reps[0], trim)));
        }
        3 => {
            for p in [[0, 1, 2], [0, 2, 1], [1, 0, 2], [1, 2, 0], [2, 0, 1], [2, 1, 0]] {
                let (a, b, c) = (&reps[p[0]], &reps[p[1]], &reps[p[2]]);
                out.push((format!("({}*{})*{}", p[0], p[1], p[2]), compose(&compose(a, b, trim), c, trim)));
                out.push((format!("{}*({}*{})", p[0], p[1], p[2]), compose(a, &compose(b, c, trim), trim)));
            }
        }
        _ => unreachable!("1..3 inputs"),
    }
    out
}

struct CaseOut {
    judged_keys: usize,
    expired_keys: usize,
}

struct Eval<St> {
    violation: Option<(String, Json)>,
    merged: View<St>,
    judged_keys: usize,
    expired: BTreeSet<usize>,
    all_keys: BTreeSet<usize>,
    any_revoked: bool,
    compositions: usize,
}

/// Run every composition of the inputs and judge them. Pure: no accounting.
fn evaluate<Fm: Family>(inputs: &[(Cid, View<Fm::St>)], trim: &Cid, over_session_max: bool) -> Eval<Fm::St> {
    let reps: Vec<Rep> = inputs.iter().map(|(c, v)| Rep { vs: Fm::build(v), cid: c.clone() }).collect();
    let fam = Fm::NAME;
    // keys whose revocation is older than the trim point on any input: the statement lets them go
    let mut expired: BTreeSet<usize> = BTreeSet::new();
    let mut all_keys: BTreeSet<usize> = BTreeSet::new();
    let mut any_revoked = false;
    for (_, v) in inputs {
        for (k, st) in v {
            all_keys.insert(*k);
            if Fm::expired(st, trim) {
                expired.insert(*k);
            }
            if Fm::is_revoked(st) {
                any_revoked = true;
            }
        }
    }
    let comps = compositions(&reps, trim);
    let witness = |why: &str, extra: Json| {
        json!({
            "family": fam, "trim_cid": format!("{trim:?}"),
            "inputs": inputs.iter().enumerate().map(|(i, (c, v))| json!({"replica": i, "attr_cid": format!("{c:?}"), "keys": view_dbg(v)})).collect::<Vec<_>>(),
            "expired_keys_not_judged": expired, "explanation": why, "detail": extra,
        })
    };
    let max_cid = inputs.iter().map(|(c, _)| c.clone()).max().expect("inputs");
    let views: Vec<View<Fm::St>> = comps.iter().map(|(_, r)| Fm::extract(&r.vs)).collect();
    let mut violation: Option<(String, Json)> = None;
    // 1. order / grouping independence
    let restrict = |v: &View<Fm::St>| -> View<Fm::St> { v.iter().filter(|(k, _)| !expired.contains(k)).map(|(k, s)| (*k, s.clone())).collect() };
    let base_view = restrict(&views[0]);
    let base_enc = enc(&comps[0].1.vs);
    for (i, (label, r)) in comps.iter().enumerate() {
        let same = i == 0 || if expired.is_empty() { enc(&r.vs) == base_enc } else { restrict(&views[i]) == base_view };
        if !same {
            // find a key that differs for the cause class
            let vi = restrict(&views[i]);
            let k = all_keys.iter().find(|k| vi.get(k) != base_view.get(k)).copied();
            let cls = match k {
                Some(k) => Fm::disagree_class(base_view.get(&k), vi.get(&k)),
                None => "order-dependent-encoding".into(),
            };
            violation = Some((
                format!("c11/{fam}/{cls}"),
                witness(
                    "two orders/groupings of the same merges give different results",
                    json!({"composition_a": comps[0].0, "result_a": view_dbg(&views[0]), "composition_b": label, "result_b": view_dbg(&views[i]), "differing_key": k}),
                ),
            ));
            break;
        }
        if r.cid != max_cid {
            violation = Some((
                format!("c11/{fam}/attr-cid-not-newest"),
                witness("the merged attribute does not carry the newest change id", json!({"composition": label, "cid": format!("{:?}", r.cid)})),
            ));
            break;
        }
    }
    // 2. the result is the documented join (per key), judged on the first composition
    let mut judged = 0;
    if violation.is_none() && !over_session_max {
        let want = Fm::reference(inputs, trim);
        for k in &all_keys {
            if expired.contains(k) {
                continue;
            }
            judged += 1;
            let got = views[0].get(k);
            let allowed = want.get(k);
            let ok = match (got, allowed) {
                (None, None) => true,
                (Some(g), Some(a)) => a.contains(g),
                _ => false,
            };
            if !ok {
                let input_states: Vec<&Fm::St> = inputs.iter().filter_map(|(_, v)| v.get(k)).collect();
                let some_revoked = input_states.iter().any(|s| Fm::is_revoked(s));
                let cls = if some_revoked && !got.map(|g| Fm::is_revoked(g)).unwrap_or(false) {
                    "revocation-lost"
                } else if some_revoked {
                    "revocation-not-earliest"
                } else if inputs.len() == 1 {
                    "not-idempotent"
                } else {
                    "differs-from-documented-merge"
                };
                violation = Some((
                    format!("c11/{fam}/{cls}"),
                    witness("the merged state of a key is not the documented one", json!({"key": k, "got": format!("{got:?}"), "allowed": format!("{allowed:?}"), "composition": comps[0].0})),
                ));
                break;
            }
        }
        if violation.is_none() && inputs.len() == 1 && expired.is_empty() && enc(&comps[0].1.vs) != enc(&reps[0].vs) {
            // idempotence through the storage encoding
            violation = Some((format!("c11/{fam}/not-idempotent"), witness("merging a state with itself changed its storage encoding", json!({}))));
        }
    }
    Eval { violation, merged: views[0].clone(), judged_keys: judged, expired, all_keys, any_revoked, compositions: comps.len() }
}

/// Greedy shrink: drop keys, then whole replicas, while the same signature is produced.
fn shrink<Fm: Family>(inputs: &[(Cid, View<Fm::St>)], trim: &Cid, over: bool, sig: &str) -> Vec<(Cid, View<Fm::St>)> {
    let mut cur: Vec<(Cid, View<Fm::St>)> = inputs.to_vec();
    let same = |cand: &[(Cid, View<Fm::St>)]| -> bool {
        cand.iter().all(|(_, v)| !v.is_empty()) && evaluate::<Fm>(cand, trim, over).violation.map(|(s, _)| s == sig).unwrap_or(false)
    };
    loop {
        let mut progressed = false;
        // drop one replica
        if cur.len() > 2 {
            for i in 0..cur.len() {
                let mut cand = cur.clone();
                cand.remove(i);
                if same(&cand) {
                    cur = cand;
                    progressed = true;
                    break;
                }
            }
        }
        // drop one key occurrence
        'k: for i in 0..cur.len() {
            let keys: Vec<usize> = cur[i].1.keys().copied().collect();
            for k in keys {
                let mut cand = cur.clone();
                cand[i].1.remove(&k);
                if same(&cand) {
                    cur = cand;
                    progressed = true;
                    break 'k;
                }
            }
        }
        if !progressed {
            return cur;
        }
    }
}

fn judge<Fm: Family>(acc: &mut Acc, inputs: &[(Cid, View<Fm::St>)], trim: &Cid, enumerated: bool, over_session_max: bool) -> CaseOut {
    acc.eval();
    let fam = Fm::NAME;
    let ev = evaluate::<Fm>(inputs, trim, over_session_max);
    acc.count(&format!("{fam}.cases.inputs{}", inputs.len()));
    acc.count_n(&format!("{fam}.compositions"), ev.compositions as u64);
    let flagged = ev.violation.is_some();
    if let Some((sig, w)) = &ev.violation {
        // report the shrunk witness (first few per worker; the rest are only counted)
        if acc.violations.len() < 6 {
            let small = shrink::<Fm>(inputs, trim, over_session_max, sig);
            let w2 = evaluate::<Fm>(&small, trim, over_session_max).violation.map(|x| x.1).unwrap_or_else(|| w.clone());
            acc.violation(sig, w2);
        } else {
            acc.count(&format!("violations_not_stored.{sig}"));
        }
    }
    let (expired, all_keys, any_revoked) = (&ev.expired, &ev.all_keys, ev.any_revoked);
    let judged = ev.judged_keys;
    // bookkeeping
    if !flagged {
        acc.count(&format!("{fam}.agree"));
    }
    if any_revoked {
        acc.count(&format!("{fam}.cases_with_revocation"));
    }
    if !expired.is_empty() {
        acc.count(&format!("{fam}.cases_with_expired_revocation"));
        acc.count_n(&format!("{fam}.expired_keys_not_judged"), expired.len() as u64);
    }
    // non-trivial: at least one key held by two inputs in different states, or (idempotence) any key
    let nontrivial = all_keys.iter().any(|k| {
        let sts: Vec<&Fm::St> = inputs.iter().filter_map(|(_, v)| v.get(k)).collect();
        sts.len() >= 2 && sts.iter().any(|s| *s != sts[0])
    }) || (Fm::NAME == "auditlogstring" && inputs.len() > 1)
        || inputs.len() == 1;
    if nontrivial {
        if enumerated {
            acc.nontrivial_distinct();
        } else {
            acc.nontrivial(&format!("{fam}|{trim:?}|{:?}", inputs.iter().map(|(c, v)| format!("{c:?}{}", view_dbg(v))).collect::<Vec<_>>()));
        }
    }
    if !flagged && acc.samples.len() < 5 && inputs.len() == 3 && any_revoked && all_keys.len() >= 2 && acc.evaluations % 211 == 0 {
        acc.sample(json!({"family": fam, "trim_cid": format!("{trim:?}"),
            "inputs": inputs.iter().map(|(c, v)| json!({"attr_cid": format!("{c:?}"), "keys": view_dbg(v)})).collect::<Vec<_>>(),
            "merged_in_all_12_orders_and_groupings": view_dbg(&ev.merged)}));
    }
    CaseOut { judged_keys: judged, expired_keys: expired.len() }
}

/// every non-empty assignment of {absent} + lattice to `nkeys` keys
fn all_views<Fm: Family>(nkeys: usize) -> Vec<View<Fm::St>> {
    let lat = Fm::lattice();
    let opts = lat.len() + 1;
    let total = opts.pow(nkeys as u32);
    let mut out = Vec::new();
    for mut x in 0..total {
        let mut v = View::new();
        for k in 0..nkeys {
            let d = x % opts;
            x /= opts;
            if d > 0 {
                v.insert(k, lat[d - 1].clone());
            }
        }
        if !v.is_empty() {
            out.push(v);
        }
    }
    out
}

fn attr_cids() -> [Cid; 3] {
    // the attribute's last change on each replica; distinct, newer than every state change id
    [cid(100, 1), cid(200, 2), cid(300, 3)]
}

fn exhaustive<Fm: Family>(acc: &mut Acc, w: usize, n: usize, quick: bool) {
    let trims = [cid(0, 0), cid(20, 0)];
    let ac = attr_cids();
    // idempotence and pairs over up to 3 keys
    let v3 = all_views::<Fm>(3);
    let mut idx = 0usize;
    for a in &v3 {
        for trim in &trims {
            idx += 1;
            if idx % n == w {
                judge::<Fm>(acc, &[(ac[0].clone(), a.clone())], trim, true, false);
            }
        }
    }
    // pairs: all for the small families, a stride for the 7^3 ones in the quick tier
    let stride = if quick && v3.len() > 200 { 7 } else { 1 };
    for (i, a) in v3.iter().enumerate() {
        for (j, b) in v3.iter().enumerate() {
            idx += 1;
            if idx % n != w || (i + j) % stride != 0 {
                continue;
            }
            for trim in &trims {
                // both assignments of the newer change id
                judge::<Fm>(acc, &[(ac[0].clone(), a.clone()), (ac[1].clone(), b.clone())], trim, true, false);
            }
        }
    }
    acc.count(&format!("{}.exhaustive.pairs_3keys_stride{}", Fm::NAME, stride));
    // triples over up to 2 keys, every order and grouping
    let v2 = all_views::<Fm>(2);
    for a in &v2 {
        for b in &v2 {
            idx += 1;
            if idx % n != w {
                continue;
            }
            for c in &v2 {
                for trim in &trims {
                    judge::<Fm>(acc, &[(ac[0].clone(), a.clone()), (ac[1].clone(), b.clone()), (ac[2].clone(), c.clone())], trim, true, false);
                }
            }
        }
    }
    acc.count(&format!("{}.exhaustive.triples_2keys", Fm::NAME));
}

fn random<Fm: Family>(acc: &mut Acc, rng: &mut Rng, cases: u64, key_pool: usize, max_keys: usize) {
    for _ in 0..cases {
        let nrep = *rng.pick(&[1usize, 2, 3, 3, 3]);
        let trim = cid(*rng.pick(&[0u64, 0, 5, 20, 25, 45, 60]), rng.below(3) as u8);
        // distinct attribute change ids; sometimes equal timestamps on different servers
        let mut cids: Vec<Cid> = Vec::new();
        while cids.len() < nrep {
            let c = cid(rng.range(60, 70), rng.below(4) as u8);
            if !cids.contains(&c) {
                cids.push(c);
            }
        }
        let inputs: Vec<(Cid, View<Fm::St>)> = cids
            .into_iter()
            .map(|c| {
                let nk = rng.range(1, max_keys as u64) as usize;
                let mut v = View::new();
                for _ in 0..nk {
                    v.insert(rng.usize(key_pool), Fm::random_state(rng));
                }
                (c, v)
            })
            .collect();
        let out = judge::<Fm>(acc, &inputs, &trim, false, false);
        acc.count_n(&format!("{}.random.judged_keys", Fm::NAME), out.judged_keys as u64);
        let _ = out.expired_keys;
    }
}

/// more sessions than SESSION_MAXIMUM (48): the forced trim by issue time must still be
/// independent of order and grouping (only that is judged)
fn over_maximum(acc: &mut Acc, rng: &mut Rng, cases: u64) {
    for _ in 0..cases {
        let trim = cid(0, 0);
        let ac = attr_cids();
        let inputs: Vec<(Cid, View<SessionState>)> = (0..3)
            .map(|i| {
                let nk = rng.range(30, 48) as usize; // a real replica never stores more than 48
                let mut v = View::new();
                while v.len() < nk {
                    v.insert(rng.usize(80), session_random(rng));
                }
                (ac[i].clone(), v)
            })
            .collect();
        let union: BTreeSet<usize> = inputs.iter().flat_map(|(_, v)| v.keys().copied()).collect();
        if union.len() > 48 {
            acc.count("session.over_maximum.union_exceeds_48");
        }
        judge::<Sess>(acc, &inputs, &trim, false, true);
    }
}

pub fn run(args: Args) {
    let mut run = Run::new(
        args.clone(),
        "exploration",
        "a case = 1..3 replica views of one attribute (per key: absent or a state from a small lattice of expiry/revocation/status values with distinct change ids), an attribute change id per replica, and a trim point; every order and grouping of the merges is executed (12 for three replicas); exhaustive over <= 2 keys x 3 replicas and <= 3 keys pairwise, plus random sets of up to 8 keys; non-trivial = some key is held by two inputs in different states (or an idempotence case); distinct by the full input",
    );
    run.assume("compose() mirrors Entry::merge_state for an attribute present on both sides: the greater attribute change id takes the left role, the stored side wins a tie, None from repl_merge_valueset means the left value is kept");
    run.assume("fields other than the state are equal on all replicas for one session/key id, as in the real system; audit lines with the same change id carry the same text");
    run.assume("a revocation older than the trim point is outside its changelog window: keys carrying one on any input are excluded from all comparisons (counted as *.expired_keys_not_judged)");
    if let Some(p) = &args.replay {
        if let Some(w) = kvcore::run::load_replay(p) {
            println!("replay witness: {w}");
        }
    }
    let seed = args.seed;
    let workers = args.workers;
    let quick = args.tier == kvcore::Tier::Quick;
    run.parallel(workers, |w, n| {
        let mut acc = Acc::new();
        exhaustive::<Sess>(&mut acc, w, n, quick);
        exhaustive::<OSess>(&mut acc, w, n, quick);
        exhaustive::<Keys>(&mut acc, w, n, quick);
        exhaustive::<Tokens>(&mut acc, w, n, false);
        exhaustive::<Audit>(&mut acc, w, n, false);
        acc
    });
    let nrand: u64 = args.tier.pick(40_000, 1_500_000);
    run.parallel(workers, |w, n| {
        let mut acc = Acc::new();
        let mut rng = Rng::new(kvcore::rng::mix(seed, w as u64, 11));
        let per = nrand / n as u64;
        random::<Sess>(&mut acc, &mut rng, per, 10, 8);
        random::<OSess>(&mut acc, &mut rng, per, 10, 8);
        random::<Keys>(&mut acc, &mut rng, per, 10, 8);
        random::<Tokens>(&mut acc, &mut rng, per / 4, 10, 8);
        // audit: a pool larger than the capacity so the bound is reached
        random::<Audit>(&mut acc, &mut rng, per / 2, 16, 9);
        over_maximum(&mut acc, &mut rng, (per / 200).max(8));
        acc
    });
    run.exhaustive = Some(!quick);
    run.extra("exhaustive_bound", json!("<= 2 keys x 3 replicas x {absent + 6 states} x 12 orders/groupings x 2 trim points; <= 3 keys pairwise (quick tier: every 7th pair for the 7^3 families)"));
    for fam in ["session", "oauth2session", "keyinternal", "apitoken", "auditlogstring"] {
        for k in ["cases.inputs1", "cases.inputs2", "cases.inputs3", "agree"] {
            let seen = run.acc.get(&format!("{fam}.{k}")) > 0;
            run.require(seen, &format!("{fam}.{k} never observed"));
        }
    }
    for fam in ["session", "oauth2session", "keyinternal"] {
        for k in ["cases_with_revocation", "cases_with_expired_revocation"] {
            let seen = run.acc.get(&format!("{fam}.{k}")) > 0;
            run.require(seen, &format!("{fam}.{k} never observed"));
        }
    }
    let seen = run.acc.get("session.over_maximum.union_exceeds_48") > 0;
    run.require(seen, "no case exceeded the session maximum");
    run.finish();
}
