//! puresim: enumeration / random differential testing of pure components against reference models.
#[macro_use]
extern crate tracing;
#[macro_use]
extern crate kanidmd_lib;

mod c10;
mod c11;
mod c12;
mod c14;
mod c42;
mod replcap;

fn main() {
    let args = kvcore::parse_args();
    match args.prop.as_str() {
        "C10" => c10::run(args),
        "C11" => c11::run(args),
        "C12" => c12::run(args),
        "C14" => c14::run(args),
        "C42" => c42::run(args),
        p => {
            println!("INCONCLUSIVE property={p} reason=puresim does not serve this property");
            std::process::exit(2);
        }
    }
}
