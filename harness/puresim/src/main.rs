//! puresim: enumeration / random differential testing of pure components against reference models.
mod c10;

fn main() {
    let args = kvcore::parse_args();
    match args.prop.as_str() {
        "C10" => c10::run(args),
        p => {
            println!("INCONCLUSIVE property={p} reason=puresim does not serve this property");
            std::process::exit(2);
        }
    }
}
