//! C10 Replication range comparison decides supply, refresh or refusal correctly.
//!
//! Oracle: an independent decision table over per-server [min,max] windows, compared with the real
//! `ReplicationUpdateVector::range_diff` (through the verif-hooks wrapper) on every generated pair.

use kanidmd_lib::verif::{range_diff, RangeDiff};
use kvcore::{Acc, Args, Rng, Run};
use serde_json::json;
use std::collections::BTreeMap;
use std::time::Duration;
use uuid::Uuid;

type Win = Option<(u64, u64)>;

#[derive(Debug, PartialEq, Eq, Clone)]
enum Expect {
    Ok(BTreeMap<usize, (u64, u64)>),
    Refresh,
    Unwilling,
    Critical,
    NoOverlap,
}

/// The statement, restated: servers are indexed 0..n; `c[i]`/`s[i]` is the window each side holds.
fn reference(c: &[Win], s: &[Win]) -> Expect {
    let mut lag = false;
    let mut adv = false;
    let mut common = false;
    let mut supply = BTreeMap::new();
    for i in 0..s.len() {
        match (c[i], s[i]) {
            (_, None) => {} // supplier knows nothing of this server: nothing to supply or judge
            (None, Some((_smin, smax))) => {
                // never seen by the consumer: everything from zero
                supply.insert(i, (0, smax));
            }
            (Some((cmin, cmax)), Some((smin, smax))) => {
                common = true;
                if cmax < smin {
                    lag = true; // consumer is behind the supplier's window
                } else if smax < cmin {
                    adv = true; // consumer is ahead of the supplier's window
                } else if cmax < smax {
                    supply.insert(i, (cmax, smax));
                }
            }
        }
    }
    if !common {
        return Expect::NoOverlap;
    }
    match (lag, adv) {
        (true, true) => Expect::Critical,
        (true, false) => Expect::Refresh,
        (false, true) => Expect::Unwilling,
        (false, false) => Expect::Ok(supply),
    }
}

fn uuid_of(i: usize) -> Uuid {
    Uuid::from_u128(0x1000_0000_0000_0000_0000_0000_0000_0000u128 + i as u128)
}

fn to_map(ws: &[Win], unit: u64) -> BTreeMap<Uuid, (Duration, Duration)> {
    ws.iter()
        .enumerate()
        .filter_map(|(i, w)| {
            w.map(|(a, b)| {
                (
                    uuid_of(i),
                    (Duration::from_nanos(a * unit), Duration::from_nanos(b * unit)),
                )
            })
        })
        .collect()
}

fn classify(r: &RangeDiff, unit: u64) -> Expect {
    match r {
        RangeDiff::Ok(m) => Expect::Ok(
            m.iter()
                .map(|(u, (a, b))| {
                    let i = (u.as_u128() & 0xffff) as usize;
                    (i, (a.as_nanos() as u64 / unit, b.as_nanos() as u64 / unit))
                })
                .collect(),
        ),
        RangeDiff::Refresh => Expect::Refresh,
        RangeDiff::Unwilling => Expect::Unwilling,
        RangeDiff::Critical => Expect::Critical,
        RangeDiff::NoRuvOverlap => Expect::NoOverlap,
    }
}

fn kind(e: &Expect) -> &'static str {
    match e {
        Expect::Ok(m) if m.is_empty() => "ok-nothing",
        Expect::Ok(_) => "ok-supply",
        Expect::Refresh => "refresh",
        Expect::Unwilling => "unwilling",
        Expect::Critical => "critical",
        Expect::NoOverlap => "no-overlap",
    }
}

fn check_one(acc: &mut Acc, c: &[Win], s: &[Win], unit: u64, enumerated: bool) {
    let want = reference(c, s);
    let got_raw = range_diff(&to_map(c, unit), &to_map(s, unit));
    let got = classify(&got_raw, unit);
    acc.eval();
    acc.count(kind(&want));
    // non-trivial: at least one server known to both sides
    if c.iter().zip(s.iter()).any(|(a, b)| a.is_some() && b.is_some()) {
        if enumerated {
            acc.nontrivial_distinct();
        } else {
            acc.nontrivial(&format!("{c:?}|{s:?}"));
        }
    }
    if want != got {
        // cause class: which decision the implementation took instead
        let sig = format!("c10/expected-{}-got-{}", kind(&want), kind(&got));
        acc.violation(
            &sig,
            json!({"consumer": format!("{c:?}"), "supplier": format!("{s:?}"), "unit_ns": unit,
                   "expected": format!("{want:?}"), "got": format!("{got:?}")}),
        );
    } else if acc.samples.len() < 4 && acc.evaluations % 977 == 0 {
        acc.sample(json!({"consumer": format!("{c:?}"), "supplier": format!("{s:?}"), "decision": format!("{got:?}")}));
    }
}

/// all windows over 0..=tmax plus "absent"
fn options(tmax: u64) -> Vec<Win> {
    let mut v = vec![None];
    for a in 0..=tmax {
        for b in a..=tmax {
            v.push(Some((a, b)));
        }
    }
    v
}

pub fn run(args: Args) {
    let mut run = Run::new(
        args.clone(),
        "exploration",
        "pairs of per-server window maps; exhaustive over n servers x {absent, [min<=max] over 0..4} per side, plus random 8-server maps over wide times; non-trivial = at least one server known to both sides; distinct by the full pair",
    );
    run.assume("the verif-hooks wrapper kanidmd_lib::verif::range_diff passes its maps to ReplicationUpdateVector::range_diff unchanged");
    let opts = options(4);
    let k = opts.len(); // 16
    let nservers = 3usize;
    // replay: a single pair
    if let Some(p) = &args.replay {
        if let Some(w) = kvcore::run::load_replay(p) {
            println!("replay witness: {w}");
        }
    }
    // exhaustive part: every assignment of (consumer option, supplier option) per server
    let per_server = k * k;
    let total: u64 = (per_server as u64).pow(nservers as u32);
    let workers = args.workers;
    let opts_ref = &opts;
    run.parallel(workers, |w, n| {
        let mut acc = Acc::new();
        let mut idx = w as u64;
        while idx < total {
            let mut x = idx;
            let mut c = Vec::with_capacity(nservers);
            let mut s = Vec::with_capacity(nservers);
            for _ in 0..nservers {
                let d = (x % per_server as u64) as usize;
                x /= per_server as u64;
                c.push(opts_ref[d / k]);
                s.push(opts_ref[d % k]);
            }
            check_one(&mut acc, &c, &s, 1_000_000_000, true);
            idx += n as u64;
        }
        acc
    });
    run.extra("exhaustive_servers", json!(nservers));
    run.extra("exhaustive_pairs", json!(total));
    // random part: larger maps, wide times, nanosecond units
    let nrand: u64 = args.tier.pick(1_000_000, 10_000_000);
    let seed = args.seed;
    run.parallel(workers, |w, n| {
        let mut acc = Acc::new();
        let mut rng = Rng::new(kvcore::rng::mix(seed, w as u64, 10));
        for _ in 0..(nrand / n as u64) {
            let ns = rng.range(1, 8) as usize;
            let tmax = *rng.pick(&[3u64, 6, 1000, 1 << 40]);
            let mut c = Vec::new();
            let mut s = Vec::new();
            for _ in 0..ns {
                let gen = |rng: &mut Rng| -> Win {
                    if rng.chance(1, 4) {
                        None
                    } else {
                        let a = rng.below(tmax + 1);
                        let b = rng.range(a, tmax);
                        Some((a, b))
                    }
                };
                c.push(gen(&mut rng));
                s.push(gen(&mut rng));
            }
            check_one(&mut acc, &c, &s, 1, false);
        }
        acc
    });
    run.extra("random_pairs", json!(nrand));
    run.exhaustive = Some(true);
    for kind in ["ok-supply", "ok-nothing", "refresh", "unwilling", "critical", "no-overlap"] {
        let seen = run.acc.get(kind) > 0;
        run.require(seen, &format!("decision kind {kind} never exercised"));
    }
    run.finish();
}
