//! C14 Replication wire framing survives any fragmentation.
//!
//! The real codec source (`server/core/src/repl/codec.rs`) is compiled into this crate. A stream of
//! 1..6 messages is written with the real encoder of one side, cut into read chunks, and fed to the
//! real decoder of the other side exactly the way `tokio_util::codec::Framed` does (append chunk,
//! decode until `None`). Oracle: decoded sequence == sent sequence (re-serialised JSON), nothing
//! left in the buffer; frames of length 0 or limit+1 are `Err` as soon as their header is complete
//! (not waited for, not parsed), frames of length limit-1 / limit are accepted.

#[path = "/repo/server/core/src/repl/codec.rs"]
#[allow(dead_code, unused_imports, clippy::all)]
mod codec;

use crate::replcap;
use bytes::BytesMut;
use codec::{ConsumerCodec, ConsumerRequest, SupplierCodec, SupplierResponse};
use futures::StreamExt;
use kanidmd_lib::repl::proto::ReplIncrementalContext;
use kvcore::{Acc, Args, Rng, Run};
use serde::{de::DeserializeOwned, Serialize};
use serde_json::json;
use std::io;
use std::panic::{catch_unwind, AssertUnwindSafe};
use std::pin::Pin;
use std::task::{Context, Poll};
use tokio::io::{AsyncRead, ReadBuf};
use tokio_util::codec::{Decoder, Encoder, FramedRead};

/// what kanidmd configures (server/core/src/repl/mod.rs)
const REAL_LIMIT: usize = 268_435_456;

#[derive(Clone, Copy, PartialEq, Eq, Debug)]
enum Dir {
    /// ConsumerRequest: written by ConsumerCodec, read by SupplierCodec
    ToSupplier,
    /// SupplierResponse: written by SupplierCodec, read by ConsumerCodec
    ToConsumer,
}

impl Dir {
    fn name(&self) -> &'static str {
        match self {
            Dir::ToSupplier => "consumer-request",
            Dir::ToConsumer => "supplier-response",
        }
    }
}

/// A payload: its kind label and its canonical JSON (serialise(deserialise(captured))).
#[derive(Clone)]
struct Payload {
    kind: &'static str,
    json: String,
}

fn canon<M: Serialize + DeserializeOwned>(s: &str) -> String {
    let m: M = serde_json::from_str(s).expect("payload parses as its message type");
    serde_json::to_string(&m).expect("payload serialises")
}

struct Pools {
    req_small: Vec<Payload>,
    resp_small: Vec<Payload>,
    resp_big: Vec<Payload>,
}

fn build_pools(cap: &replcap::Captured, rng: &mut Rng) -> Pools {
    let mut req_small = vec![
        Payload { kind: "Ping", json: serde_json::to_string(&ConsumerRequest::Ping).expect("ser") },
        Payload { kind: "Refresh", json: serde_json::to_string(&ConsumerRequest::Refresh).expect("ser") },
        Payload {
            kind: "Incremental(real-ruv)",
            json: canon::<ConsumerRequest>(&format!("{{\"Incremental\":{}}}", cap.ruv_after_refresh)),
        },
        Payload {
            kind: "Incremental(real-ruv)",
            json: canon::<ConsumerRequest>(&format!("{{\"Incremental\":{}}}", cap.ruv_up_to_date)),
        },
    ];
    // synthetic ranges of varying width (0..3 servers)
    for n in 0..4u64 {
        let mut ranges = serde_json::Map::new();
        for _ in 0..n {
            let a = rng.below(1 << 40);
            let b = a + rng.below(1 << 30);
            ranges.insert(
                rng.uuid().to_string(),
                json!({"m": {"secs": a, "nanos": rng.below(1_000_000_000)}, "x": {"secs": b, "nanos": rng.below(1_000_000_000)}}),
            );
        }
        let v = json!({"Incremental": {"V1": {"domain_uuid": rng.uuid().to_string(), "ranges": ranges}}});
        req_small.push(Payload { kind: "Incremental(synthetic-ruv)", json: canon::<ConsumerRequest>(&v.to_string()) });
    }
    let resp_small = vec![
        Payload { kind: "Pong", json: serde_json::to_string(&SupplierResponse::Pong).expect("ser") },
        Payload {
            kind: "Incremental(NoChangesAvailable)",
            json: canon::<SupplierResponse>(&format!("{{\"Incremental\":{}}}", cap.incremental_nochange)),
        },
        Payload {
            kind: "Incremental(DomainMismatch)",
            json: canon::<SupplierResponse>(&format!("{{\"Incremental\":{}}}", cap.incremental_mismatch)),
        },
        Payload { kind: "Incremental(RefreshRequired)", json: serde_json::to_string(&SupplierResponse::Incremental(ReplIncrementalContext::RefreshRequired)).expect("ser") },
        Payload { kind: "Incremental(UnwillingToSupply)", json: serde_json::to_string(&SupplierResponse::Incremental(ReplIncrementalContext::UnwillingToSupply)).expect("ser") },
    ];
    let resp_big = vec![
        Payload {
            kind: "Incremental(V1 real small)",
            json: canon::<SupplierResponse>(&format!("{{\"Incremental\":{}}}", cap.incremental_small)),
        },
        Payload {
            kind: "Incremental(V1 real mixed)",
            json: canon::<SupplierResponse>(&format!("{{\"Incremental\":{}}}", cap.incremental_mixed)),
        },
        Payload {
            kind: "Refresh(V1 real)",
            json: canon::<SupplierResponse>(&format!("{{\"Refresh\":{}}}", cap.refresh)),
        },
    ];
    Pools { req_small, resp_small, resp_big }
}

/// Encode the messages back to back into one buffer with the real encoder of the sending side.
/// Returns the bytes and the end offset of every frame.
fn encode_stream(dir: Dir, msgs: &[&Payload]) -> Result<(Vec<u8>, Vec<usize>), String> {
    let mut buf = BytesMut::new();
    let mut ends = Vec::new();
    for p in msgs {
        match dir {
            Dir::ToSupplier => {
                let m: ConsumerRequest = serde_json::from_str(&p.json).map_err(|e| e.to_string())?;
                ConsumerCodec::new(REAL_LIMIT).encode(m, &mut buf).map_err(|e| e.to_string())?;
            }
            Dir::ToConsumer => {
                let m: SupplierResponse = serde_json::from_str(&p.json).map_err(|e| e.to_string())?;
                SupplierCodec::new(REAL_LIMIT).encode(m, &mut buf).map_err(|e| e.to_string())?;
            }
        }
        ends.push(buf.len());
    }
    Ok((buf.to_vec(), ends))
}

#[derive(Debug, Default)]
struct Outcome {
    decoded: Vec<String>,
    err: Option<String>,
    /// number of bytes that had been fed when the error was raised
    err_at_fed: usize,
    leftover: usize,
}

/// Feed `stream` cut at `cuts` (sorted offsets) to a decoder the way Framed does.
fn feed_with<M: Serialize, D: Decoder<Item = M, Error = io::Error>>(dec: &mut D, stream: &[u8], cuts: &[usize]) -> Outcome {
    let mut out = Outcome::default();
    let mut buf = BytesMut::new();
    let mut prev = 0usize;
    let mut bounds: Vec<usize> = cuts.to_vec();
    bounds.push(stream.len());
    for b in bounds {
        if b <= prev {
            continue; // an empty read would mean EOF; never produced
        }
        buf.extend_from_slice(&stream[prev..b]);
        prev = b;
        loop {
            match dec.decode(&mut buf) {
                Ok(Some(m)) => out.decoded.push(serde_json::to_string(&m).unwrap_or_else(|e| format!("<unserialisable {e}>"))),
                Ok(None) => break,
                Err(e) => {
                    out.err = Some(format!("{:?}: {e}", e.kind()));
                    out.err_at_fed = prev;
                    out.leftover = buf.len();
                    return out;
                }
            }
        }
    }
    out.leftover = buf.len();
    out
}

fn feed(dir: Dir, limit: usize, stream: &[u8], cuts: &[usize]) -> Result<Outcome, String> {
    let r = catch_unwind(AssertUnwindSafe(|| match dir {
        Dir::ToSupplier => feed_with(&mut SupplierCodec::new(limit), stream, cuts),
        Dir::ToConsumer => feed_with(&mut ConsumerCodec::new(limit), stream, cuts),
    }));
    r.map_err(|e| {
        e.downcast_ref::<String>()
            .cloned()
            .or_else(|| e.downcast_ref::<&str>().map(|s| s.to_string()))
            .unwrap_or_else(|| "panic".into())
    })
}

/// An `AsyncRead` that hands out one prepared chunk per read call (never pending).
struct ChunkReader {
    chunks: std::collections::VecDeque<Vec<u8>>,
}

impl AsyncRead for ChunkReader {
    fn poll_read(mut self: Pin<&mut Self>, _cx: &mut Context<'_>, buf: &mut ReadBuf<'_>) -> Poll<io::Result<()>> {
        if let Some(mut c) = self.chunks.pop_front() {
            let n = c.len().min(buf.remaining());
            buf.put_slice(&c[..n]);
            if n < c.len() {
                let rest = c.split_off(n);
                self.chunks.push_front(rest);
            }
        }
        Poll::Ready(Ok(()))
    }
}

fn framed_with<M: Serialize, D: Decoder<Item = M, Error = io::Error> + Unpin>(dec: D, stream: &[u8], cuts: &[usize]) -> Outcome {
    let mut chunks = std::collections::VecDeque::new();
    let mut prev = 0;
    for b in cuts.iter().copied().chain(std::iter::once(stream.len())) {
        if b > prev {
            chunks.push_back(stream[prev..b].to_vec());
            prev = b;
        }
    }
    let mut fr = FramedRead::new(ChunkReader { chunks }, dec);
    let mut out = Outcome::default();
    futures::executor::block_on(async {
        while let Some(item) = fr.next().await {
            match item {
                Ok(m) => out.decoded.push(serde_json::to_string(&m).unwrap_or_default()),
                Err(e) => {
                    out.err = Some(format!("{:?}: {e}", e.kind()));
                    break;
                }
            }
        }
    });
    out.leftover = fr.read_buffer().len();
    out
}

fn framed(dir: Dir, limit: usize, stream: &[u8], cuts: &[usize]) -> Result<Outcome, String> {
    catch_unwind(AssertUnwindSafe(|| match dir {
        Dir::ToSupplier => framed_with(SupplierCodec::new(limit), stream, cuts),
        Dir::ToConsumer => framed_with(ConsumerCodec::new(limit), stream, cuts),
    }))
    .map_err(|_| "panic".to_string())
}

fn cut_classes(cuts: &[usize], ends: &[usize]) -> (bool, bool, bool) {
    // (in header, in body, on boundary)
    let (mut h, mut b, mut e) = (false, false, false);
    for c in cuts {
        let start = ends.iter().rev().find(|x| **x <= *c).copied().unwrap_or(0);
        if *c == start {
            e = true;
        } else if *c - start < 8 {
            h = true;
        } else {
            b = true;
        }
    }
    (h, b, e)
}

struct Case<'a> {
    dir: Dir,
    msgs: &'a [&'a Payload],
    stream: &'a [u8],
    ends: &'a [usize],
    stream_id: u64,
}

fn witness(c: &Case, cuts: &[usize], limit: usize, o: &Outcome, why: &str) -> serde_json::Value {
    json!({
        "direction": c.dir.name(),
        "messages": c.msgs.iter().map(|p| if p.json.len() <= 600 { json!({"kind": p.kind, "json": p.json}) } else { json!({"kind": p.kind, "json_len": p.json.len()}) }).collect::<Vec<_>>(),
        "stream_len": c.stream.len(), "frame_ends": c.ends, "cuts": cuts, "limit": limit,
        "decoded_count": o.decoded.len(), "error": o.err, "leftover_bytes": o.leftover,
        "first_decoded": o.decoded.iter().take(3).map(|s| s.chars().take(200).collect::<String>()).collect::<Vec<_>>(),
        "explanation": why,
    })
}

/// Judge one (stream, chunking) under a limit that admits every frame.
fn judge_ok(acc: &mut Acc, c: &Case, cuts: &[usize], via_framed: bool, enumerated: bool) {
    acc.eval();
    let r = if via_framed { framed(c.dir, REAL_LIMIT, c.stream, cuts) } else { feed(c.dir, REAL_LIMIT, c.stream, cuts) };
    let (h, b, e) = cut_classes(cuts, c.ends);
    if h {
        acc.count("chunking.cut_in_header");
    }
    if b {
        acc.count("chunking.cut_in_body");
    }
    if e && !cuts.is_empty() {
        acc.count("chunking.cut_on_boundary");
    }
    acc.count(if via_framed { "path.FramedRead" } else { "path.decode_loop" });
    if h || b {
        if enumerated {
            acc.nontrivial_distinct();
        } else {
            acc.nontrivial(&format!("{}|{:?}", c.stream_id, cuts));
        }
    }
    let o = match r {
        Ok(o) => o,
        Err(p) => {
            acc.violation(
                &format!("c14/decoder-panic/{}", c.dir.name()),
                witness(c, cuts, REAL_LIMIT, &Outcome::default(), &format!("decoder panicked: {p}")),
            );
            return;
        }
    };
    acc.count_n("messages_decoded", o.decoded.len() as u64);
    let same = o.decoded.len() == c.msgs.len() && o.decoded.iter().zip(c.msgs.iter()).all(|(d, p)| *d == p.json);
    if let Some(_e) = &o.err {
        acc.violation(
            &format!("c14/spurious-error/{}", c.dir.name()),
            witness(c, cuts, REAL_LIMIT, &o, "a well-formed stream within the limit was rejected"),
        );
    } else if !same {
        let cls = if o.decoded.len() < c.msgs.len() {
            "messages-missing"
        } else if o.decoded.len() > c.msgs.len() {
            "messages-extra"
        } else {
            "content-or-order"
        };
        acc.violation(
            &format!("c14/decoded-sequence-differs/{cls}/{}", c.dir.name()),
            witness(c, cuts, REAL_LIMIT, &o, "decoded sequence is not the sent sequence"),
        );
    } else if o.leftover != 0 {
        acc.violation(
            &format!("c14/leftover-bytes/{}", c.dir.name()),
            witness(c, cuts, REAL_LIMIT, &o, "bytes remain buffered after the last complete frame"),
        );
    }
}

/// all chunkings with at most two cut points
fn exhaustive_two_cuts(acc: &mut Acc, c: &Case) {
    let n = c.stream.len();
    judge_ok(acc, c, &[], false, true);
    for i in 1..n {
        judge_ok(acc, c, &[i], false, true);
        for j in (i + 1)..n {
            judge_ok(acc, c, &[i, j], false, true);
        }
    }
    acc.count("streams.exhaustive_le2_cuts");
}

fn random_cuts(rng: &mut Rng, n: usize, ends: &[usize]) -> Vec<usize> {
    if n < 2 {
        return vec![];
    }
    let style = rng.below(5);
    let mut cuts: Vec<usize> = match style {
        0 => (1..n).collect(), // 1-byte drip
        1 => {
            // cuts around frame boundaries and header ends
            let mut v = Vec::new();
            for e in ends.iter().copied().chain(std::iter::once(0)) {
                for d in [-1i64, 0, 1, 7, 8, 9] {
                    let x = e as i64 + d;
                    if x > 0 && (x as usize) < n && rng.chance(2, 3) {
                        v.push(x as usize);
                    }
                }
            }
            v
        }
        2 => {
            // fixed read size
            let sz = *rng.pick(&[2usize, 3, 5, 7, 8, 9, 16, 31, 64, 1000, 4096, 8192, 65536]);
            (1..n).filter(|x| x % sz == 0).collect()
        }
        _ => {
            let k = rng.range(1, 64) as usize;
            (0..k).map(|_| rng.range(1, (n - 1) as u64) as usize).collect()
        }
    };
    cuts.sort_unstable();
    cuts.dedup();
    cuts
}

fn pad_json(json: &str, len: usize) -> Vec<u8> {
    // JSON text followed by spaces is still the same JSON document
    let mut v = json.as_bytes().to_vec();
    while v.len() < len {
        v.push(b' ');
    }
    v
}

fn frame(len_field: u64, body: &[u8]) -> Vec<u8> {
    let mut v = len_field.to_be_bytes().to_vec();
    v.extend_from_slice(body);
    v
}

/// Frame-length boundary checks for one small payload and one limit.
fn limits_case(acc: &mut Acc, dir: Dir, p: &Payload, limit: usize, prefix: &[&Payload], rng: &mut Rng) {
    let n = p.json.len();
    if limit < n + 1 {
        return;
    }
    let (pre, pre_ends) = encode_stream(dir, prefix).unwrap_or_default();
    let pre_json: Vec<&String> = prefix.iter().map(|q| &q.json).collect();
    for (label, declared, body_len) in [
        ("zero", 0u64, 0usize),
        ("limit-1", (limit - 1) as u64, limit - 1),
        ("limit", limit as u64, limit),
        ("limit+1", (limit + 1) as u64, limit + 1),
    ] {
        if body_len > (1 << 20) {
            // far too large to materialise (the real 256 MiB limit): header-only probes
            let mut s = pre.clone();
            s.extend_from_slice(&declared.to_be_bytes());
            let o = match feed(dir, limit, &s, &[]) {
                Ok(o) => o,
                Err(pm) => {
                    acc.violation(&format!("c14/decoder-panic/{}", dir.name()), json!({"limit": limit, "declared": declared, "panic": pm}));
                    continue;
                }
            };
            acc.eval();
            acc.count(&format!("limit.{label}.header_only"));
            let rejected = o.err.is_some();
            if label == "limit+1" && !rejected {
                acc.violation(
                    "c14/overlimit-frame-not-rejected",
                    json!({"direction": dir.name(), "limit": limit, "declared_len": declared, "fed": "header only", "outcome": format!("{o:?}"),
                           "explanation": "a header announcing more than the limit must be an error at once, not a wait for the body"}),
                );
            }
            if label != "limit+1" && rejected {
                acc.violation(
                    "c14/within-limit-frame-rejected",
                    json!({"direction": dir.name(), "limit": limit, "declared_len": declared, "fed": "header only", "outcome": format!("{o:?}")}),
                );
            }
            continue;
        }
        let body = if label == "zero" { Vec::new() } else { pad_json(&p.json, body_len) };
        let mut s = pre.clone();
        s.extend_from_slice(&frame(declared, &body));
        // also append a well formed frame behind: it must never be reached after a rejected one
        let mut s_tail = s.clone();
        s_tail.extend_from_slice(&encode_stream(dir, &[p]).map(|x| x.0).unwrap_or_default());
        let expect_reject = label == "zero" || label == "limit+1";
        // chunkings: whole, header only first, every single cut, random
        let total = s.len();
        let hdr_end = pre.len() + 8;
        let mut chunkings: Vec<Vec<usize>> = vec![vec![], vec![hdr_end.min(total)]];
        if total <= 200 {
            for i in 1..total {
                chunkings.push(vec![i]);
                if total <= 90 {
                    for jx in (i + 1)..total {
                        chunkings.push(vec![i, jx]);
                    }
                }
            }
        } else {
            for _ in 0..16 {
                let mut ends = pre_ends.clone();
                ends.push(total);
                chunkings.push(random_cuts(rng, total, &ends));
            }
        }
        for cuts in &chunkings {
            for with_tail in [false, true] {
                let stream: &[u8] = if with_tail { &s_tail } else { &s };
                acc.eval();
                acc.count(&format!("limit.{label}"));
                let o = match feed(dir, limit, stream, cuts) {
                    Ok(o) => o,
                    Err(pm) => {
                        acc.violation(&format!("c14/decoder-panic/{}", dir.name()), json!({"limit": limit, "declared": declared, "cuts": cuts, "panic": pm}));
                        continue;
                    }
                };
                let w = |why: &str| {
                    json!({"direction": dir.name(), "limit": limit, "declared_len": declared, "payload": p.json, "prefix": pre_json,
                           "cuts": cuts, "followed_by_valid_frame": with_tail, "decoded": o.decoded, "error": o.err,
                           "error_after_bytes_fed": o.err_at_fed, "leftover": o.leftover, "explanation": why})
                };
                let prefix_ok = o.decoded.len() >= prefix.len() && o.decoded.iter().zip(prefix.iter()).all(|(d, q)| *d == q.json);
                if expect_reject {
                    acc.nontrivial(&format!("{}|{label}|{limit}|{}|{cuts:?}|{with_tail}", dir.name(), p.kind));
                    if o.err.is_none() {
                        let sig = if label == "zero" { "c14/empty-frame-not-rejected" } else { "c14/overlimit-frame-not-rejected" };
                        acc.violation(sig, w("a frame of this declared length must be rejected"));
                    } else if o.decoded.len() != prefix.len() || !prefix_ok {
                        let sig = if label == "zero" { "c14/empty-frame-misparsed" } else { "c14/overlimit-frame-misparsed" };
                        acc.violation(sig, w("messages other than the well-formed ones before the bad frame were produced"));
                    } else {
                        // not buffered: the error must be raised as soon as the 8 header bytes were fed
                        let first_bound_at_or_after_header = cuts
                            .iter()
                            .copied()
                            .chain(std::iter::once(stream.len()))
                            .find(|b| *b >= hdr_end)
                            .unwrap_or(stream.len());
                        if o.err_at_fed > first_bound_at_or_after_header {
                            let sig = if label == "zero" { "c14/empty-frame-buffered" } else { "c14/overlimit-frame-buffered" };
                            acc.violation(sig, w("the decoder kept reading after the header of the bad frame was complete"));
                        } else {
                            acc.count("limit.rejected_at_header");
                        }
                    }
                } else {
                    let want = prefix.len() + 1 + usize::from(with_tail);
                    let all_ok = prefix_ok
                        && o.decoded.len() == want
                        && o.decoded[prefix.len()..].iter().all(|d| *d == p.json)
                        && o.err.is_none()
                        && o.leftover == 0;
                    if !all_ok {
                        let sig = if o.err.is_some() { "c14/within-limit-frame-rejected" } else { "c14/within-limit-frame-misparsed" };
                        acc.violation(sig, w("a frame whose length is within the limit must decode to its message"));
                    } else {
                        acc.count("limit.accepted");
                    }
                }
            }
        }
    }
    // the natural frame of this message under limits n-1, n, n+1
    let (s, _) = encode_stream(dir, &[p]).unwrap_or_default();
    for (lim, reject) in [(n - 1, true), (n, false), (n + 1, false)] {
        acc.eval();
        let o = match feed(dir, lim, &s, &[]) {
            Ok(o) => o,
            Err(pm) => {
                acc.violation(&format!("c14/decoder-panic/{}", dir.name()), json!({"limit": lim, "panic": pm}));
                continue;
            }
        };
        acc.count(if reject { "limit.natural.n-1" } else { "limit.natural.n_or_n+1" });
        if reject != o.err.is_some() || (!reject && o.decoded != vec![p.json.clone()]) {
            let sig = if reject { "c14/overlimit-frame-not-rejected" } else { "c14/within-limit-frame-rejected" };
            acc.violation(sig, json!({"direction": dir.name(), "payload": p.json, "json_len": n, "limit": lim, "decoded": o.decoded, "error": o.err}));
        }
    }
}

pub fn run(args: Args) {
    let mut run = Run::new(
        args.clone(),
        "exploration",
        "a case = (direction, stream of 1..6 messages written by the real encoder, chunking of the byte stream, frame limit); non-trivial = at least one cut falls strictly inside a frame (header or body), or the stream carries a frame of length 0 / limit+1; distinct by (stream, cut positions)",
    );
    run.assume("feeding chunks into a BytesMut and calling decode until it returns None is how tokio_util Framed drives a Decoder (cross-checked on a sample of cases against the real FramedRead)");
    run.assume("payloads are compared as re-serialised JSON because the message types lack Eq");
    if let Some(p) = &args.replay {
        if let Some(w) = kvcore::run::load_replay(p) {
            println!("replay witness: {w}");
        }
    }
    let seed = args.seed;
    let rt = kvcore::srv::rt();
    let cap = rt.block_on(replcap::capture(seed));
    drop(rt);
    let mut prng = Rng::new(kvcore::rng::mix(seed, 14, 1));
    let pools = build_pools(&cap, &mut prng);
    run.extra(
        "payload_json_lengths",
        json!(pools.req_small.iter().chain(pools.resp_small.iter()).chain(pools.resp_big.iter()).map(|p| json!([p.kind, p.json.len()])).collect::<Vec<_>>()),
    );
    run.require(pools.resp_big.iter().all(|p| p.json.len() > 500) && pools.resp_big.iter().any(|p| p.json.len() > 100_000), "captured real replication contexts are unexpectedly small");
    let workers = args.workers;
    let pools = &pools;

    // ---- part 1: exhaustive <= 2 cuts on short streams -------------------------------------
    let n_short: u64 = args.tier.pick(96, 1600);
    run.parallel(workers, |w, n| {
        let mut acc = Acc::new();
        let mut idx = w as u64;
        while idx < n_short {
            let mut rng = Rng::new(kvcore::rng::mix(seed, idx, 141));
            let dir = if idx % 2 == 0 { Dir::ToSupplier } else { Dir::ToConsumer };
            let pool = if dir == Dir::ToSupplier { &pools.req_small } else { &pools.resp_small };
            // draw until the stream fits the 400 byte bound
            let mut msgs: Vec<&Payload> = Vec::new();
            let want = rng.range(1, 6) as usize;
            let mut len = 0;
            for _ in 0..want * 3 {
                let p = rng.pick(pool);
                if len + 8 + p.json.len() <= 400 {
                    len += 8 + p.json.len();
                    msgs.push(p);
                }
                if msgs.len() == want {
                    break;
                }
            }
            if msgs.is_empty() {
                msgs.push(&pool[0]);
            }
            match encode_stream(dir, &msgs) {
                Ok((stream, ends)) => {
                    acc.count(&format!("stream.messages.{}", msgs.len()));
                    for p in &msgs {
                        acc.count(&format!("sent.{}", p.kind));
                    }
                    let c = Case { dir, msgs: &msgs, stream: &stream, ends: &ends, stream_id: idx };
                    exhaustive_two_cuts(&mut acc, &c);
                    if acc.samples.len() < 2 {
                        acc.sample(json!({"direction": dir.name(), "messages": msgs.iter().map(|p| p.kind).collect::<Vec<_>>(), "stream_len": stream.len(), "chunkings": "every chunking with <= 2 cut points", "result": "decoded == sent"}));
                    }
                }
                Err(e) => acc.violation(&format!("c14/encoder-error/{}", dir.name()), json!({"error": e})),
            }
            idx += n as u64;
        }
        acc
    });

    // ---- part 2: random chunkings, including real contexts and 1-byte drip -----------------
    let n_rand: u64 = args.tier.pick(4000, 60000);
    run.parallel(workers, |w, n| {
        let mut acc = Acc::new();
        let mut idx = w as u64;
        while idx < n_rand {
            let mut rng = Rng::new(kvcore::rng::mix(seed, idx, 142));
            let dir = if rng.chance(1, 3) { Dir::ToSupplier } else { Dir::ToConsumer };
            let want = rng.range(1, 6) as usize;
            let mut msgs: Vec<&Payload> = Vec::new();
            let mut bigs = 0;
            for _ in 0..want {
                if dir == Dir::ToConsumer && rng.chance(1, 3) && bigs < 2 {
                    // the ~1 MB refresh context is drawn less often than the incrementals
                    let i = rng.weighted(&[6, 6, 1]);
                    msgs.push(&pools.resp_big[i]);
                    bigs += 1;
                } else if dir == Dir::ToConsumer {
                    msgs.push(rng.pick(&pools.resp_small));
                } else {
                    msgs.push(rng.pick(&pools.req_small));
                }
            }
            match encode_stream(dir, &msgs) {
                Ok((stream, ends)) => {
                    acc.count(&format!("stream.messages.{}", msgs.len()));
                    for p in &msgs {
                        acc.count(&format!("sent.{}", p.kind));
                    }
                    let c = Case { dir, msgs: &msgs, stream: &stream, ends: &ends, stream_id: (1 << 40) + idx };
                    let reps = if stream.len() > 100_000 { 2 } else { 6 };
                    for k in 0..reps {
                        let cuts = random_cuts(&mut rng, stream.len(), &ends);
                        if cuts.len() + 1 == stream.len() {
                            acc.count("chunking.one_byte_drip");
                        }
                        acc.count_n("cuts_total", cuts.len() as u64);
                        // every third chunking additionally goes through the real FramedRead
                        judge_ok(&mut acc, &c, &cuts, false, false);
                        if k % 3 == 0 && stream.len() < 300_000 {
                            judge_ok(&mut acc, &c, &cuts, true, false);
                        }
                    }
                    if acc.samples.len() < 5 && bigs > 0 {
                        acc.sample(json!({"direction": dir.name(), "messages": msgs.iter().map(|p| p.kind).collect::<Vec<_>>(), "stream_len": stream.len(), "chunkings": reps, "result": "decoded == sent"}));
                    }
                }
                Err(e) => acc.violation(&format!("c14/encoder-error/{}", dir.name()), json!({"error": e})),
            }
            idx += n as u64;
        }
        acc
    });

    // ---- part 3: frame lengths 0, limit-1, limit, limit+1 ----------------------------------
    let limits: Vec<usize> = args.tier.pick(vec![40, 64, 255, 256, 1024, 65536, REAL_LIMIT], vec![33, 40, 64, 127, 128, 255, 256, 257, 1024, 4096, 65535, 65536, 1 << 20, REAL_LIMIT]);
    let limits = &limits;
    run.parallel(workers, |w, n| {
        let mut acc = Acc::new();
        let mut k = 0usize;
        for dir in [Dir::ToSupplier, Dir::ToConsumer] {
            let pool = if dir == Dir::ToSupplier { &pools.req_small } else { &pools.resp_small };
            for p in pool.iter() {
                for lim in limits.iter() {
                    for npre in 0..3usize {
                        k += 1;
                        if k % n != w {
                            continue;
                        }
                        let mut rng = Rng::new(kvcore::rng::mix(seed, k as u64, 143));
                        let prefix: Vec<&Payload> = (0..npre).map(|_| rng.pick(pool)).filter(|q| q.json.len() <= *lim).collect();
                        limits_case(&mut acc, dir, p, *lim, &prefix, &mut rng);
                    }
                }
            }
        }
        acc
    });

    run.extra("limits_probed", json!(limits));
    run.extra("real_limit", json!(REAL_LIMIT));
    // thresholds
    for k in [
        "sent.Ping", "sent.Refresh", "sent.Incremental(real-ruv)", "sent.Pong", "sent.Incremental(NoChangesAvailable)",
        "sent.Incremental(V1 real small)", "sent.Incremental(V1 real mixed)", "sent.Refresh(V1 real)",
        "chunking.cut_in_header", "chunking.cut_in_body", "chunking.cut_on_boundary", "chunking.one_byte_drip",
        "path.FramedRead", "path.decode_loop", "limit.zero", "limit.limit-1", "limit.limit", "limit.limit+1",
        "limit.rejected_at_header", "limit.accepted", "limit.natural.n-1", "limit.limit+1.header_only",
        "stream.messages.1", "stream.messages.6",
    ] {
        let seen = run.acc.get(k) > 0;
        run.require(seen, &format!("{k} never exercised"));
    }
    let ok = run.acc.get("messages_decoded") > 10_000;
    run.require(ok, "fewer than 10000 messages decoded");
    run.finish();
}
