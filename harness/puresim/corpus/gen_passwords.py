#!/usr/bin/env python3
"""Independent generator of imported-password strings for C12 (and their cleartexts).

Every hash is computed here with python's hashlib / crypt(3) / a pure-python MD4 / `openssl kdf
ARGON2ID`, never with kanidm code. Output: passwords.json next to this file (committed; the check
reads it at compile time, so neither python nor openssl is needed at run time).

    python3 gen_passwords.py > passwords.json
"""
import base64, hashlib, json, struct, subprocess, sys, warnings
warnings.simplefilter("ignore")
import crypt

CLEARTEXTS = [
    "password",
    "correct horse battery staple",
    "pässwörd-ünïcode",
    "世界パスワード",
    "\U0001F600 emoji pw",
    "a",
    "with\"quote\\back$dollar",
    "L" * 40 + "o" * 40 + "ng" * 15,
    "trailing space ",
    " leading space",
    "UPPERlower123!@#",
    "tab\there",
]

def md4(data: bytes) -> bytes:
    def lrot(x, n): return ((x << n) | (x >> (32 - n))) & 0xffffffff
    msg = data + b"\x80" + b"\x00" * ((55 - len(data)) % 64) + struct.pack("<Q", len(data) * 8)
    a, b, c, d = 0x67452301, 0xefcdab89, 0x98badcfe, 0x10325476
    for off in range(0, len(msg), 64):
        x = struct.unpack("<16I", msg[off:off + 64])
        aa, bb, cc, dd = a, b, c, d
        F = lambda x_, y, z: (x_ & y) | (~x_ & z)
        G = lambda x_, y, z: (x_ & y) | (x_ & z) | (y & z)
        H = lambda x_, y, z: x_ ^ y ^ z
        for i in range(16):
            k, s = i, (3, 7, 11, 19)[i % 4]
            a = lrot((a + F(b, c, d) + x[k]) & 0xffffffff, s); a, b, c, d = d, a, b, c
        for i in range(16):
            k, s = (i % 4) * 4 + i // 4, (3, 5, 9, 13)[i % 4]
            a = lrot((a + G(b, c, d) + x[k] + 0x5a827999) & 0xffffffff, s); a, b, c, d = d, a, b, c
        order = [0, 8, 4, 12, 2, 10, 6, 14, 1, 9, 5, 13, 3, 11, 7, 15]
        for i in range(16):
            k, s = order[i], (3, 9, 11, 15)[i % 4]
            a = lrot((a + H(b, c, d) + x[k] + 0x6ed9eba1) & 0xffffffff, s); a, b, c, d = d, a, b, c
        a, b, c, d = (a + aa) & 0xffffffff, (b + bb) & 0xffffffff, (c + cc) & 0xffffffff, (d + dd) & 0xffffffff
    return struct.pack("<4I", a, b, c, d)

assert md4(b"").hex() == "31d6cfe0d16ae931b73c59d7e0c089c0"
assert md4(b"abc").hex() == "a448017aaf21d8525fc10ae87aa6729d"

def b64(b): return base64.b64encode(b).decode()
def b64np(b): return base64.b64encode(b).decode().rstrip("=")
def ab64(b): return b64np(b).replace("+", ".")
def salt_for(i, n): return hashlib.sha256(b"salt%d" % i).digest()[:n]
def asalt(i, n):
    al = "abcdefghijklmnopqrstuvwxyzABCDEFGHIJKLMNOPQRSTUVWXYZ0123456789./"
    return "".join(al[x % 64] for x in salt_for(i, n))

def argon2id(pw: bytes, salt: bytes, m, t, p, keylen=32) -> bytes:
    out = subprocess.run(
        ["openssl", "kdf", "-keylen", str(keylen), "-kdfopt", "hexpass:" + pw.hex(), "-kdfopt", "hexsalt:" + salt.hex(),
         "-kdfopt", f"iter:{t}", "-kdfopt", f"memcost:{m}", "-kdfopt", f"lanes:{p}", "-binary", "ARGON2ID"],
        check=True, capture_output=True).stdout
    assert len(out) == keylen
    return out

entries = []
def add(fmt, s, clear):
    entries.append({"format": fmt, "hash": s, "cleartext": clear})

for i, clear in enumerate(CLEARTEXTS):
    pw = clear.encode("utf-8")
    # 389-ds / openldap unsalted and salted digests
    add("sha", "{SHA}" + b64(hashlib.sha1(pw).digest()), clear)
    s = salt_for(i, 8);  add("ssha", "{SSHA}" + b64(hashlib.sha1(pw + s).digest() + s), clear)
    add("sha256", "{SHA256}" + b64(hashlib.sha256(pw).digest()), clear)
    s = salt_for(i, 8);  add("ssha256", "{SSHA256}" + b64(hashlib.sha256(pw + s).digest() + s), clear)
    add("sha512", "{SHA512}" + b64(hashlib.sha512(pw).digest()), clear)
    s = salt_for(i, 16); add("ssha512", ("{ssha512}" if i % 3 == 0 else "{SSHA512}") + b64(hashlib.sha512(pw + s).digest() + s), clear)
    # django
    cost = 1000 + 37 * i
    sa = asalt(i, 12).replace("/", "x").replace(".", "y")
    add("django-pbkdf2-sha256", f"pbkdf2_sha256${cost}${sa}$" + b64(hashlib.pbkdf2_hmac("sha256", pw, sa.encode(), cost, 32)), clear)
    # openldap pbkdf2 family (adapted base64, no padding)
    s = salt_for(i, 16)
    add("openldap-pbkdf2", f"{{PBKDF2}}{cost}${ab64(s)}${ab64(hashlib.pbkdf2_hmac('sha1', pw, s, cost, 20))}", clear)
    add("openldap-pbkdf2-sha1", f"{{PBKDF2-SHA1}}{cost}${ab64(s)}${ab64(hashlib.pbkdf2_hmac('sha1', pw, s, cost, 20))}", clear)
    add("openldap-pbkdf2-sha256", f"{{PBKDF2-SHA256}}{cost}${ab64(s)}${ab64(hashlib.pbkdf2_hmac('sha256', pw, s, cost, 32))}", clear)
    add("openldap-pbkdf2-sha512", f"{{PBKDF2-SHA512}}{cost}${ab64(s)}${ab64(hashlib.pbkdf2_hmac('sha512', pw, s, cost, 64))}", clear)
    # openldap argon2 (PHC string)
    m, t, p = (4096, 2, 1) if i % 2 == 0 else (8192, 1, 1)
    s = salt_for(i, 16)
    add("openldap-argon2", f"{{ARGON2}}$argon2id$v=19$m={m},t={t},p={p}${b64np(s)}${b64np(argon2id(pw, s, m, t, p))}", clear)
    # crypt(3)
    add("crypt-md5", "{crypt}" + crypt.crypt(clear, "$1$" + asalt(i, 8)), clear)
    add("crypt-sha256", ("{CRYPT}" if i % 4 == 1 else "{crypt}") + crypt.crypt(clear, ("$5$rounds=1500$" if i % 2 else "$5$") + asalt(i, 16)), clear)
    add("crypt-sha512", ("{CRYPT}" if i % 4 == 2 else "{crypt}") + crypt.crypt(clear, ("$6$rounds=2000$" if i % 2 else "$6$") + asalt(i, 16)), clear)
    # NT hashes
    nt = md4(clear.encode("utf-16-le"))
    add("ipa-nthash", "ipaNTHash: " + base64.urlsafe_b64encode(nt).decode().rstrip("="), clear)
    add("samba-nthash", "sambaNTPassword: " + nt.hex().upper(), clear)

json.dump({"generator": "gen_passwords.py", "entries": entries}, sys.stdout, indent=0, ensure_ascii=True)
