//! C47 core: random supervisor trees over the real `kanidm_actors` runtime, an event log with a
//! global logical clock, and the oracle that judges the log.
//!
//! This file is self-contained (std + tokio + kanidm_actors only) because it is compiled twice:
//! into `actorsim` (native multi-thread runs) and, by `#[path]`, into `/verif/harness/miri/actors`
//! (the same trees and the same oracle under Miri's scheduler and data-race detector).
//!
//! What the statement's domain is taken to be: the whole tree is built (every `subordinate()` and
//! `spawn()` returned) before any stop is issued; every actor step (`setup`, `state`, `run`,
//! `cleanup`) terminates on its own (bounded yields / spins, or a mailbox wait that the stop
//! broadcast pre-empts through the runtime's own `select!`).

#![allow(dead_code)]

use kanidm_actors::{
    Actor, ActorState, Runtime, RuntimeSetup, Signal, SignalHandler, SoftwareSignalSource,
    Supervisor,
};
use std::future::Future;
use std::sync::atomic::{AtomicU64, Ordering};
use std::sync::{Arc, Mutex};
use std::time::Duration;
use tokio::sync::{mpsc, oneshot};
use tokio::task::JoinHandle;

// ---------------------------------------------------------------------------------------------
// tiny deterministic rng (SplitMix64) - kvcore is not available under Miri

#[derive(Clone, Debug)]
pub struct SRng(pub u64);

impl SRng {
    pub fn new(seed: u64) -> Self {
        let mut r = SRng(seed ^ 0x5DEE_CE66_D1CE_4E5B);
        r.next();
        r
    }
    pub fn next(&mut self) -> u64 {
        self.0 = self.0.wrapping_add(0x9E37_79B9_7F4A_7C15);
        let mut z = self.0;
        z = (z ^ (z >> 30)).wrapping_mul(0xBF58_476D_1CE4_E5B9);
        z = (z ^ (z >> 27)).wrapping_mul(0x94D0_49BB_1331_11EB);
        z ^ (z >> 31)
    }
    pub fn below(&mut self, n: u64) -> u64 {
        if n == 0 {
            0
        } else {
            self.next() % n
        }
    }
    pub fn usize(&mut self, n: usize) -> usize {
        self.below(n as u64) as usize
    }
    pub fn chance(&mut self, num: u64, den: u64) -> bool {
        self.below(den) < num
    }
}

// ---------------------------------------------------------------------------------------------
// specification of one case

#[derive(Clone, Copy, Debug, PartialEq, Eq)]
pub enum Kind {
    /// waits on its mailbox; a message is one `run`; a closed mailbox is `ActorState::Stop`
    Blocker,
    /// produces `n` steps of work by itself, then `ActorState::Stop` (n = 0: stops at once)
    Early(u32),
    /// always has work: `state()` is immediately ready, `run` yields a few times
    Long,
}

#[derive(Clone, Copy, Debug, PartialEq, Eq)]
pub enum Owner {
    /// the harness keeps the `Supervisor` handle (and may `stop()` it)
    Harness,
    /// an actor under the parent supervisor owns the handle and just drops it when it ends
    ActorDrop(usize),
    /// an actor under the parent supervisor owns the handle and calls `stop()` in its cleanup
    ActorStop(usize),
}

#[derive(Clone, Debug)]
pub struct SupSpec {
    pub parent: Option<usize>,
    pub depth: u8,
    pub owner: Owner,
}

#[derive(Clone, Debug)]
pub struct ActorSpec {
    pub sup: usize,
    pub kind: Kind,
    pub setup_y: u8,
    pub run_y: u8,
    pub cleanup_y: u8,
    pub spin: u32,
}

#[derive(Clone, Copy, Debug)]
pub enum Step {
    Sub(usize),
    Spawn(usize),
}

#[derive(Clone, Copy, Debug, PartialEq, Eq)]
pub enum Drive {
    Msg(usize, u32),
    Yield(u8),
    /// let real time pass (native only; scheduling noise, never a verdict)
    Nap(u16),
    /// a non-stopping signal
    Hangup,
    StopSub(usize),
}

#[derive(Clone, Copy, Debug, PartialEq, Eq)]
pub enum Term {
    Terminate,
    Interrupt,
}

#[derive(Clone, Debug)]
pub struct TreeSpec {
    pub sups: Vec<SupSpec>,
    pub actors: Vec<ActorSpec>,
    pub build: Vec<Step>,
    pub drive: Vec<Drive>,
    pub term: Term,
}

#[derive(Clone, Copy, Debug)]
pub struct GenCfg {
    pub max_sups: usize,
    pub max_actors: usize,
    pub max_spin: u32,
    pub naps: bool,
    /// probability (in 1/16) that a subordinate's handle is given to an actor
    pub owner_p16: u64,
    /// of those, probability (in 1/16) that the owner merely drops it (the supervisor task then
    /// busy-polls its closed mailbox until its parent stops: slow under Miri)
    pub owner_drop_p16: u64,
}

impl TreeSpec {
    /// depth of supervisors: primary = 0, at most 2 below it; actors are leaves, so the tree has
    /// at most 3 levels under the primary supervisor.
    pub fn generate(rng: &mut SRng, cfg: &GenCfg) -> TreeSpec {
        let n_sups = 1 + rng.usize(cfg.max_sups);
        let mut sups = vec![SupSpec {
            parent: None,
            depth: 0,
            owner: Owner::Harness,
        }];
        for _ in 1..n_sups {
            let cands: Vec<usize> = (0..sups.len()).filter(|i| sups[*i].depth < 2).collect();
            let p = cands[rng.usize(cands.len())];
            sups.push(SupSpec {
                parent: Some(p),
                depth: sups[p].depth + 1,
                owner: Owner::Harness,
            });
        }
        let n_actors = 1 + rng.usize(cfg.max_actors);
        let mut actors = Vec::new();
        for _ in 0..n_actors {
            // bias towards deeper supervisors so that nested levels are populated
            let sup = if rng.chance(1, 2) {
                n_sups - 1 - rng.usize(n_sups.min(3))
            } else {
                rng.usize(n_sups)
            };
            let kind = match rng.below(10) {
                0..=3 => Kind::Blocker,
                4..=5 => Kind::Early(rng.below(4) as u32),
                _ => Kind::Long,
            };
            actors.push(ActorSpec {
                sup,
                kind,
                setup_y: rng.below(4) as u8,
                run_y: 1 + rng.below(4) as u8,
                cleanup_y: rng.below(4) as u8,
                spin: if cfg.max_spin == 0 {
                    0
                } else {
                    rng.below(cfg.max_spin as u64) as u32
                },
            });
        }
        // owners: an actor under the parent of the owned supervisor
        let mut owner_actor = vec![false; actors.len()];
        for s in 1..n_sups {
            if !rng.chance(cfg.owner_p16, 16) {
                continue;
            }
            let p = sups[s].parent.unwrap_or(0);
            let cands: Vec<usize> = (0..actors.len()).filter(|a| actors[*a].sup == p).collect();
            if cands.is_empty() {
                continue;
            }
            let a = cands[rng.usize(cands.len())];
            owner_actor[a] = true;
            sups[s].owner = if rng.chance(cfg.owner_drop_p16, 16) {
                Owner::ActorDrop(a)
            } else {
                Owner::ActorStop(a)
            };
        }
        // build order: supervisors in index order (parents first) with non-owner actors inserted
        // at random points after their supervisor exists; then owner actors, deepest owned first.
        let mut build: Vec<Step> = Vec::new();
        let mut pending: Vec<usize> = (0..actors.len()).filter(|a| !owner_actor[*a]).collect();
        // shuffle
        for i in (1..pending.len()).rev() {
            let j = rng.usize(i + 1);
            pending.swap(i, j);
        }
        let mut next_sup = 1usize;
        while next_sup < n_sups || !pending.is_empty() {
            let ready: Vec<usize> = pending
                .iter()
                .copied()
                .filter(|a| actors[*a].sup < next_sup)
                .collect();
            let take_actor = !ready.is_empty() && (next_sup >= n_sups || rng.chance(1, 2));
            if take_actor {
                let a = ready[rng.usize(ready.len())];
                pending.retain(|x| *x != a);
                build.push(Step::Spawn(a));
            } else if next_sup < n_sups {
                build.push(Step::Sub(next_sup));
                next_sup += 1;
            }
        }
        let mut owners: Vec<(u8, u64, usize)> = (0..actors.len())
            .filter(|a| owner_actor[*a])
            .map(|a| (sups[actors[a].sup].depth, rng.next(), a))
            .collect();
        owners.sort_by(|x, y| y.0.cmp(&x.0).then(x.1.cmp(&y.1)));
        for (_, _, a) in owners {
            build.push(Step::Spawn(a));
        }
        // drive plan
        let mut drive = Vec::new();
        let n_drive = rng.usize(10);
        let stoppable: Vec<usize> = (1..n_sups)
            .filter(|s| sups[*s].owner == Owner::Harness)
            .collect();
        let mut stopped: Vec<usize> = Vec::new();
        for _ in 0..n_drive {
            match rng.below(12) {
                0..=3 => drive.push(Drive::Msg(rng.usize(actors.len()), rng.below(1000) as u32)),
                4..=6 => drive.push(Drive::Yield(1 + rng.below(6) as u8)),
                7 => {
                    if cfg.naps {
                        drive.push(Drive::Nap(rng.below(300) as u16))
                    } else {
                        drive.push(Drive::Yield(1))
                    }
                }
                8 => drive.push(Drive::Hangup),
                _ => {
                    let c: Vec<usize> = stoppable
                        .iter()
                        .copied()
                        .filter(|s| !stopped.contains(s))
                        .collect();
                    if !c.is_empty() {
                        let s = c[rng.usize(c.len())];
                        stopped.push(s);
                        drive.push(Drive::StopSub(s));
                    }
                }
            }
        }
        let term = if rng.chance(1, 4) {
            Term::Interrupt
        } else {
            Term::Terminate
        };
        TreeSpec {
            sups,
            actors,
            build,
            drive,
            term,
        }
    }

    /// is supervisor `s` equal to or below `top`?
    pub fn sup_under(&self, mut s: usize, top: usize) -> bool {
        loop {
            if s == top {
                return true;
            }
            match self.sups[s].parent {
                Some(p) => s = p,
                None => return false,
            }
        }
    }

    pub fn actors_under(&self, top: usize) -> Vec<usize> {
        (0..self.actors.len())
            .filter(|a| self.sup_under(self.actors[*a].sup, top))
            .collect()
    }

    /// number of supervisor levels at or below `top` that host at least one actor
    pub fn levels_under(&self, top: usize) -> usize {
        let mut depths: Vec<u8> = self
            .actors_under(top)
            .iter()
            .map(|a| self.sups[self.actors[*a].sup].depth)
            .collect();
        depths.sort();
        depths.dedup();
        depths.len()
    }

    pub fn describe(&self) -> String {
        format!(
            "sups={:?} actors={:?} build={:?} drive={:?} term={:?}",
            self.sups
                .iter()
                .map(|s| (s.parent, s.owner))
                .collect::<Vec<_>>(),
            self.actors
                .iter()
                .map(|a| (a.sup, a.kind, a.setup_y, a.run_y, a.cleanup_y))
                .collect::<Vec<_>>(),
            self.build,
            self.drive,
            self.term
        )
    }
}

// ---------------------------------------------------------------------------------------------
// event log with a global logical clock

#[derive(Clone, Copy, Debug, PartialEq, Eq)]
pub enum Ev {
    SetupBegin(usize),
    SetupDone(usize),
    RunBegin(usize),
    RunEnd(usize),
    CleanupBegin(usize),
    CleanupDone(usize),
    /// tree completely built (setup() of the runtime context is about to return)
    Built,
    /// harness (by = None) or an owner actor in its cleanup (by = Some(actor)) calls stop()
    StopCalled { sup: usize, by: Option<usize> },
    StopReturned { sup: usize, by: Option<usize> },
    TermSent,
    HandlerRan,
    ExecReturned,
}

impl Ev {
    fn actor(&self) -> Option<usize> {
        match self {
            Ev::SetupBegin(a)
            | Ev::SetupDone(a)
            | Ev::RunBegin(a)
            | Ev::RunEnd(a)
            | Ev::CleanupBegin(a)
            | Ev::CleanupDone(a) => Some(*a),
            Ev::StopCalled { by, .. } | Ev::StopReturned { by, .. } => *by,
            _ => None,
        }
    }
}

pub struct Log {
    clock: AtomicU64,
    evs: Mutex<Vec<(u64, Ev)>>,
}

impl Log {
    pub fn new() -> Arc<Self> {
        Arc::new(Log {
            clock: AtomicU64::new(0),
            evs: Mutex::new(Vec::new()),
        })
    }
    /// The clock is advanced and the event appended under one lock: log order = clock order, and an
    /// event is in the log before the `push` that recorded it returns.
    pub fn push(&self, ev: Ev) -> u64 {
        let mut g = match self.evs.lock() {
            Ok(g) => g,
            Err(p) => p.into_inner(),
        };
        let c = self.clock.fetch_add(1, Ordering::SeqCst);
        g.push((c, ev));
        c
    }
    pub fn snapshot(&self) -> Vec<(u64, Ev)> {
        match self.evs.lock() {
            Ok(g) => g.clone(),
            Err(p) => p.into_inner().clone(),
        }
    }
}

// ---------------------------------------------------------------------------------------------
// the actors

struct TActor {
    id: usize,
    spec: ActorSpec,
    log: Arc<Log>,
    rx: mpsc::Receiver<u32>,
    produced: u32,
    owned_drop: Vec<(usize, Supervisor)>,
    owned_stop: Vec<(usize, Supervisor)>,
    watchdog: Duration,
    hung: Arc<Mutex<Vec<String>>>,
}

#[inline(never)]
fn spin(n: u32) {
    for _ in 0..n {
        std::hint::spin_loop();
    }
}

impl Actor for TActor {
    type Message = u32;

    fn setup(&mut self) -> impl Future<Output = ()> + Send {
        async move {
            self.log.push(Ev::SetupBegin(self.id));
            for _ in 0..self.spec.setup_y {
                tokio::task::yield_now().await;
            }
            self.log.push(Ev::SetupDone(self.id));
        }
    }

    fn state(&mut self) -> impl Future<Output = ActorState<u32>> + Send {
        async move {
            match self.spec.kind {
                Kind::Blocker => match self.rx.recv().await {
                    Some(m) => ActorState::Ready(m),
                    None => ActorState::Stop,
                },
                Kind::Early(n) => {
                    if self.produced >= n {
                        ActorState::Stop
                    } else {
                        self.produced += 1;
                        ActorState::Ready(self.produced)
                    }
                }
                Kind::Long => {
                    self.produced = self.produced.wrapping_add(1);
                    ActorState::Ready(self.produced)
                }
            }
        }
    }

    fn run(&mut self, _msg: u32) -> impl Future<Output = ()> + Send {
        async move {
            self.log.push(Ev::RunBegin(self.id));
            for _ in 0..self.spec.run_y {
                spin(self.spec.spin);
                tokio::task::yield_now().await;
            }
            self.log.push(Ev::RunEnd(self.id));
        }
    }

    fn cleanup(&mut self) -> impl Future<Output = ()> + Send {
        async move {
            self.log.push(Ev::CleanupBegin(self.id));
            for _ in 0..self.spec.cleanup_y {
                tokio::task::yield_now().await;
            }
            for (s, sup) in self.owned_stop.drain(..) {
                self.log.push(Ev::StopCalled {
                    sup: s,
                    by: Some(self.id),
                });
                if tokio::time::timeout(self.watchdog, sup.stop()).await.is_err() {
                    if let Ok(mut h) = self.hung.lock() {
                        h.push(format!("stop(sup {s}) called by actor {} hung", self.id));
                    }
                    // no StopReturned: nothing is judged for this stop
                    continue;
                }
                self.log.push(Ev::StopReturned {
                    sup: s,
                    by: Some(self.id),
                });
            }
            self.log.push(Ev::CleanupDone(self.id));
        }
    }
}

// ---------------------------------------------------------------------------------------------
// runtime context: builds the whole tree inside RuntimeSetup::setup

struct Built {
    /// harness-held subordinate handles by supervisor index
    handles: Vec<Option<Supervisor>>,
    joins: Vec<Option<JoinHandle<()>>>,
    /// `subordinate_count()` of the primary supervisor when the tree was complete
    primary_count: usize,
}

struct Ctx {
    spec: Arc<TreeSpec>,
    log: Arc<Log>,
    rxs: Vec<Option<mpsc::Receiver<u32>>>,
    built_tx: oneshot::Sender<Built>,
    watchdog: Duration,
    hung: Arc<Mutex<Vec<String>>>,
}

impl RuntimeSetup for Ctx {
    type Error = String;

    fn setup(
        self,
        primary: &mut Supervisor,
    ) -> impl Future<Output = Result<(), Self::Error>> + Send {
        async move {
            let Ctx {
                spec,
                log,
                mut rxs,
                built_tx,
                watchdog,
                hung,
            } = self;
            let mut handles: Vec<Option<Supervisor>> = (0..spec.sups.len()).map(|_| None).collect();
            let mut joins: Vec<Option<JoinHandle<()>>> =
                (0..spec.actors.len()).map(|_| None).collect();
            for step in spec.build.iter() {
                match *step {
                    Step::Sub(s) => {
                        let p = spec.sups[s].parent.unwrap_or(0);
                        let h = if p == 0 {
                            primary.subordinate().await
                        } else {
                            match handles[p].as_mut() {
                                Some(ph) => ph.subordinate().await,
                                None => return Err(format!("harness: parent {p} handle gone")),
                            }
                        };
                        handles[s] = Some(h);
                    }
                    Step::Spawn(a) => {
                        let aspec = spec.actors[a].clone();
                        let mut owned_drop = Vec::new();
                        let mut owned_stop = Vec::new();
                        for s in 1..spec.sups.len() {
                            match spec.sups[s].owner {
                                Owner::ActorDrop(o) if o == a => {
                                    if let Some(h) = handles[s].take() {
                                        owned_drop.push((s, h));
                                    }
                                }
                                Owner::ActorStop(o) if o == a => {
                                    if let Some(h) = handles[s].take() {
                                        owned_stop.push((s, h));
                                    }
                                }
                                _ => {}
                            }
                        }
                        let rx = match rxs[a].take() {
                            Some(rx) => rx,
                            None => return Err("harness: mailbox taken twice".to_string()),
                        };
                        let actor = TActor {
                            id: a,
                            spec: aspec.clone(),
                            log: log.clone(),
                            rx,
                            produced: 0,
                            owned_drop,
                            owned_stop,
                            watchdog,
                            hung: hung.clone(),
                        };
                        let jh = if aspec.sup == 0 {
                            primary.spawn(actor)
                        } else {
                            match handles[aspec.sup].as_mut() {
                                Some(h) => h.spawn(actor),
                                None => {
                                    return Err(format!(
                                        "harness: supervisor {} handle gone",
                                        aspec.sup
                                    ))
                                }
                            }
                        };
                        joins[a] = Some(jh);
                    }
                }
            }
            let primary_count = primary.subordinate_count();
            log.push(Ev::Built);
            let _ = built_tx.send(Built {
                handles,
                joins,
                primary_count,
            });
            Ok(())
        }
    }
}

struct Handler {
    log: Arc<Log>,
}

impl SignalHandler for Handler {
    fn terminate(&mut self) -> impl Future<Output = ()> + Send {
        async move {
            tokio::task::yield_now().await;
            self.log.push(Ev::HandlerRan);
        }
    }
    fn interrupt(&mut self) -> impl Future<Output = ()> + Send {
        async move {
            self.log.push(Ev::HandlerRan);
        }
    }
}

// ---------------------------------------------------------------------------------------------
// running and judging one case

#[derive(Clone, Debug)]
pub struct Verdict {
    /// cause-class signature, no random data
    pub signature: String,
    pub explanation: String,
}

#[derive(Clone, Debug, Default)]
pub struct Stats {
    pub actors: u64,
    pub sups: u64,
    pub stops_sub: u64,
    pub stops_by_actor: u64,
    pub stops_exec: u64,
    pub stop_events_judged: u64,
    pub actor_judgements: u64,
    /// stop events whose target had >= 2 populated levels and >= 1 actor mid-step at stop-called
    pub nontrivial_stops: u64,
    pub actors_mid_run_at_stop: u64,
    pub actors_blocked_at_stop: u64,
    pub actors_already_done_at_stop: u64,
    pub handles_finished_at_return: u64,
    pub handles_finished_late: u64,
    pub sub_receivers_checked: u64,
    pub siblings_alive_after_sub_stop: u64,
    pub msgs_handled: u64,
    pub events: u64,
}

#[derive(Clone, Debug, Default)]
pub struct CaseResult {
    pub violations: Vec<Verdict>,
    /// harness could not decide (watchdog etc.)
    pub inconclusive: Vec<String>,
    pub stats: Stats,
    /// keys of the non-trivial stop events (normalised, for distinct counting)
    pub nontrivial_keys: Vec<String>,
    pub log_tail: String,
}

fn last_before(evs: &[(u64, Ev)], a: usize, clock: u64) -> Option<Ev> {
    evs.iter()
        .rev()
        .find(|(c, e)| *c < clock && e.actor() == Some(a) && !matches!(e, Ev::StopCalled { .. } | Ev::StopReturned { .. }))
        .map(|(_, e)| *e)
}

/// The oracle, over the complete log of a finished case.
pub fn judge(spec: &TreeSpec, evs: &[(u64, Ev)], res: &mut CaseResult) {
    let n = spec.actors.len();
    // per-actor cleanup bookkeeping
    let mut cdone: Vec<Option<u64>> = vec![None; n];
    let mut cbegin: Vec<Option<u64>> = vec![None; n];
    for (c, e) in evs {
        match e {
            Ev::CleanupBegin(a) => {
                if cbegin[*a].is_some() {
                    res.violations.push(Verdict {
                        signature: "c47/cleanup-ran-twice".into(),
                        explanation: format!("actor {a} logged cleanup-begin twice"),
                    });
                }
                cbegin[*a] = Some(*c);
            }
            Ev::CleanupDone(a) => {
                if cdone[*a].is_some() {
                    res.violations.push(Verdict {
                        signature: "c47/cleanup-ran-twice".into(),
                        explanation: format!("actor {a} logged cleanup-done twice"),
                    });
                }
                cdone[*a] = Some(*c);
            }
            _ => {}
        }
    }
    // nothing is logged by an actor after its cleanup-done
    for (c, e) in evs {
        if let Some(a) = e.actor() {
            if let Some(d) = cdone[a] {
                if *c > d {
                    res.violations.push(Verdict {
                        signature: "c47/actor-active-after-cleanup-done".into(),
                        explanation: format!(
                            "actor {a} logged {e:?} at clock {c} after its cleanup-done at {d}"
                        ),
                    });
                }
            }
        }
    }
    // every stop that returned: everything under the target is cleaned up before the return
    let mut targets: Vec<(usize, Option<usize>, u64, u64, &'static str)> = Vec::new();
    for (c, e) in evs {
        if let Ev::StopReturned { sup, by } = e {
            let called = evs
                .iter()
                .find(|(_, x)| *x == Ev::StopCalled { sup: *sup, by: *by })
                .map(|(c, _)| *c)
                .unwrap_or(0);
            targets.push((*sup, *by, called, *c, "stop"));
        }
        if let Ev::ExecReturned = e {
            let called = evs
                .iter()
                .find(|(_, x)| *x == Ev::TermSent)
                .map(|(c, _)| *c)
                .unwrap_or(0);
            targets.push((0, None, called, *c, "exec"));
        }
    }
    for (top, by, c_called, c_ret, what) in targets {
        res.stats.stop_events_judged += 1;
        let under = spec.actors_under(top);
        let mut mid = Vec::new();
        for a in under.iter().copied() {
            res.stats.actor_judgements += 1;
            match last_before(evs, a, c_called) {
                Some(Ev::RunBegin(_)) | Some(Ev::SetupBegin(_)) => {
                    res.stats.actors_mid_run_at_stop += 1;
                    mid.push(a);
                }
                Some(Ev::CleanupDone(_)) => res.stats.actors_already_done_at_stop += 1,
                Some(Ev::CleanupBegin(_)) => {}
                _ => res.stats.actors_blocked_at_stop += 1,
            }
            match cdone[a] {
                Some(d) if d < c_ret => {}
                Some(d) => res.violations.push(Verdict {
                    signature: format!("c47/{what}-returned-before-cleanup-done"),
                    explanation: format!(
                        "{what} of supervisor {top} (by {by:?}) returned at clock {c_ret}, but actor {a} (supervisor {}, {:?}) finished its cleanup only at clock {d}",
                        spec.actors[a].sup, spec.actors[a].kind
                    ),
                }),
                None => res.violations.push(Verdict {
                    signature: format!("c47/{what}-returned-cleanup-never-ran"),
                    explanation: format!(
                        "{what} of supervisor {top} (by {by:?}) returned at clock {c_ret}, but actor {a} (supervisor {}, {:?}) never logged cleanup-done (cleanup-begin: {:?})",
                        spec.actors[a].sup, spec.actors[a].kind, cbegin[a]
                    ),
                }),
            }
        }
        if spec.levels_under(top) >= 2 && !mid.is_empty() {
            res.stats.nontrivial_stops += 1;
            res.nontrivial_keys.push(format!(
                "{}|{what}|top={top}|by={by:?}|mid={mid:?}",
                spec.describe()
            ));
        }
    }
    res.stats.events = evs.len() as u64;
    res.stats.msgs_handled = evs.iter().filter(|(_, e)| matches!(e, Ev::RunEnd(_))).count() as u64;
}

fn tail(evs: &[(u64, Ev)], n: usize) -> String {
    let start = evs.len().saturating_sub(n);
    evs[start..]
        .iter()
        .map(|(c, e)| format!("{c}:{e:?}"))
        .collect::<Vec<_>>()
        .join(" ")
}

/// Run one tree on the ambient tokio runtime (which must have the time driver enabled).
pub async fn run_case(spec: Arc<TreeSpec>, watchdog: Duration) -> CaseResult {
    let mut res = CaseResult::default();
    res.stats.actors = spec.actors.len() as u64;
    res.stats.sups = spec.sups.len() as u64;
    let log = Log::new();
    let hung: Arc<Mutex<Vec<String>>> = Arc::new(Mutex::new(Vec::new()));
    let mut txs = Vec::new();
    let mut rxs = Vec::new();
    for _ in 0..spec.actors.len() {
        let (tx, rx) = mpsc::channel::<u32>(8);
        txs.push(Some(tx));
        rxs.push(Some(rx));
    }
    let (built_tx, built_rx) = oneshot::channel();
    let ctx = Ctx {
        spec: spec.clone(),
        log: log.clone(),
        rxs,
        built_tx,
        watchdog,
        hung: hung.clone(),
    };
    let (sig_src, sig_tx) = SoftwareSignalSource::new();
    let handler = Handler { log: log.clone() };
    let exec_log = log.clone();
    let mut exec = tokio::spawn(async move {
        let r = Runtime::new().exec(ctx, handler, sig_src).await;
        exec_log.push(Ev::ExecReturned);
        r
    });

    let built = match tokio::time::timeout(watchdog, built_rx).await {
        Ok(Ok(b)) => b,
        Ok(Err(_)) => {
            let r = (&mut exec).await;
            res.inconclusive
                .push(format!("harness: tree build failed: {r:?}"));
            return res;
        }
        Err(_) => {
            exec.abort();
            res.inconclusive
                .push("watchdog: tree build did not finish".to_string());
            return res;
        }
    };
    let Built {
        mut handles,
        mut joins,
        primary_count: _,
    } = built;

    let abort_all = |joins: &mut Vec<Option<JoinHandle<()>>>| {
        for j in joins.iter_mut().flatten() {
            j.abort();
        }
    };

    // ---- drive
    let mut stopped_subs: Vec<usize> = Vec::new();
    for d in spec.drive.iter() {
        match *d {
            Drive::Msg(a, m) => {
                if let Some(Some(tx)) = txs.get(a) {
                    let _ = tx.try_send(m);
                }
            }
            Drive::Yield(k) => {
                for _ in 0..k {
                    tokio::task::yield_now().await;
                }
            }
            Drive::Nap(us) => {
                tokio::time::sleep(Duration::from_micros(us as u64)).await;
            }
            Drive::Hangup => {
                let _ = sig_tx.send(Signal::Hangup).await;
            }
            Drive::StopSub(s) => {
                let Some(h) = handles[s].take() else { continue };
                // handles of supervisors below `s` that we still hold: their receiver count is
                // observable after the stop
                log.push(Ev::StopCalled { sup: s, by: None });
                let r = tokio::time::timeout(watchdog, h.stop()).await;
                if r.is_err() {
                    res.inconclusive
                        .push(format!("watchdog: stop() of supervisor {s} did not return"));
                    abort_all(&mut joins);
                    exec.abort();
                    return res;
                }
                let c_ret = log.push(Ev::StopReturned { sup: s, by: None });
                res.stats.stops_sub += 1;
                stopped_subs.push(s);
                // task handles of the actors below: informational only (the window between the
                // receiver drop and tokio marking the task complete is not the runtime's concern)
                for a in spec.actors_under(s) {
                    if let Some(j) = joins[a].as_ref() {
                        if j.is_finished() {
                            res.stats.handles_finished_at_return += 1;
                        } else {
                            res.stats.handles_finished_late += 1;
                        }
                    }
                }
                // subordinate supervisors below the stopped one must have no receivers left
                for t in 1..spec.sups.len() {
                    if t != s && spec.sup_under(t, s) {
                        if let Some(th) = handles[t].as_ref() {
                            res.stats.sub_receivers_checked += 1;
                            let cnt = th.subordinate_count();
                            if cnt != 0 {
                                res.violations.push(Verdict {
                                    signature: "c47/subordinate-has-receivers-after-stop".into(),
                                    explanation: format!(
                                        "stop of supervisor {s} returned at clock {c_ret}, subordinate supervisor {t} below it still counts {cnt} registered tasks"
                                    ),
                                });
                            }
                        }
                    }
                }
                // informational: actors elsewhere are not required to stop
                let snap = log.snapshot();
                for a in 0..spec.actors.len() {
                    if !spec.sup_under(spec.actors[a].sup, s)
                        && !snap.iter().any(|(_, e)| *e == Ev::CleanupBegin(a))
                    {
                        res.stats.siblings_alive_after_sub_stop += 1;
                    }
                }
            }
        }
    }

    // ---- terminate the runtime
    log.push(Ev::TermSent);
    let sig = match spec.term {
        Term::Terminate => Signal::Terminate,
        Term::Interrupt => Signal::Interrupt,
    };
    let _ = sig_tx.send(sig).await;
    match tokio::time::timeout(watchdog, &mut exec).await {
        Ok(Ok(Ok(()))) => {}
        Ok(Ok(Err(e))) => {
            res.inconclusive.push(format!("harness: exec returned Err({e})"));
            abort_all(&mut joins);
            return res;
        }
        Ok(Err(e)) => {
            res.inconclusive
                .push(format!("harness: exec task failed to join: {e}"));
            abort_all(&mut joins);
            return res;
        }
        Err(_) => {
            res.inconclusive
                .push("watchdog: Runtime::exec did not return after the stop signal".to_string());
            abort_all(&mut joins);
            exec.abort();
            return res;
        }
    }
    res.stats.stops_exec += 1;
    for j in joins.iter().flatten() {
        if j.is_finished() {
            res.stats.handles_finished_at_return += 1;
        } else {
            res.stats.handles_finished_late += 1;
        }
    }
    // remaining harness-held subordinate handles: all receivers must be gone, and stop() on them
    // must return (their task has ended)
    for t in 1..spec.sups.len() {
        if let Some(th) = handles[t].take() {
            res.stats.sub_receivers_checked += 1;
            let cnt = th.subordinate_count();
            if cnt != 0 {
                res.violations.push(Verdict {
                    signature: "c47/subordinate-has-receivers-after-exec".into(),
                    explanation: format!(
                        "Runtime::exec returned, subordinate supervisor {t} still counts {cnt} registered tasks"
                    ),
                });
            }
            if tokio::time::timeout(watchdog, th.stop()).await.is_err() {
                res.inconclusive.push(format!(
                    "watchdog: stop() of supervisor {t} after exec returned did not return"
                ));
            }
        }
    }
    // every task handle completes without further stimulus
    for (a, j) in joins.iter_mut().enumerate() {
        if let Some(j) = j.take() {
            match tokio::time::timeout(watchdog, j).await {
                Ok(Ok(())) => {}
                Ok(Err(e)) => res
                    .inconclusive
                    .push(format!("harness: actor {a} task failed: {e}")),
                Err(_) => res.inconclusive.push(format!(
                    "watchdog: task of actor {a} did not complete after exec returned"
                )),
            }
        }
    }
    // give stragglers (there must be none) a chance to log something
    for _ in 0..8 {
        tokio::task::yield_now().await;
    }
    if let Ok(h) = hung.lock() {
        for m in h.iter() {
            res.inconclusive.push(format!("watchdog: {m}"));
        }
    }
    let evs = log.snapshot();
    res.stats.stops_by_actor = evs
        .iter()
        .filter(|(_, e)| matches!(e, Ev::StopReturned { by: Some(_), .. }))
        .count() as u64;
    judge(&spec, &evs, &mut res);
    if !res.violations.is_empty() {
        res.log_tail = tail(&evs, 400);
    }
    drop(txs);
    res
}
