//! actorsim engine. See /verif/DESIGN.md section 2 and /verif/harness/AGENT_GUIDE.md.
mod c47;
mod tree;

fn main() {
    let args = kvcore::parse_args();
    match args.prop.as_str() {
        "C47" => c47::run(args),
        p => {
            println!("INCONCLUSIVE property={p} reason=actorsim does not serve this property");
            std::process::exit(2);
        }
    }
}
