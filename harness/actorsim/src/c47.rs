//! C47 Stopping a supervisor stops everything under it (native part).
//!
//! Random supervisor trees over the real `kanidm_actors` runtime on native multi-thread tokio
//! runtimes with 1-8 workers; the oracle (tree.rs) judges an event log with a global logical clock.
//! The Miri part (same trees, same oracle) lives in /verif/harness/miri/actors.

use crate::tree::{run_case, CaseResult, GenCfg, SRng, TreeSpec};
use kvcore::{Acc, Args, Run};
use serde_json::json;
use std::sync::Arc;
use std::time::Duration;

const WATCHDOG: Duration = Duration::from_secs(30);

fn absorb(acc: &mut Acc, spec: &TreeSpec, seed: u64, workers: usize, r: CaseResult) {
    acc.eval();
    let s = &r.stats;
    acc.count_n("actors", s.actors);
    acc.count_n("supervisors", s.sups);
    acc.count_n("stop.subordinate_by_harness", s.stops_sub);
    acc.count_n("stop.subordinate_by_owner_actor_cleanup", s.stops_by_actor);
    acc.count_n("stop.runtime_exec", s.stops_exec);
    acc.count_n("stop_events_judged", s.stop_events_judged);
    acc.count_n("actor_judgements", s.actor_judgements);
    acc.count_n("stop_events_nontrivial", s.nontrivial_stops);
    acc.count_n("at_stop.actor_mid_step", s.actors_mid_run_at_stop);
    acc.count_n("at_stop.actor_idle_or_blocked", s.actors_blocked_at_stop);
    acc.count_n("at_stop.actor_already_cleaned_up", s.actors_already_done_at_stop);
    acc.count_n("info.task_handle_finished_at_return", s.handles_finished_at_return);
    acc.count_n("info.task_handle_finished_shortly_after_return", s.handles_finished_late);
    acc.count_n("subordinate_receiver_counts_checked", s.sub_receivers_checked);
    acc.count_n("info.actors_elsewhere_alive_after_subordinate_stop", s.siblings_alive_after_sub_stop);
    acc.count_n("actor_steps_run", s.msgs_handled);
    acc.count_n("log_events", s.events);
    acc.count(&format!("runtime_workers.{workers}"));
    match spec.term {
        crate::tree::Term::Terminate => acc.count("signal.terminate"),
        crate::tree::Term::Interrupt => acc.count("signal.interrupt"),
    }
    for k in &r.nontrivial_keys {
        acc.nontrivial(k);
    }
    for a in &spec.actors {
        acc.count(match a.kind {
            crate::tree::Kind::Blocker => "actor_kind.blocks_on_mailbox",
            crate::tree::Kind::Early(_) => "actor_kind.finishes_early",
            crate::tree::Kind::Long => "actor_kind.runs_long",
        });
    }
    for s in &spec.sups {
        match s.owner {
            crate::tree::Owner::Harness => {}
            crate::tree::Owner::ActorDrop(_) => acc.count("handle_owner.actor_drops_it"),
            crate::tree::Owner::ActorStop(_) => acc.count("handle_owner.actor_stops_in_cleanup"),
        }
    }
    if !r.inconclusive.is_empty() {
        acc.count_n("inconclusive_cases", 1);
        for m in r.inconclusive.iter().take(2) {
            acc.inconclusive(&format!("case seed {seed}: {m}"));
        }
    }
    for v in &r.violations {
        acc.violation(
            &v.signature,
            json!({"case_seed": seed, "runtime_workers": workers, "tree": spec.describe(),
                   "explanation": v.explanation, "log_tail": r.log_tail}),
        );
    }
    if acc.samples.len() < 3 && !r.nontrivial_keys.is_empty() {
        acc.sample(json!({"case_seed": seed, "runtime_workers": workers, "tree": spec.describe(),
            "stop_events_judged": s.stop_events_judged, "actors_mid_step_at_stop": s.actors_mid_run_at_stop}));
    }
}

pub fn cfg_native() -> GenCfg {
    GenCfg {
        max_sups: 6,
        max_actors: 10,
        max_spin: 3000,
        naps: true,
        owner_p16: 4,
        owner_drop_p16: 5,
    }
}

pub fn run(args: Args) {
    let mut run = Run::new(
        args.clone(),
        "exploration",
        "random supervisor trees (primary + up to 5 subordinates, depth <= 3, up to 10 actors that block on a mailbox / finish early / run long with random yields and spins; some subordinate handles owned by actors) built completely inside RuntimeSetup::setup, then driven (messages, yields, hangup signals, stop() of random subordinates) and terminated by signal, on native multi-thread tokio runtimes with 1-8 workers and several trees in flight; a stop event is non-trivial when its target hosts actors on >= 2 supervisor levels and >= 1 of them is inside setup/run when stop is called; distinct by tree + stop target + set of mid-step actors",
    );
    run.assume("the log's order is the order in which the logging calls completed (one mutex + atomic clock); an actor logs cleanup-done as the last statement of its cleanup(), the harness logs stop-returned immediately after stop().await / exec().await returns");
    run.assume("trees are fully built before any stop is issued and every actor step terminates (the statement's domain); a stop that does not return within a 30 s wall-clock watchdog makes the run inconclusive, never violated");
    run.assume("task handles not yet marked finished at the instant stop returns are counted, not judged (tokio marks a task complete after its future - and with it the supervisor's receiver - is dropped)");
    let cases_per_worker: u64 = args.tier.pick(2500, 40_000) * 16 / (args.workers.max(1) as u64);
    let seed = args.seed;
    // single-case replay
    if let Some(p) = &args.replay {
        if let Some(w) = kvcore::run::load_replay(p) {
            let cs = w["case_seed"].as_u64().unwrap_or(0);
            let wk = w["runtime_workers"].as_u64().unwrap_or(2) as usize;
            let mut acc = Acc::new();
            for _ in 0..200 {
                let mut rng = SRng::new(cs);
                let spec = Arc::new(TreeSpec::generate(&mut rng, &cfg_native()));
                let rt = tokio::runtime::Builder::new_multi_thread()
                    .worker_threads(wk)
                    .enable_time()
                    .build()
                    .expect("runtime");
                let r = rt.block_on(run_case(spec.clone(), WATCHDOG));
                absorb(&mut acc, &spec, cs, wk, r);
            }
            run.acc.merge(acc);
            run.finish();
        }
    }
    run.parallel(args.workers, |w, _n| {
        let mut acc = Acc::new();
        let mut meta = SRng::new(kvcore::rng::mix(seed, w as u64, 47));
        let mut done = 0u64;
        while done < cases_per_worker {
            // a fresh runtime per batch, 1-8 workers
            let wk = 1 + meta.usize(8);
            let rt = match tokio::runtime::Builder::new_multi_thread()
                .worker_threads(wk)
                .enable_time()
                .build()
            {
                Ok(rt) => rt,
                Err(e) => {
                    acc.inconclusive(&format!("harness: cannot build runtime: {e}"));
                    break;
                }
            };
            let batch = 40.min(cases_per_worker - done);
            let mut i = 0;
            while i < batch {
                // 1-4 trees in flight on the same runtime
                let k = (1 + meta.usize(4)).min((batch - i) as usize);
                let mut specs = Vec::new();
                for _ in 0..k {
                    let cs = meta.next();
                    let mut rng = SRng::new(cs);
                    specs.push((cs, Arc::new(TreeSpec::generate(&mut rng, &cfg_native()))));
                }
                let results: Vec<CaseResult> = rt.block_on(async {
                    let mut hs = Vec::new();
                    for (_, spec) in specs.iter().skip(1) {
                        hs.push(tokio::spawn(run_case(spec.clone(), WATCHDOG)));
                    }
                    // the first case is driven from the block_on thread (outside the workers)
                    let first = run_case(specs[0].1.clone(), WATCHDOG).await;
                    let mut out = vec![first];
                    for h in hs {
                        match h.await {
                            Ok(r) => out.push(r),
                            Err(e) => {
                                let mut r = CaseResult::default();
                                r.inconclusive.push(format!("harness: case task failed: {e}"));
                                out.push(r);
                            }
                        }
                    }
                    out
                });
                for ((cs, spec), r) in specs.iter().zip(results.into_iter()) {
                    absorb(&mut acc, spec, *cs, wk, r);
                }
                i += k as u64;
                done += k as u64;
            }
            rt.shutdown_timeout(Duration::from_secs(5));
        }
        acc
    });
    let counters = run.acc.counters.clone();
    let evaluations = run.acc.evaluations;
    let g = |k: &str| counters.get(k).copied().unwrap_or(0);
    let min_cases = args.tier.pick(30_000, 500_000);
    run.require(evaluations >= min_cases, "too few trees executed");
    run.require(g("stop.runtime_exec") >= min_cases * 9 / 10, "too few runtime terminations judged");
    run.require(g("stop.subordinate_by_harness") >= min_cases / 10, "too few subordinate stop() calls judged");
    run.require(g("stop.subordinate_by_owner_actor_cleanup") > 0, "no stop() issued from an actor's cleanup");
    run.require(g("stop_events_nontrivial") >= min_cases / 10, "too few non-trivial stop events (>= 2 levels, actor mid-step)");
    run.require(g("at_stop.actor_mid_step") > 0 && g("at_stop.actor_idle_or_blocked") > 0 && g("at_stop.actor_already_cleaned_up") > 0,
        "not every actor situation (mid-step / blocked / already finished) was met at a stop");
    for k in ["actor_kind.blocks_on_mailbox", "actor_kind.finishes_early", "actor_kind.runs_long", "signal.terminate", "signal.interrupt"] {
        run.require(g(k) > 0, &format!("{k} never exercised"));
    }
    for wk in 1..=8 {
        run.require(g(&format!("runtime_workers.{wk}")) > 0, &format!("no runtime with {wk} workers"));
    }
    run.require(g("subordinate_receiver_counts_checked") > 0, "no subordinate receiver count was checked");
    run.require(g("inconclusive_cases") == 0, "some cases hit the watchdog");
    run.extra("watchdog_s", json!(WATCHDOG.as_secs()));
    run.extra("miri_part", json!("run separately: /verif/harness/miri/run_actors.sh <quick|thorough>"));
    run.finish();
}
