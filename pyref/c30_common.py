"""Independent implementations of every password format kanidm imports or generates (C30).

Nothing in here is derived from kanidm: crypt(3) via the `crypt` module (libxcrypt) for $1$/$5$/$6$,
hashlib for SHA / salted SHA / PBKDF2, a pure-Python MD4 (RFC 1320) for the NT hash, and the OpenSSL
command line (`openssl kdf ... ARGON2ID`) for Argon2id.
"""
import base64, binascii, hashlib, struct, subprocess, unicodedata, warnings

warnings.filterwarnings("ignore")
import crypt  # noqa: E402  (deprecated in 3.11, still present)


# ---------------------------------------------------------------- MD4 (RFC 1320), pure python
def md4(data: bytes) -> bytes:
    def rol(x, n):
        x &= 0xFFFFFFFF
        return ((x << n) | (x >> (32 - n))) & 0xFFFFFFFF

    a, b, c, d = 0x67452301, 0xEFCDAB89, 0x98BADCFE, 0x10325476
    ml = len(data) * 8
    data += b"\x80"
    data += b"\x00" * ((56 - len(data) % 64) % 64)
    data += struct.pack("<Q", ml & 0xFFFFFFFFFFFFFFFF)
    for off in range(0, len(data), 64):
        x = struct.unpack("<16I", data[off:off + 64])
        aa, bb, cc, dd = a, b, c, d
        # round 1
        for i in range(16):
            k = i
            s = (3, 7, 11, 19)[i % 4]
            f = (b & c) | (~b & d)
            a = rol(a + f + x[k], s)
            a, b, c, d = d, a, b, c
        # round 2
        for i in range(16):
            k = (i % 4) * 4 + i // 4
            s = (3, 5, 9, 13)[i % 4]
            g = (b & c) | (b & d) | (c & d)
            a = rol(a + g + x[k] + 0x5A827999, s)
            a, b, c, d = d, a, b, c
        # round 3
        order = (0, 8, 4, 12, 2, 10, 6, 14, 1, 9, 5, 13, 3, 11, 7, 15)
        for i in range(16):
            k = order[i]
            s = (3, 9, 11, 15)[i % 4]
            h = b ^ c ^ d
            a = rol(a + h + x[k] + 0x6ED9EBA1, s)
            a, b, c, d = d, a, b, c
        a = (a + aa) & 0xFFFFFFFF
        b = (b + bb) & 0xFFFFFFFF
        c = (c + cc) & 0xFFFFFFFF
        d = (d + dd) & 0xFFFFFFFF
    return struct.pack("<4I", a, b, c, d)


def nt_hash(pw: str) -> bytes:
    return md4(pw.encode("utf-16-le"))


# ---------------------------------------------------------------- Argon2id through OpenSSL 3.5
# Fast path: the EVP_KDF API of the libcrypto that belongs to the `openssl` binary on PATH, loaded
# in-process with ctypes. Fallback: the `openssl kdf` command line (one process per derivation).
# Both are OpenSSL's implementation; self_test() checks both against RFC 9106 and against each other.
import ctypes, os, shutil


class _OSSL_PARAM(ctypes.Structure):
    _fields_ = [("key", ctypes.c_char_p), ("data_type", ctypes.c_uint), ("data", ctypes.c_void_p),
                ("data_size", ctypes.c_size_t), ("return_size", ctypes.c_size_t)]


_FAST = None  # (lib, kdf) or False


def _fast_init():
    global _FAST
    if _FAST is not None:
        return _FAST
    try:
        exe = os.path.realpath(shutil.which("openssl"))
        path = os.path.realpath(os.path.join(os.path.dirname(exe), "..", "lib", "libcrypto.so.3"))
        lib = ctypes.CDLL(path, mode=ctypes.RTLD_LOCAL | 0x8)  # RTLD_DEEPBIND: do not mix with python's own libcrypto
        lib.EVP_KDF_fetch.restype = ctypes.c_void_p
        lib.EVP_KDF_fetch.argtypes = [ctypes.c_void_p, ctypes.c_char_p, ctypes.c_char_p]
        lib.EVP_KDF_CTX_new.restype = ctypes.c_void_p
        lib.EVP_KDF_CTX_new.argtypes = [ctypes.c_void_p]
        lib.EVP_KDF_CTX_free.argtypes = [ctypes.c_void_p]
        lib.EVP_KDF_derive.restype = ctypes.c_int
        lib.EVP_KDF_derive.argtypes = [ctypes.c_void_p, ctypes.c_void_p, ctypes.c_size_t, ctypes.c_void_p]
        kdf = lib.EVP_KDF_fetch(None, b"ARGON2ID", None)
        _FAST = (lib, kdf) if kdf else False
    except Exception:
        _FAST = False
    return _FAST


def _argon2id_fast(pw, salt, m, t, p, keylen, secret=b"", ad=b""):
    lib, kdf = _FAST
    keep, ps = [], []
    none = ctypes.c_size_t(-1).value

    def octet(k, b):
        buf = ctypes.create_string_buffer(b, max(len(b), 1))
        keep.append(buf)
        ps.append(_OSSL_PARAM(k, 5, ctypes.cast(buf, ctypes.c_void_p), len(b), none))

    def uint(k, v):
        c = ctypes.c_uint32(v)
        keep.append(c)
        ps.append(_OSSL_PARAM(k, 2, ctypes.cast(ctypes.pointer(c), ctypes.c_void_p), 4, none))

    octet(b"pass", pw)
    octet(b"salt", salt)
    if secret:
        octet(b"secret", secret)
    if ad:
        octet(b"ad", ad)
    uint(b"iter", t)
    uint(b"memcost", m)
    uint(b"lanes", p)
    uint(b"threads", 1)
    ps.append(_OSSL_PARAM(None, 0, None, 0, 0))
    arr = (_OSSL_PARAM * len(ps))(*ps)
    ctx = lib.EVP_KDF_CTX_new(kdf)
    out = ctypes.create_string_buffer(keylen)
    r = lib.EVP_KDF_derive(ctx, out, keylen, arr)
    lib.EVP_KDF_CTX_free(ctx)
    if r != 1:
        raise RuntimeError("EVP_KDF_derive(ARGON2ID) failed")
    return out.raw


def _argon2id_cli(pw, salt, m, t, p, keylen, secret=b"", ad=b""):
    cmd = ["openssl", "kdf", "-keylen", str(keylen), "-binary",
           "-kdfopt", "hexpass:" + pw.hex(), "-kdfopt", "hexsalt:" + salt.hex()]
    if secret:
        cmd += ["-kdfopt", "hexsecret:" + secret.hex()]
    if ad:
        cmd += ["-kdfopt", "hexad:" + ad.hex()]
    cmd += ["-kdfopt", "iter:%d" % t, "-kdfopt", "memcost:%d" % m, "-kdfopt", "lanes:%d" % p,
            "-kdfopt", "threads:1", "ARGON2ID"]
    out = subprocess.run(cmd, stdout=subprocess.PIPE, stderr=subprocess.PIPE, check=True).stdout
    if len(out) != keylen:
        raise RuntimeError("openssl kdf returned %d bytes" % len(out))
    return out


def argon2id(pw: bytes, salt: bytes, m: int, t: int, p: int, keylen: int) -> bytes:
    if _fast_init():
        return _argon2id_fast(pw, salt, m, t, p, keylen)
    return _argon2id_cli(pw, salt, m, t, p, keylen)


# ---------------------------------------------------------------- small helpers
def b64(b: bytes) -> str:
    return base64.b64encode(b).decode()


def b64_nopad(b: bytes) -> str:
    return base64.b64encode(b).decode().rstrip("=")


def ab64(b: bytes) -> str:
    """passlib / OpenLDAP 'adapted base64': '+' -> '.', no padding."""
    return b64_nopad(b).replace("+", ".")


def crypt3(pw: str, setting: str):
    """crypt(3); None when libxcrypt refuses (bad setting, passphrase too long, NUL)."""
    try:
        r = crypt.crypt(pw, setting)
    except (ValueError, OSError):
        return None
    if r is None or r.startswith("*") or len(r) < 13:
        return None
    return r


def self_test():
    assert md4(b"").hex() == "31d6cfe0d16ae931b73c59d7e0c089c0"
    assert md4(b"abc").hex() == "a448017aaf21d8525fc10ae87aa6729d"
    assert md4(b"12345678901234567890123456789012345678901234567890123456789012345678901234567890").hex() == "e33b4ddc9c38f2199c3e7b164fcc0536"
    assert nt_hash("password").hex().upper() == "8846F7EAEE8FB117AD06BDD830B7586C"
    # RFC 9106 section 5.3 Argon2id test vector (with secret and associated data), on whichever path is used
    rfc = "0d640df58d78766c08c037a34a8b53c9d01ef0452d75b65eb52520e96b01e659"
    if _fast_init():
        assert _argon2id_fast(b"\x01" * 32, b"\x02" * 16, 32, 3, 4, 32, b"\x03" * 8, b"\x04" * 12).hex() == rfc
    else:
        assert _argon2id_cli(b"\x01" * 32, b"\x02" * 16, 32, 3, 4, 32, b"\x03" * 8, b"\x04" * 12).hex() == rfc
    a = argon2id(b"password", b"somesalt", 32, 2, 1, 32)
    assert a != argon2id(b"password", b"somesalt", 32, 3, 1, 32) and a != argon2id(b"passwore", b"somesalt", 32, 2, 1, 32)
    assert crypt3("Hello world!", "$5$saltstring") == "$5$saltstring$5B8vYYiY.CVt1RlTTf8KbXBH3hsxY/GNooZaBBGWEc5"
    assert crypt3("Hello world!", "$6$saltstring") == "$6$saltstring$svn8UoSVapNtMuq1ukKS4tPQd8iKwSMHWjl/O817G3uBnIFNjnQJuesI68u4OTLiBFdcbYEdFCoEOfaS35inz1"
