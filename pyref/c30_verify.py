#!/usr/bin/env python3
"""C30 reverse direction: kanidm generated the stored password (Argon2id or PBKDF2-SHA256); this
script recomputes the key for each candidate cleartext with an independent implementation
(OpenSSL CLI for Argon2id, hashlib for PBKDF2) and answers whether it would accept.

Protocol: one JSON request per stdin line, one JSON answer per stdout line.
  {"kind": "argon2id", "m":, "t":, "p":, "v":, "salt": hex, "key": hex, "cands": [str, ...]}
  {"kind": "pbkdf2-sha256", "cost":, "salt": hex, "key": hex, "cands": [str, ...]}
  -> {"accept": [bool, ...]}
"""
import hashlib, json, sys

import c30_common as c


def main():
    c.self_test()
    for line in sys.stdin:
        line = line.strip()
        if not line:
            continue
        r = json.loads(line)
        salt, key = bytes.fromhex(r["salt"]), bytes.fromhex(r["key"])
        acc = []
        for pw in r["cands"]:
            b = pw.encode()
            if r["kind"] == "argon2id":
                if r["v"] != 19:
                    raise RuntimeError("only argon2 version 0x13 is implemented by the reference")
                acc.append(c.argon2id(b, salt, r["m"], r["t"], r["p"], len(key)) == key)
            elif r["kind"] == "pbkdf2-sha256":
                acc.append(hashlib.pbkdf2_hmac("sha256", b, salt, r["cost"], len(key)) == key)
            else:
                raise RuntimeError("unknown kind")
        sys.stdout.write(json.dumps({"accept": acc}) + "\n")
        sys.stdout.flush()


if __name__ == "__main__":
    main()
