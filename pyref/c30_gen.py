#!/usr/bin/env python3
"""C30 forward direction: independent implementations generate stored passwords in every format
kanidm imports, together with candidate cleartexts and the independent verdict for each candidate.

usage: c30_gen.py <seed> <worker> <nworkers> <per_format>
One JSON object per line:
  {"format", "hash" (the string to import), "params", "cands": [{"pw", "kind", "accept"}]}
`accept` is computed by re-hashing the candidate with the independent implementation, never assumed.
Cases are a deterministic function of the arguments.
"""
import hashlib, json, random, sys, unicodedata

import c30_common as c

HASH64 = "./0123456789ABCDEFGHIJKLMNOPQRSTUVWXYZabcdefghijklmnopqrstuvwxyz"
ALNUM = "0123456789ABCDEFGHIJKLMNOPQRSTUVWXYZabcdefghijklmnopqrstuvwxyz"

FORMATS = [
    "django-pbkdf2-sha256",
    "openldap-pbkdf2", "openldap-pbkdf2-sha1", "openldap-pbkdf2-sha256", "openldap-pbkdf2-sha512",
    "ds389-pbkdf2-sha1", "ds389-pbkdf2-sha256", "ds389-pbkdf2-sha512",
    "argon2id",
    "sha", "ssha", "sha256", "ssha256", "sha512", "ssha512",
    "ipa-nt-hash", "samba-nt-password",
    "crypt-md5", "crypt-sha256", "crypt-sha512",
]
CRYPT = ("crypt-md5", "crypt-sha256", "crypt-sha512")


# ---------------------------------------------------------------- cleartexts
def rand_text(rnd, n, alphabet_kind):
    if alphabet_kind == "ascii":
        return "".join(chr(rnd.randint(0x21, 0x7E)) for _ in range(n))
    if alphabet_kind == "ascii-space":
        return "".join(rnd.choice("abcdefghijklmnopqrstuvwxyz ABC 0123") for _ in range(n))
    pool = [
        lambda: chr(rnd.randint(0x21, 0x7E)),
        lambda: rnd.choice("\u00e0\u00e9\u00ee\u00f5\u00fc\u00e7\u00f1\u00c5\u00d8\u00df\u00e6\u00ff"),  # precomposed latin (NFD differs)
        lambda: rnd.choice("aeiou") + rnd.choice("\u0301\u0308\u0303"),  # decomposed (NFC differs)
        lambda: chr(rnd.randint(0x4E00, 0x4FFF)),          # CJK
        lambda: chr(rnd.randint(0x1F600, 0x1F64F)),        # non-BMP (surrogate pairs in UTF-16)
        lambda: chr(rnd.randint(0x0400, 0x044F)),          # cyrillic (case pairs)
        lambda: rnd.choice("\t \u00a0\u200b"),
    ]
    return "".join(rnd.choice(pool)() for _ in range(n))


def cleartext(rnd, fmt):
    k = rnd.random()
    max_bytes = 500 if fmt in CRYPT else 1024      # libxcrypt refuses passphrases over 512 bytes
    if k < 0.04:
        return "", "empty"
    if k < 0.10:
        return rand_text(rnd, 1, "ascii"), "one-byte"
    if k < 0.45:
        return rand_text(rnd, rnd.randint(6, 24), "ascii"), "ascii"
    if k < 0.55:
        return rand_text(rnd, rnd.randint(6, 40), "ascii-space"), "ascii-with-spaces"
    if k < 0.85:
        return rand_text(rnd, rnd.randint(1, 24), "unicode"), "non-ascii"
    if k < 0.92:
        n = rnd.randint(400, 512)
        s = rand_text(rnd, n, "ascii")
        return s[:min(n, max_bytes)], "long-up-to-512-bytes"
    if fmt in CRYPT:
        return rand_text(rnd, rnd.randint(100, 500), "ascii"), "long-up-to-512-bytes"
    if k < 0.96:
        return rand_text(rnd, rnd.randint(513, 1024), "ascii"), "long-513-to-1024-bytes"
    s = rand_text(rnd, 400, "unicode")
    while len(s.encode()) > 1024:
        s = s[:-1]
    if len(s.encode()) <= 512:
        return s, "non-ascii"
    return s, "long-513-to-1024-bytes"


def candidates(rnd, pw, fmt):
    out = [(pw, "right")]
    flipped = None
    for i, ch in enumerate(pw):
        sw = ch.swapcase()
        if sw != ch and len(sw) == 1:
            flipped = pw[:i] + sw + pw[i + 1:]
            break
    if flipped is not None:
        out.append((flipped, "case-flip"))
    if pw:
        out.append((pw[:-1], "truncated"))
        out.append(("", "empty"))
    out.append((pw + "x", "extended"))
    out.append((pw + " ", "trailing-space"))
    if fmt not in CRYPT:
        out.append((pw + "\x00", "trailing-nul"))   # crypt(3) is defined on C strings: not asked
    nfc, nfd = unicodedata.normalize("NFC", pw), unicodedata.normalize("NFD", pw)
    if nfc != pw:
        out.append((nfc, "nfc-form"))
    if nfd != pw:
        out.append((nfd, "nfd-form"))
    out.append((rand_text(rnd, rnd.randint(1, 16), "ascii"), "wrong-random"))
    if len(pw.encode()) > 512:
        b = pw.encode()[:512]
        out.append((b.decode("utf-8", "ignore"), "cut-at-512-bytes"))
    return out


# ---------------------------------------------------------------- formats
def pbkdf2(algo, pw, salt, it, dklen):
    return hashlib.pbkdf2_hmac(algo, pw.encode(), salt, it, dklen)


def gen_case(rnd, fmt):
    pw, pwclass = cleartext(rnd, fmt)
    params = {"cleartext_class": pwclass, "cleartext_bytes": len(pw.encode())}
    verdict = None

    if fmt == "django-pbkdf2-sha256":
        it = rnd.choice([1, 2, 100, 1000, 1000, 100, rnd.randint(1, 3000), rnd.randint(1, 3000)] * 2 + [36000, 260000 if rnd.random() < 0.02 else 600])
        salt = "".join(rnd.choice(ALNUM) for _ in range(rnd.randint(1, 22)))
        dklen = rnd.choice([32, 32, 32, 33, 48, 64])
        dk = pbkdf2("sha256", pw, salt.encode(), it, dklen)
        h = "pbkdf2_sha256$%d$%s$%s" % (it, salt, c.b64(dk))
        params.update(iterations=it, salt=salt, dklen=dklen)
        verdict = lambda x: pbkdf2("sha256", x, salt.encode(), it, dklen) == dk

    elif fmt.startswith("openldap-pbkdf2") or fmt.startswith("ds389-pbkdf2"):
        algo = {"openldap-pbkdf2": "sha1"}.get(fmt, fmt.rsplit("-", 1)[1])
        dklen = {"sha1": 20, "sha256": 32, "sha512": 64}[algo]
        if rnd.random() < 0.15:
            dklen += rnd.randint(1, 8)              # longer derived keys are legal
        it = rnd.choice([1, 2, 100, 1000, 1000, 100, rnd.randint(1, 3000), rnd.randint(1, 3000)] * 2 + [10000, 10000])
        salt = bytes(rnd.getrandbits(8) for _ in range(rnd.choice([16, 16, 16, 1, 8, 24, 32, 0])))
        dk = pbkdf2(algo, pw, salt, it, dklen)
        tag = "PBKDF2" if fmt == "openldap-pbkdf2" else "PBKDF2-" + algo.upper()
        if rnd.random() < 0.3:
            tag = tag.lower()                       # OpenLDAP sometimes writes the scheme in lower case
        enc = c.ab64 if fmt.startswith("openldap") else c.b64   # 389-DS: standard padded base64
        h = "{%s}%d$%s$%s" % (tag, it, enc(salt), enc(dk))
        params.update(iterations=it, salt_hex=salt.hex(), dklen=dklen, algo=algo)
        verdict = lambda x: pbkdf2(algo, x, salt, it, dklen) == dk

    elif fmt == "argon2id":
        p = rnd.choice([1, 1, 1, 2])
        m = rnd.choice([8, 16, 32, 64, 256, 1024]) * p
        t = rnd.choice([1, 2, 3])
        salt = bytes(rnd.getrandbits(8) for _ in range(rnd.choice([8, 16, 16, 16, 24, 32])))
        keylen = rnd.choice([16, 32, 32, 32, 64])
        dk = c.argon2id(pw.encode(), salt, m, t, p, keylen)
        h = "{ARGON2}$argon2id$v=19$m=%d,t=%d,p=%d$%s$%s" % (m, t, p, c.b64_nopad(salt), c.b64_nopad(dk))
        params.update(m=m, t=t, p=p, salt_hex=salt.hex(), keylen=keylen)
        verdict = lambda x: c.argon2id(x.encode(), salt, m, t, p, keylen) == dk

    elif fmt in ("sha", "ssha", "sha256", "ssha256", "sha512", "ssha512"):
        algo = {"sha": "sha1", "ssha": "sha1"}.get(fmt, fmt[1:] if fmt.startswith("ss") else fmt)
        salted = fmt.startswith("ss")
        salt = bytes(rnd.getrandbits(8) for _ in range(rnd.choice([4, 8, 8, 16, 1, 32]))) if salted else b""
        dg = hashlib.new(algo, pw.encode() + salt).digest()
        tag = fmt.upper() if rnd.random() < 0.7 else fmt
        h = "{%s}%s" % (tag, c.b64(dg + salt))
        params.update(salt_hex=salt.hex(), algo=algo)
        verdict = lambda x: hashlib.new(algo, x.encode() + salt).digest() == dg

    elif fmt == "ipa-nt-hash":
        dg = c.nt_hash(pw)
        import base64
        e = base64.urlsafe_b64encode(dg).decode()
        h = "ipaNTHash: " + (e if rnd.random() < 0.3 else e.rstrip("="))
        verdict = lambda x: c.nt_hash(x) == dg

    elif fmt == "samba-nt-password":
        dg = c.nt_hash(pw)
        hx = dg.hex()
        h = "sambaNTPassword: " + (hx.upper() if rnd.random() < 0.7 else hx)
        verdict = lambda x: c.nt_hash(x) == dg

    elif fmt in CRYPT:
        ident = {"crypt-md5": "1", "crypt-sha256": "5", "crypt-sha512": "6"}[fmt]
        maxsalt = 8 if ident == "1" else 16
        salt = "".join(rnd.choice(HASH64) for _ in range(rnd.choice([maxsalt, maxsalt, maxsalt, 1, 2, rnd.randint(1, maxsalt)])))
        setting = "$%s$" % ident
        if ident != "1" and rnd.random() < 0.5:
            rounds = rnd.choice([1000, 1001, 4999, 5000, 5001, rnd.randint(1000, 8000)])
            setting += "rounds=%d$" % rounds
            params.update(rounds=rounds)
        setting += salt + "$"
        stored = c.crypt3(pw, setting)
        if stored is None:
            return None
        h = "{crypt}" + stored
        params.update(salt=salt)
        verdict = lambda x: c.crypt3(x, stored) == stored
    else:
        raise ValueError(fmt)

    cands = []
    for x, kind in candidates(rnd, pw, fmt):
        if fmt in CRYPT and ("\x00" in x or len(x.encode()) > 512):
            continue
        cands.append({"pw": x, "kind": kind, "accept": bool(verdict(x)), "bytes": len(x.encode())})
    if not cands or not cands[0]["accept"]:
        raise RuntimeError("reference rejects its own cleartext for " + fmt)
    return {"format": fmt, "hash": h, "params": params, "cands": cands}


def main():
    seed, worker, nworkers, per_format = (int(x) for x in sys.argv[1:5])
    c.self_test()
    rnd = random.Random((seed << 20) ^ (worker * 104729) ^ 0xC30)
    out = sys.stdout
    for i in range(per_format):
        for fmt in FORMATS:
            case = gen_case(rnd, fmt)
            if case is not None:
                out.write(json.dumps(case) + "\n")
    out.flush()


if __name__ == "__main__":
    main()
