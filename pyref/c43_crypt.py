#!/usr/bin/env python3
"""Independent crypt(3) reference for C43 (PAM fails closed).

Line protocol on stdin/stdout, one JSON object per line:
  {"op": "hash",   "pw": str, "setting": str}  -> {"hash": str|null}   crypt(pw, setting)
  {"op": "verify", "pw": str, "hash": str}     -> {"ok": bool, "out": str|null}   ok = crypt(pw, hash) == hash; out = crypt(pw, hash)
Uses the system libcrypt (libxcrypt) through Python's `crypt` module: nothing of kanidm is involved.
"""
import json
import sys
import warnings

warnings.simplefilter("ignore")
import crypt  # noqa: E402


def do(req):
    op = req.get("op")
    if op == "hash":
        try:
            h = crypt.crypt(req["pw"], req["setting"])
        except Exception:
            h = None
        if h is not None and (h.startswith("*") or h == ""):
            h = None
        return {"hash": h}
    if op == "verify":
        field = req["hash"]
        try:
            h = crypt.crypt(req["pw"], field)
        except Exception:
            h = None
        ok = h is not None and h == field and len(field) > 0 and not field.startswith(("*", "!"))
        return {"ok": bool(ok), "out": h}
    return {"error": "unknown op"}


def main():
    for line in sys.stdin:
        line = line.strip()
        if not line:
            continue
        try:
            out = do(json.loads(line))
        except Exception as e:  # malformed request: say so, never guess
            out = {"error": str(e)}
        sys.stdout.write(json.dumps(out) + "\n")
        sys.stdout.flush()


if __name__ == "__main__":
    main()
