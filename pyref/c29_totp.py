#!/usr/bin/env python3
"""Independent RFC 6238 / RFC 4226 reference for C29.

usage: c29_totp.py <seed> <worker> <nworkers> <count>
Emits one JSON object per line: a random TOTP configuration, a time, and the RFC 6238 codes of the
time steps c-2 .. c+2 (c = floor(time / step)), computed with hashlib/hmac only.
Nothing here comes from kanidm; cases are a deterministic function of the arguments.
"""
import hashlib, hmac, json, random, struct, sys

ALGOS = {"sha1": hashlib.sha1, "sha256": hashlib.sha256, "sha512": hashlib.sha512}


def hotp(secret: bytes, counter: int, algo: str, digits: int):
    mac = hmac.new(secret, struct.pack(">Q", counter), ALGOS[algo]).digest()
    off = mac[-1] & 0x0F
    full = struct.unpack(">I", mac[off:off + 4])[0] & 0x7FFFFFFF
    return full % (10 ** digits), full


def main():
    seed, worker, nworkers, count = (int(x) for x in sys.argv[1:5])
    rnd = random.Random((seed << 20) ^ (worker * 7919) ^ 0xC29)
    out = sys.stdout
    for i in range(count):
        algo = rnd.choice(["sha1", "sha256", "sha512"])
        digits = rnd.choice([6, 8])
        block = 128 if algo == "sha512" else 64
        k = rnd.random()
        if k < 0.10:
            slen = rnd.choice([0, 1, block - 1, block, block + 1, 200])
        elif k < 0.75:
            slen = rnd.randint(0, block)          # usual: up to the hash block size
        else:
            slen = rnd.randint(block + 1, 200)    # longer than the block: HMAC hashes the key first
        secret = bytes(rnd.getrandbits(8) for _ in range(slen))
        if rnd.random() < 0.05:
            secret = bytes(slen)                  # all zero secret
        step = rnd.choice([30, 30, 30, 31, 45, 60, 90, 300, 3600, 86400, rnd.randint(30, 7200), rnd.randint(30, 2 ** 33)])
        # a time at least one step after the epoch
        k = rnd.random()
        if k < 0.15:
            c = rnd.choice([1, 2, 3])
        elif k < 0.75:
            c = max(1, rnd.randint(1_500_000_000, 2_500_000_000) // step)
        elif k < 0.95:
            c = rnd.randint(1, 2 ** 40)
        else:
            c = max(1, (2 ** 62) // step - rnd.randint(0, 5))
        c = max(1, min(c, (2 ** 63 - 1) // step - 1))   # keep the time inside a signed 64 bit second count
        off = rnd.choice([0, 0, 1, step - 1, step - 1, step - 2, rnd.randint(0, step - 1)])
        t = c * step + off
        nanos = rnd.choice([0, 0, 1, 999_999_999, rnd.randint(0, 999_999_999)])
        codes, fulls = {}, {}
        for d in (-2, -1, 0, 1, 2):
            if c + d >= 0:
                code, full = hotp(secret, c + d, algo, digits)
                codes[str(d)] = code
                fulls[str(d)] = full
        out.write(json.dumps({
            "i": i, "secret": secret.hex(), "algo": algo, "digits": digits, "step": step,
            "time": t, "nanos": nanos, "counter": c, "offset_in_step": off,
            "codes": codes, "untruncated": fulls,
        }) + "\n")
    out.flush()


if __name__ == "__main__":
    # self check against the RFC 6238 appendix B vectors before emitting anything
    assert hotp(b"12345678901234567890", 59 // 30, "sha1", 8)[0] == 94287082
    assert hotp(b"12345678901234567890123456789012", 59 // 30, "sha256", 8)[0] == 46119246
    assert hotp(b"1234567890123456789012345678901234567890123456789012345678901234", 59 // 30, "sha512", 8)[0] == 90693936
    assert hotp(b"12345678901234567890", 1111111109 // 30, "sha1", 8)[0] == 7081804
    assert hotp(b"12345678901234567890", 20000000000 // 30, "sha1", 8)[0] == 65353130
    main()
